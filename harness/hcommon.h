// Common prelude of every harness TU.  Wrappers are extern "C", noinline, take ints / doubles / pointers to caller-owned
// buffers, and return H_THROW when the library reported misuse by a C++ exception.  Under symir the catch blocks are removed by
// -lowerinvoke and the path ends at the throw site (outcome THROW); natively the wrapper returns H_THROW.
#pragma once
#include <dsplib.h>
#include <cstdint>
#include <vector>
#define H_THROW (-1000000)
#define HX extern "C" __attribute__((noinline))
#define H_TRY try {
#define H_END } catch (const std::exception&) { return H_THROW; }
using namespace dsplib;
static inline arr_real mk_real(const double* x, int n) { return arr_real(x, (size_t)n); }
static inline arr_cmplx mk_cmplx(const double* x, int n) { return arr_cmplx(reinterpret_cast<const cmplx_t*>(x), (size_t)n); }
static inline void put_real(const arr_real& a, double* y) { for (int i = 0; i < a.size(); ++i) y[i] = a[i]; }
static inline void put_cmplx(const arr_cmplx& a, double* y) { for (int i = 0; i < a.size(); ++i) { y[2*i] = a[i].re; y[2*i+1] = a[i].im; } }
