#include "hcommon.h"
HX double h_peakloc(const double* x, int n, int idx, int cyclic) { return peakloc(mk_real(x, n), idx, cyclic != 0); }
HX double h_peakloc_c(const double* x, int n, int idx, int cyclic) { return peakloc(mk_cmplx(x, n), idx, cyclic != 0); }
HX int h_delayseq(const double* x, int n, int d, int cplx, double* y) {
    H_TRY if (cplx) { arr_cmplx r = delayseq(mk_cmplx(x, n), d); put_cmplx(r, y); return r.size(); } arr_real r = delayseq(mk_real(x, n), d); put_real(r, y); return r.size(); H_END
}
// finddelay(x, delayseq(x, d))
HX int h_finddelay(const double* x, int n, int d, int cplx) {
    H_TRY if (cplx) { arr_cmplx a = mk_cmplx(x, n); return finddelay(a, delayseq(a, d)); } arr_real a = mk_real(x, n); return finddelay(a, delayseq(a, d)); H_END
}
HX double h_gccphat(const double* x, int n, int d, int fs) { arr_real a = mk_real(x, n); auto r = gccphat(delayseq(a, d), a, fs); return r.tau; }
// detector over a stream of nframes * chunk * frame_len samples, `chunk` frames per process() call; out rows of (frame, offset, score, preamble re/im ...) ; returns number of detections, fl[0] = frame_len
HX int h_detect(const double* h, int nh, double thr, const double* x, int nframes, double* out, int rowlen, int* fl, int chunk) {
    H_TRY
    PreambleDetector det(mk_cmplx(h, nh), thr); const int L = det.frame_len() * (chunk < 1 ? 1 : chunk); fl[0] = det.frame_len(); int cnt = 0;      // every process() call gets `chunk` frames; row = (call index, offset inside the call's input, ...)
    for (int f = 0; f < nframes; ++f) {
        auto r = det.process(mk_cmplx(x + 2 * f * L, L));
        if (r) { double* o = out + cnt * rowlen; o[0] = f; o[1] = r->offset; o[2] = r->score; for (int i = 0; i < r->preamble.size() && 3 + 2 * i + 1 < rowlen; ++i) { o[3 + 2 * i] = r->preamble[i].re; o[4 + 2 * i] = r->preamble[i].im; } ++cnt; }
    }
    return cnt;
    H_END
}
