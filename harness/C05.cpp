#include "hcommon.h"
#include <dsplib/czt.h>
#include <dsplib/audio/compressor.h>
// Misuse-directed call programs: every program must end by returning or by throwing a C++ exception - never by touching memory outside its operands.
// x: pool of input doubles (the programs build arrays of the requested lengths from its start), idx: integer pool (index lists), y: output pool.
static int putb(const std::vector<bool>& b, double* y) { for (size_t i = 0; i < b.size(); ++i) y[i] = b[i] ? 1.0 : 0.0; return (int)b.size(); }
HX int h_prog(int id, int n, int n2, int n3, const double* x, const int* idx, int ni, double* y) {
    H_TRY
    switch (id) {
    // ---- plan objects applied to inputs of another length (n = plan size, n2 = input length)
    case 0: { FftPlan p(n); arr_cmplx r = p(mk_cmplx(x, n2)); put_cmplx(r, y); return r.size(); }
    case 1: { FftPlanR p(n); arr_cmplx r = p(mk_real(x, n2)); put_cmplx(r, y); return r.size(); }
    case 2: { IfftPlan p(n); arr_cmplx r = p(mk_cmplx(x, n2)); put_cmplx(r, y); return r.size(); }
    case 3: { IfftPlanR p(n); arr_real r = p(mk_cmplx(x, n2)); put_real(r, y); return r.size(); }
    case 4: { CztPlan p(n, n3, cmplx_t{0.8, -0.6}); arr_cmplx r = p(mk_cmplx(x, n2)); put_cmplx(r, y); return r.size(); }
    case 5: { FftPlan p(n); std::vector<cmplx_t> out(n2 + 1); const BaseFftPlanC& b = p; arr_cmplx a = mk_cmplx(x, n2); b.solve(a.data(), out.data(), n2); for (int i = 0; i < n2; ++i) { y[2*i] = out[i].re; y[2*i+1] = out[i].im; } return n2; }
    // ---- array comparisons with unequal lengths
    case 10: return putb(mk_real(x, n) > mk_real(x + n, n2), y);
    case 11: return putb(mk_real(x, n) < mk_real(x + n, n2), y);
    case 12: return putb(mk_real(x, n) == mk_real(x + n, n2), y);
    case 13: return putb(mk_real(x, n) != mk_real(x + n, n2), y);
    case 14: return putb(mk_cmplx(x, n) == mk_cmplx(x + 2 * n, n2), y);
    case 15: return putb(mk_cmplx(x, n) > mk_cmplx(x + 2 * n, n2), y);
    // ---- index lists (entries symbolic, possibly empty)
    case 20: { arr_real a = mk_real(x, n); std::vector<int> v(idx, idx + ni); arr_real r = a[v]; put_real(r, y); return r.size(); }
    case 21: { arr_cmplx a = mk_cmplx(x, n); std::vector<int> v(idx, idx + ni); arr_cmplx r = a[v]; put_cmplx(r, y); return r.size(); }
    case 22: { arr_real a = mk_real(x, n); arr_int v(std::vector<int>(idx, idx + ni)); arr_real r = a[v]; put_real(r, y); return r.size(); }
    // ---- stream processors with empty / one-sample frames and degenerate sizes (n = order / taps, n2 = frame)
    case 30: { FirFilterR f(mk_real(x, n)); arr_real r = f(mk_real(x + n, n2)); put_real(r, y); return r.size(); }
    case 31: { FftFilter f(mk_real(x, n)); arr_real r = f(mk_real(x + n, n2)); put_real(r, y); return r.size(); }
    case 32: { DelayReal f(n); arr_real r = f(mk_real(x, n2)); put_real(r, y); return r.size(); }
    case 33: { MedianFilter f(n); arr_real r = f(mk_real(x, n2)); put_real(r, y); return r.size(); }
    case 34: { LmsFilterR f(n, 0.1); auto r = f(mk_real(x, n2), mk_real(x + n2, n3)); put_real(r.e, y); return r.e.size(); }
    case 35: { RlsFilterR f(n); auto r = f(mk_real(x, n2), mk_real(x + n2, n3)); put_real(r.e, y); return r.e.size(); }
    case 36: { FIRDecimator f(n, mk_real(x, 2 * n + 1)); arr_real r = f.process(mk_real(x + 16, n2)); put_real(r, y); return r.size(); }
    case 37: { FIRRateConverter f(n, n3, mk_real(x, 7)); arr_real r = f.process(mk_real(x + 16, n2)); put_real(r, y); return r.size(); }
    case 38: { FIRInterpolator f(n, mk_real(x, n3)); arr_real r = f.process(mk_real(x + 16, n2)); put_real(r, y); return r.size(); }
    case 39: { HilbertFilter f(n, 0.1); arr_cmplx r = f(mk_real(x, n2)); put_cmplx(r, y); return r.size(); }
    // ---- analysis functions at minimal sizes
    case 40: { arr_real r = xcorr(mk_real(x, n), mk_real(x + n, n2)); put_real(r, y); return r.size(); }
    case 41: { return finddelay(mk_real(x, n), mk_real(x + n, n2)); }
    case 42: { y[0] = peakloc(mk_real(x, n), n2, n3 != 0); return 1; }
    case 43: { auto w = welch(mk_real(x, n2), n); put_real(w.pxx, y); return w.pxx.size(); }
    case 44: { auto s = stft(mk_real(x, n2), n); return (int)s.size(); }
    case 45: { arr_real r = resample(mk_real(x, n2), n, n3); put_real(r, y); return r.size(); }
    case 46: { arr_real r = zeropad(mk_real(x, n), n2); put_real(r, y); return r.size(); }
    case 47: { arr_real r = delayseq(mk_real(x, n), n2); put_real(r, y); return r.size(); }
    case 48: { arr_real r = downsample(mk_real(x, n), n2, n3); put_real(r, y); return r.size(); }
    case 49: { arr_real r = upsample(mk_real(x, n), n2, n3); put_real(r, y); return r.size(); }
    case 50: { arr_cmplx r = hilbert(mk_real(x, n), n2); put_cmplx(r, y); return r.size(); }
    case 51: { arr_cmplx r = fft(mk_cmplx(x, n), n2); put_cmplx(r, y); return r.size(); }
    case 52: { arr_real r = irfft(mk_cmplx(x, n2), n); put_real(r, y); return r.size(); }
    case 53: { arr_real r = fir1(n, 0.3); put_real(r, y); return r.size(); }
    case 54: { arr_real r = window::hann(n); put_real(r, y); return r.size(); }
    case 55: { arr_real r = repelem(mk_real(x, n), n2); put_real(r, y); return r.size(); }
    case 56: { arr_real r = flip(mk_real(x, n)); put_real(r, y); return r.size(); }
    case 57: { arr_real r = medfilt(*new arr_real(mk_real(x, n)), n2); put_real(r, y); return r.size(); }
    case 58: { arr_real r = mscohere(mk_real(x, n2), mk_real(x + 1, n2), n); put_real(r, y); return r.size(); }
    case 59: { arr_real r = linspace(x[0], x[1], (size_t)n); put_real(r, y); return r.size(); }
    // ---- slices with symbolic (i1, i2, step) = idx[0..2]: materialise / fill / copy between arrays (memory safety only; the element semantics are C04's)
    case 60: { arr_real a = mk_real(x, n); arr_real r = *a.slice(idx[0], idx[1], idx[2]); put_real(r, y); return r.size(); }
    case 61: { arr_real a = mk_real(x, n); a.slice(idx[0], idx[1], idx[2]) = 7.5; put_real(a, y); return a.size(); }
    case 62: { arr_real a = mk_real(x, n); arr_real b = mk_real(x + n, n2); a.slice(idx[0], idx[1], idx[2]) = b; put_real(a, y); return a.size(); }
    case 63: { arr_cmplx a = mk_cmplx(x, n); const arr_cmplx& ca = a; arr_cmplx r = *ca.slice(idx[0], idx[1], idx[2]); put_cmplx(r, y); return r.size(); }
    // ---- analysis functions at degenerate overlaps / peak positions, transforms of empty arrays
    case 64: { auto s = stft(mk_real(x, n2), window::hann(n), n3, n); return (int)s.size(); }
    case 65: { auto s = stft(mk_real(x, n2), window::hann(n), n3 > 0 && n3 < n ? n3 : n / 2, n); arr_real r = istft(s, window::hann(n), n3, n); put_real(r, y); return r.size(); }
    case 66: return iscola(window::hann(n), n3) ? 1 : 0;
    case 67: case 68: case 69: {    // power spectrum of n bins with its peak at bin n2; n3 = 2*nharm + aliased
        arr_real sp(n); for (int i = 0; i < n; ++i) sp[i] = 1e-3 * (1 + 0.1 * (i % 3)); if (n2 >= 0 && n2 < n) sp[n2] = 1.0;
        if (id == 67) { auto t = thd(sp, n3 / 2, (n3 & 1) != 0, SinadType::Power); y[0] = t.value; put_real(t.harmpow, y + 1); return t.harmpow.size(); }
        if (id == 68) { y[0] = snr(sp, n3 / 2, (n3 & 1) != 0, SinadType::Power); return 1; }
        y[0] = sinad(sp, SinadType::Power); return 1; }
    case 75: case 76: {             // time signal of 2n samples: tone at n2/(2n) cycles per sample
        arr_real t(2 * n); for (int i = 0; i < 2 * n; ++i) t[i] = std::cos(pi * n2 * i / n) + 1e-3 * x[i % 8];
        if (id == 75) { auto r = thd(t, n3 / 2, (n3 & 1) != 0); y[0] = r.value; return r.harmpow.size(); }
        y[0] = snr(t, n3 / 2, (n3 & 1) != 0); return 1; }
    case 70: { arr_cmplx r = fft(mk_cmplx(x, n)); put_cmplx(r, y); return r.size(); }
    case 71: { arr_cmplx r = fft(mk_real(x, n)); put_cmplx(r, y); return r.size(); }
    case 72: { arr_cmplx r = rfft(mk_real(x, n)); put_cmplx(r, y); return r.size(); }
    case 73: { arr_cmplx r = ifft(mk_cmplx(x, n)); put_cmplx(r, y); return r.size(); }
    case 74: { arr_real r = irfft(mk_cmplx(x, n)); put_real(r, y); return r.size(); }
    // ---- number-theory helpers at the top of the 32-bit range (termination within sqrt(n) trial divisions): the argument is table entry n
    case 77: case 78: case 79: {
        static const unsigned tab[] = {4294967291u, 4294967279u, 4293001441u, 4294967295u, 2147483647u, 4294836225u, 4294049777u, 65521u * 65537u};
        const unsigned v = tab[n % 8];
        if (id == 77) return isprime(v) ? 1 : 0;
        if (id == 78) { arr_int f = factor(v); return f.size(); }
        return (int)(nextprime(v > 4294967291u ? 4294967279u : v) & 0x7fffffff); }
    default: return -3;
    }
    H_END
}
HX int h_nextpow2(int m) { return nextpow2(m); }
HX int h_ispow2(int m) { return ispow2(m) ? 1 : 0; }
