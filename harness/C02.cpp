#include "hcommon.h"
HX int h_ifft(const double* x, int n, double* y) { H_TRY arr_cmplx r = ifft(mk_cmplx(x, n)); put_cmplx(r, y); return r.size(); H_END }
HX int h_ifftplan(const double* x, int n, double* y) { H_TRY IfftPlan p(n); arr_cmplx r = p(mk_cmplx(x, n)); put_cmplx(r, y); return (p.size() == n) ? r.size() : -2; H_END }
HX int h_ifft_fft(const double* x, int n, double* y) { H_TRY arr_cmplx r = ifft(fft(mk_cmplx(x, n))); put_cmplx(r, y); return r.size(); H_END }
// X holds nb complex bins (nb = n or n/2+1)
HX int h_irfft(const double* X, int nb, int n, double* y) { H_TRY arr_real r = irfft(mk_cmplx(X, nb), n); put_real(r, y); return r.size(); H_END }
HX int h_irfftplan(const double* X, int nb, int n, double* y) { H_TRY IfftPlanR p(n); arr_real r = p(mk_cmplx(X, nb)); put_real(r, y); return (p.size() == n) ? r.size() : -2; H_END }
HX int h_irfft_rfft(const double* x, int n, int half, double* y) {
    H_TRY
    arr_cmplx X = rfft(mk_real(x, n));
    arr_real r = half ? irfft(arr_cmplx(X.slice(0, n / 2 + 1)), n) : irfft(X, n);
    put_real(r, y); return r.size();
    H_END
}
static arr_real mk_win(int kind, int n, int sym) {
    switch (kind) {
    case 0: return window::hann(n, sym != 0);
    case 1: return window::hamming(n, sym != 0);
    case 2: return ones(n);
    case 3: return window::cosine(n, sym != 0);
    case 4: return window::blackman(n, sym != 0);
    default: return window::kaiser(n, 2.5);
    }
}
HX int h_window(int kind, int n, int sym, double* w) { H_TRY arr_real a = mk_win(kind, n, sym); put_real(a, w); return a.size(); H_END }
HX int h_iscola(int kind, int n, int sym, int overlap, int method) {
    H_TRY return iscola(mk_win(kind, n, sym), overlap, method ? OverlapMethod::Wola : OverlapMethod::Ola) ? 1 : 0; H_END
}
// istft(stft(x)) ; returns reconstructed length, y filled
HX int h_stft_rt(const double* x, int nx, int kind, int nwin, int sym, int overlap, int nfft, int range, int method, double* y) {
    H_TRY
    arr_real w = mk_win(kind, nwin, sym);
    StftRange rg = range == 0 ? StftRange::Onesided : (range == 1 ? StftRange::Twosided : StftRange::Centered);
    OverlapMethod mt = method ? OverlapMethod::Wola : OverlapMethod::Ola;
    auto S = stft(mk_real(x, nx), w, overlap, nfft, rg);
    arr_real r = istft(S, w, overlap, nfft, rg, mt);
    put_real(r, y);
    return r.size();
    H_END
}
// one-argument overload: the transform size is the number of bins given
HX int h_irfft1(const double* X, int nb, int n, double* y) { H_TRY arr_real r = irfft(mk_cmplx(X, nb)); put_real(r, y); return r.size(); H_END }
// an odd-length request (rejected) first, then the even one: the rejection must leave nothing behind
HX int h_irfft_after_odd(const double* X, int nb, int n, double* y) {
    try { arr_real t = irfft(mk_cmplx(X, nb), n + 1); (void)t; } catch (...) {}
    H_TRY arr_real r = irfft(mk_cmplx(X, nb), n); put_real(r, y); return r.size(); H_END
}
// default-argument overloads
HX int h_stft_rt_default(const double* x, int nx, int nfft, double* y) {
    H_TRY auto S = stft(mk_real(x, nx), nfft); arr_real r = istft(S, nfft); put_real(r, y); return r.size(); H_END
}
