#include "hcommon.h"
#include <dsplib/czt.h>
#include <thread>
#include <atomic>
#include <cstring>
// ---- plan objects that outlive a call (shared between "threads"): created by h_mk, used by h_use
static std::shared_ptr<FftPlan> g_c; static std::shared_ptr<FftPlanR> g_r; static std::shared_ptr<IfftPlan> g_ic; static std::shared_ptr<IfftPlanR> g_ir; static std::shared_ptr<CztPlan> g_z;
// kind: 0 FftPlan 1 FftPlanR 2 IfftPlan 3 IfftPlanR 4 CztPlan(n, m=n+2)
HX int h_mk(int kind, int n) {
    H_TRY
    switch (kind) {
    case 0: g_c = std::make_shared<FftPlan>(n); break;
    case 1: g_r = std::make_shared<FftPlanR>(n); break;
    case 2: g_ic = std::make_shared<IfftPlan>(n); break;
    case 3: g_ir = std::make_shared<IfftPlanR>(n); break;
    default: g_z = std::make_shared<CztPlan>(n, n + 2, cmplx_t{0.8, -0.6}, cmplx_t{0.9, 0.1}); break;
    }
    return 0;
    H_END
}
static int use(int kind, int n, const double* x, double* y) {
    switch (kind) {
    case 0: { arr_cmplx r = g_c->solve(mk_cmplx(x, n)); put_cmplx(r, y); return r.size(); }
    case 1: { arr_cmplx r = g_r->solve(mk_real(x, n)); put_cmplx(r, y); return r.size(); }
    case 2: { arr_cmplx r = g_ic->solve(mk_cmplx(x, n)); put_cmplx(r, y); return r.size(); }
    case 3: { arr_real r = g_ir->solve(mk_cmplx(x, n / 2 + 1)); put_real(r, y); return r.size(); }
    default: { arr_cmplx r = g_z->solve(mk_cmplx(x, n)); put_cmplx(r, y); return r.size(); }
    }
}
HX int h_use(int kind, int n, const double* x, double* y) { H_TRY return use(kind, n, x, y); H_END }
// ---- free functions (each call self-contained): fk 0 fft(c) 1 fft(r) 2 ifft 3 irfft 4 xcorr 5 FftFilter(obj+process) 6 welch 7 resample(3/2) 8 randn 9 rand 10 randi 11 rng+randn 12 awgn 13 hann window 14 czt 15 scalar randn()/rand()/randi()
HX int h_free(int fk, int n, const double* x, double* y) {
    H_TRY
    switch (fk) {
    case 0: { arr_cmplx r = fft(mk_cmplx(x, n)); put_cmplx(r, y); return r.size(); }
    case 1: { arr_cmplx r = fft(mk_real(x, n)); put_cmplx(r, y); return r.size(); }
    case 2: { arr_cmplx r = ifft(mk_cmplx(x, n)); put_cmplx(r, y); return r.size(); }
    case 3: { arr_real r = irfft(mk_cmplx(x, n), n); put_real(r, y); return r.size(); }
    case 4: { arr_real r = xcorr(mk_real(x, n), mk_real(x + n, n)); put_real(r, y); return r.size(); }
    case 5: { FftFilter f(mk_real(x, 3)); arr_real r = f(mk_real(x + 3, n)); put_real(r, y); return r.size(); }
    case 6: { auto w = welch(mk_real(x, 2 * n), window::hann(n), n / 2, n); put_real(w.pxx, y); return w.pxx.size(); }
    case 7: { arr_real r = resample(mk_real(x, n), 3, 2); put_real(r, y); return r.size(); }
    case 8: { arr_real r = randn(n); put_real(r, y); return r.size(); }
    case 9: { arr_real r = rand(n); put_real(r, y); return r.size(); }
    case 10: { arr_int r = randi({-3, 9}, n); for (int i = 0; i < n; ++i) y[i] = r[i]; return r.size(); }
    case 11: { rng(12345); arr_real r = randn(n); put_real(r, y); return r.size(); }
    case 12: { arr_real r = awgn(mk_real(x, n), 10.0); put_real(r, y); return r.size(); }
    case 13: { arr_real r = window::hann(n); put_real(r, y); return r.size(); }
    case 15: { for (int i = 0; i < n; ++i) y[i] = (i % 3 == 0) ? randn() : (i % 3 == 1) ? dsplib::rand() : randi({-3, 9}); return n; }    // scalar overloads
    default: { arr_cmplx r = czt(mk_cmplx(x, n), n + 1, cmplx_t{0.8, -0.6}, cmplx_t{1.0, 0.0}); put_cmplx(r, y); return r.size(); }
    }
    H_END
}
// ---- native stress used only to REPLAY a write-set finding: T threads share one plan of `kind`, each transforms its own input `iters` times; returns the number of results
//      that differ from the single-threaded result of the same input (0 on a race-free plan)
HX int h_race(int kind, int n, int T, int iters) {
    H_TRY
    h_mk(kind, n);
    std::vector<std::vector<double>> xs(T, std::vector<double>(2 * n + 4)), ref(T, std::vector<double>(2 * n + 8));
    for (int t = 0; t < T; ++t) { for (int i = 0; i < 2 * n + 4; ++i) xs[t][i] = std::sin(0.37 * i * (t + 1)) + 0.01 * t; use(kind, n, xs[t].data(), ref[t].data()); }
    std::atomic<int> bad{0}; std::atomic<int> go{0};
    std::vector<std::thread> th;
    for (int t = 0; t < T; ++t) th.emplace_back([&, t]() {
        std::vector<double> y(2 * n + 8);
        go++; while (go.load() < T) {}
        for (int k = 0; k < iters; ++k) { use(kind, n, xs[t].data(), y.data()); if (std::memcmp(y.data(), ref[t].data(), sizeof(double) * n) != 0) bad++; }
    });
    for (auto& t : th) t.join();
    return bad.load();
    H_END
}
// the FIRST solve of a freshly built shared plan from T threads at once (lazily created members would race here and nowhere else): per trial a new plan,
// every thread solves once; references come from a plan that has been solved before.  Returns the number of wrong results.
HX int h_race_first(int kind, int n, int T, int trials) {
    H_TRY
    h_mk(kind, n);
    std::vector<std::vector<double>> xs(T, std::vector<double>(2 * n + 4)), ref(T, std::vector<double>(2 * n + 8));
    for (int t = 0; t < T; ++t) { for (int i = 0; i < 2 * n + 4; ++i) xs[t][i] = std::sin(0.37 * i * (t + 1)) + 0.01 * t; use(kind, n, xs[t].data(), ref[t].data()); }
    std::atomic<int> bad{0};
    for (int tr = 0; tr < trials; ++tr) {
        { std::thread mkt([&]() { h_mk(kind, n); }); mkt.join(); }      // fresh, never solved: built in a short-lived thread so that its per-thread plan cache cannot hand back an implementation object that has been solved before
        std::atomic<int> go{0}; std::vector<std::thread> th;
        for (int t = 0; t < T; ++t) th.emplace_back([&, t]() {
            std::vector<double> y(2 * n + 8);
            go++; while (go.load() < T) {}
            use(kind, n, xs[t].data(), y.data()); if (std::memcmp(y.data(), ref[t].data(), sizeof(double) * n) != 0) bad++;
        });
        for (auto& t : th) t.join();
    }
    return bad.load();
    H_END
}
// seeding / drawing in another thread must not change this thread's sequence: returns 1 if the sequence drawn after rng(seed) is the same with and without a concurrent thread that seeds and draws
HX int h_rng_threads(int seed, int n) {
    H_TRY
    // (1) a fresh thread that never seeds must see the same sequence whether or not another thread has seeded before it starts
    std::vector<double> f1(n), f2(n);
    { std::thread t([&]() { for (int i = 0; i < n; ++i) f1[i] = randn(); }); t.join(); }
    rng(seed);
    { std::thread t([&]() { for (int i = 0; i < n; ++i) f2[i] = randn(); }); t.join(); }
    for (int i = 0; i < n; ++i) if (f1[i] != f2[i]) return 0;
    // (2) this thread's sequence after rng(seed) is not disturbed by a concurrent thread that seeds and draws
    rng(seed); arr_real a = randn(n);
    rng(seed); std::thread other([]() { rng(777); volatile double s = 0; for (int i = 0; i < 2000; ++i) s += randn(); });
    arr_real b = randn(n); other.join();
    for (int i = 0; i < n; ++i) if (a[i] != b[i]) return 0;
    // (3) scalar overloads, deterministic hand-over: this thread draws k values, another thread seeds and draws j values (and has finished), this thread draws on:
    //     the continuation must be what this thread gets alone (no generator or distribution state may be shared between the threads)
    for (int k = 1; k <= 3; ++k) for (int j = 0; j <= 2; ++j) {
        double solo[8], mix[8];
        rng(seed); for (int i = 0; i < 8; ++i) solo[i] = (i & 4) ? dsplib::rand() + randi({0, 100}) : randn();
        rng(seed); for (int i = 0; i < k; ++i) mix[i] = randn();
        { std::thread t([j]() { rng(777); volatile double s = 0; for (int i = 0; i < j; ++i) s += randn() + dsplib::rand(); }); t.join(); }
        for (int i = k; i < 8; ++i) mix[i] = (i & 4) ? dsplib::rand() + randi({0, 100}) : randn();
        for (int i = 0; i < 8; ++i) if (solo[i] != mix[i]) return 0;
    }
    return 1;
    H_END
}
// native stress for free functions (replay only): T threads call h_free(fk) on their own inputs; counts results that differ from the single-threaded ones
HX int h_race_free(int fk, int n, int T, int iters) {
    H_TRY
    const int cap = 8 * (n + 2 * T) + 64;
    // every thread works with its own length (per-length caches are then refilled concurrently)
    std::vector<int> nt(T); for (int t = 0; t < T; ++t) nt[t] = (fk == 6) ? n : n + 2 * t;
    std::vector<std::vector<double>> xs(T, std::vector<double>(cap)), ref(T, std::vector<double>(cap));
    for (int t = 0; t < T; ++t) { for (int i = 0; i < cap; ++i) xs[t][i] = std::sin(0.37 * i * (t + 1)) + 0.01 * t; h_free(fk, nt[t], xs[t].data(), ref[t].data()); }
    std::atomic<int> bad{0}; std::atomic<int> go{0};
    std::vector<std::thread> th;
    for (int t = 0; t < T; ++t) th.emplace_back([&, t]() {
        std::vector<double> y(cap);
        go++; while (go.load() < T) {}
        for (int k = 0; k < iters; ++k) { int c = h_free(fk, nt[t], xs[t].data(), y.data()); if (c < 0 || std::memcmp(y.data(), ref[t].data(), sizeof(double) * (c > nt[t] ? nt[t] : c)) != 0) bad++; }
    });
    for (auto& t : th) t.join();
    return bad.load();
    H_END
}
