#include "hcommon.h"
HX int h_sort(const double* x, int n, int desc, double* y, int* idx) {
    H_TRY
    auto r = sort(mk_real(x, n), desc ? Direction::Descend : Direction::Ascend);
    for (int i = 0; i < n; ++i) { y[i] = r.first[i]; idx[i] = r.second[i]; }
    return (r.first.size() == n && r.second.size() == n) ? n : -2;
    H_END
}
HX double h_median(const double* x, int n) { arr_real a = mk_real(x, n); return median(a); }
HX int h_medflt(const double* x, int nx, int order, double init, double* y) {
    H_TRY MedianFilter f(order, init); arr_real r = f.process(mk_real(x, nx)); put_real(r, y); return r.size(); H_END
}
HX int h_medflt2(const double* x, int n1, int n2, int order, double init, double* y) {   // frames n1, 1, rest (three calls when n2 >= 2)
    H_TRY MedianFilter f(order, init); arr_real a = mk_real(x, n1); arr_real r1 = f(a); put_real(r1, y); int k = r1.size();
    if (n2 >= 2) { arr_real r2 = f(mk_real(x + n1, 1)); put_real(r2, y + k); k += r2.size(); arr_real r3 = f(mk_real(x + n1 + 1, n2 - 1)); put_real(r3, y + k); k += r3.size(); }
    else if (n2 == 1) { arr_real r2 = f(mk_real(x + n1, 1)); put_real(r2, y + k); k += r2.size(); }
    return k; H_END
}
HX int h_medfilt(const double* x, int nx, int order, double* y) {
    H_TRY arr_real a = mk_real(x, nx); arr_real r = medfilt(a, order); put_real(r, y); return r.size(); H_END
}
HX double h_corr(const double* x, const double* y, int n, int type) {
    arr_real a = mk_real(x, n), b = mk_real(y, n);
    return corr(a, b, type == 0 ? Correlation::Pearson : (type == 1 ? Correlation::Spearman : Correlation::Kendall));
}
