#include "hcommon.h"
HX int h_isprime(unsigned n) { return isprime(n) ? 1 : 0; }
HX int64_t h_nextprime(unsigned n) { H_TRY return (int64_t)nextprime(n); H_END }
HX int h_factor(unsigned n, int* out, int cap) {
    H_TRY
    arr_int r = factor(n);
    for (int i = 0; i < r.size() && i < cap; ++i) out[i] = r[i];
    return r.size();
    H_END
}
HX int h_primes(unsigned n, int* out, int cap) {
    H_TRY
    arr_int r = primes(n);
    for (int i = 0; i < r.size() && i < cap; ++i) out[i] = r[i];
    return r.size();
    H_END
}
HX int h_nextpow2(int m) { return nextpow2(m); }
HX int h_ispow2(int m) { return ispow2(m) ? 1 : 0; }
// two calls in one thread: the second result must not depend on the first call
HX int64_t h_nextprime2(unsigned a, unsigned b) { H_TRY volatile unsigned r1 = nextprime(a); (void)r1; return (int64_t)nextprime(b); H_END }
HX int h_isprime2(unsigned a, unsigned b) { volatile bool r1 = isprime(a); (void)r1; return isprime(b) ? 1 : 0; }
