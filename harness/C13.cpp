#include "hcommon.h"
static arr_real mkwin(int kind, int n) { return kind == 0 ? window::hamming(n) : kind == 1 ? window::hann(n) : kind == 2 ? ones(n) : window::blackman(n); }
// welch: cplx 0/1; scale 0 = Psd, 1 = Power.  pxx and f written out; window written to w
HX int h_welch(int cplx, const double* x, int nx, int wkind, int winlen, int noverlap, int nfft, int scale, double* pxx, double* f, double* w) {
    H_TRY
    arr_real win = mkwin(wkind, winlen); put_real(win, w);
    SpectrumType st = scale ? SpectrumType::Power : SpectrumType::Psd;
    WelchResult r = cplx ? welch(mk_cmplx(x, nx), win, noverlap, nfft, st) : welch(mk_real(x, nx), win, noverlap, nfft, st);
    put_real(r.pxx, pxx); put_real(r.f, f);
    return (r.pxx.size() == r.f.size()) ? r.pxx.size() : -2;
    H_END
}
HX int h_welch_default(int cplx, const double* x, int nx, int winlen, double* pxx, double* f) {
    H_TRY
    WelchResult r = cplx ? welch(mk_cmplx(x, nx), winlen) : welch(mk_real(x, nx), winlen);
    put_real(r.pxx, pxx); put_real(r.f, f); return r.pxx.size();
    H_END
}
// y = c * x when scaled != 0 (c passed), else y given after x
HX int h_mscohere(const double* x, const double* y, int nx, int wkind, int winlen, int noverlap, int nfft, double* out) {
    H_TRY arr_real r = mscohere(mk_real(x, nx), mk_real(y, nx), mkwin(wkind, winlen), noverlap, nfft); put_real(r, out); return r.size(); H_END
}
HX int h_mscohere_scaled(const double* x, double c, int nx, int wkind, int winlen, int noverlap, int nfft, double* out) {
    H_TRY arr_real a = mk_real(x, nx); arr_real b = a * c; arr_real r = mscohere(a, b, mkwin(wkind, winlen), noverlap, nfft); put_real(r, out); return r.size(); H_END
}

// the same scaled-copy call after an unrelated earlier call with a LONGER window at the same nfft (call history must not matter)
HX int h_mscohere_after(const double* x, double c, int nx, int wkind, int winlen, int noverlap, int nfft, double* out) {
    H_TRY
    { const int n0 = 2 * nfft; arr_real u(n0), v(n0); for (int i = 0; i < n0; ++i) { u[i] = std::sin(0.9 * i) + 0.3; v[i] = std::cos(1.7 * i) - 0.2 * i; }
      arr_real r0 = mscohere(u, v, mkwin(0, nfft), nfft / 2, nfft); (void)r0; }
    arr_real a = mk_real(x, nx); arr_real b = a * c; arr_real r = mscohere(a, b, mkwin(wkind, winlen), noverlap, nfft); put_real(r, out); return r.size();
    H_END
}

// convenience overloads: ovl 0 (x, winlen, scale)  1 (x, hamming window, scale)  2 (x, winlen, noverlap, nfft, scale); documented defaults: hamming window, winlen/2 overlap, nfft = 2^nextpow2(winlen)
HX int h_welch_ovl(int cplx, int ovl, const double* x, int nx, int winlen, int noverlap, int nfft, int scale, double* pxx, double* f) {
    H_TRY
    SpectrumType st = scale ? SpectrumType::Power : SpectrumType::Psd;
    WelchResult r(arr_real{}, arr_real{});
    switch (ovl + 4 * cplx) {
    case 0: r = welch(mk_real(x, nx), winlen, st); break;
    case 1: r = welch(mk_real(x, nx), window::hamming(winlen), st); break;
    case 2: r = welch(mk_real(x, nx), winlen, noverlap, nfft, st); break;
    case 4: r = welch(mk_cmplx(x, nx), winlen, st); break;
    case 5: r = welch(mk_cmplx(x, nx), window::hamming(winlen), st); break;
    default: r = welch(mk_cmplx(x, nx), winlen, noverlap, nfft, st); break;
    }
    put_real(r.pxx, pxx); put_real(r.f, f);
    return (r.pxx.size() == r.f.size()) ? r.pxx.size() : -2;
    H_END
}
