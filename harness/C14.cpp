#include "C06.cpp"
HX int h_hilbert(const double* x, int n, double* y) { H_TRY arr_cmplx r = hilbert(mk_real(x, n)); put_cmplx(r, y); return r.size(); H_END }
HX int h_hilbert_n(const double* x, int nx, int n2, double* y) { H_TRY arr_cmplx r = hilbert(mk_real(x, nx), n2); put_cmplx(r, y); return r.size(); H_END }
// stream processors through make(): kind 12 HilbertFilter (c = taps, or ip[0] = flen / dp[0] = tw when nc == 0), kind 13 Tuner (ip[0] = fs, dp[0] = f); frames n1, n2, n3
HX int h_stream(int kind, const int* ip, const double* dp, const double* c, int nc, int in_w, const double* x, int n1, int n2, int n3, double* y) {
    H_TRY auto A = make(kind, ip, dp, c, nc); if (!A) return -3;
    int k = A->run(x, n1, y); if (n2 > 0) k += A->run(x + in_w * n1, n2, y + k); if (n3 > 0) k += A->run(x + in_w * (n1 + n2), n3, y + k); return k; H_END
}
HX int h_hilb_taps(int flen, double tw, double* h, int cap) { H_TRY HilbertFilter f(flen, tw); const arr_real& a = f.impz(); for (int i = 0; i < a.size() && i < cap; ++i) h[i] = a[i]; return a.size(); H_END }
