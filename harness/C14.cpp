#include <dsplib/array.h>
#include <cmath>
#define private public      // harness-only: lets h_tuner_step start from an arbitrary sample counter
#include <dsplib/tuner.h>
#undef private
#include "C06.cpp"
HX int h_hilbert(const double* x, int n, double* y) { H_TRY arr_cmplx r = hilbert(mk_real(x, n)); put_cmplx(r, y); return r.size(); H_END }
HX int h_hilbert_n(const double* x, int nx, int n2, double* y) { H_TRY arr_cmplx r = hilbert(mk_real(x, nx), n2); put_cmplx(r, y); return r.size(); H_END }
// stream processors through make(): kind 12 HilbertFilter (c = taps, or ip[0] = flen / dp[0] = tw when nc == 0), kind 13 Tuner (ip[0] = fs, dp[0] = f); frames n1, n2, n3
HX int h_stream(int kind, const int* ip, const double* dp, const double* c, int nc, int in_w, const double* x, int n1, int n2, int n3, double* y) {
    H_TRY auto A = make(kind, ip, dp, c, nc); if (!A) return -3;
    int k = A->run(x, n1, y); if (n2 > 0) k += A->run(x + in_w * n1, n2, y + k); if (n3 > 0) k += A->run(x + in_w * (n1 + n2), n3, y + k); return k; H_END
}
HX int h_hilb_taps(int flen, double tw, double* h, int cap) { H_TRY HilbertFilter f(flen, tw); const arr_real& a = f.impz(); for (int i = 0; i < a.size() && i < cap; ++i) h[i] = a[i]; return a.size(); H_END }

// one sample from an arbitrary sample-counter state (constructor runs normally, then the counter is set); returns the new counter, out = {re, im, wraps}
HX int h_tuner_step(int fs, double f, int phase0, double xr, double xi, double* out) {
    H_TRY Tuner t(fs, f); t._phase = phase0; arr_cmplx x{cmplx_t{xr, xi}}; arr_cmplx r = t.process(x);
    out[0] = r[0].re; out[1] = r[0].im; out[2] = double(t._wraps); return t._phase; H_END
}
// replay through the public interface only: k+1 unit samples in blocks, out = the output for sample index k
HX int h_tuner_at(int fs, double f, int k, double* out) {
    H_TRY Tuner t(fs, f); const int B = 8192; arr_cmplx blk(B); for (int i = 0; i < B; ++i) blk[i] = cmplx_t{1.0, 0.0};
    long long done = 0; cmplx_t last{0, 0};
    while (done <= k) { const int m = int(std::min<long long>(B, (long long)k + 1 - done)); arr_cmplx r = (m == B) ? t.process(blk) : t.process(arr_cmplx(blk.slice(0, m))); last = r[m - 1]; done += m; }
    out[0] = last.re; out[1] = last.im; return 1; H_END
}
