#include "hcommon.h"
// one sample at a time; before every sample the coefficient vector is recorded (wb[k*len .. )), bit k of lockmask = adaptation locked for sample k.
// kind 0 LMS 1 NLMS 2 RLS (real) ; 3 LMS complex 4 NLMS complex 5 RLS complex (x, d, y, e, wb interleaved re/im)
HX int h_adapt(int kind, int len, double p1, double p2, const double* x, const double* d, int n, int lockmask, double* y, double* e, double* wb, double* wfinal) {
    H_TRY
    if (kind < 3) {
        std::shared_ptr<LmsFilterR> lms; std::shared_ptr<RlsFilterR> rls;
        if (kind == 2) rls = std::make_shared<RlsFilterR>(len, p1, p2); else lms = std::make_shared<LmsFilterR>(len, p1, kind == 1 ? LmsType::NLMS : LmsType::LMS, p2);
        for (int k = 0; k < n; ++k) {
            arr_real w = rls ? arr_real(rls->coeffs()) : lms->coeffs();
            for (int i = 0; i < len; ++i) wb[k * len + i] = w[i];
            const bool lock = (lockmask >> k) & 1;
            if (rls) rls->set_lock_coeffs(lock); else lms->set_lock_coeffs(lock);
            arr_real xs{x[k]}, ds{d[k]};
            if (rls) { auto r = (*rls)(xs, ds); y[k] = r.y[0]; e[k] = r.e[0]; } else { auto r = (*lms)(xs, ds); y[k] = r.y[0]; e[k] = r.e[0]; }
        }
        arr_real w = rls ? arr_real(rls->coeffs()) : lms->coeffs();
        for (int i = 0; i < len; ++i) wfinal[i] = w[i];
        return n;
    }
    std::shared_ptr<LmsFilterC> lms; std::shared_ptr<RlsFilterC> rls;
    if (kind == 5) rls = std::make_shared<RlsFilterC>(len, p1, p2); else lms = std::make_shared<LmsFilterC>(len, p1, kind == 4 ? LmsType::NLMS : LmsType::LMS, p2);
    for (int k = 0; k < n; ++k) {
        arr_cmplx w = rls ? arr_cmplx(rls->coeffs()) : lms->coeffs();
        for (int i = 0; i < len; ++i) { wb[2 * (k * len + i)] = w[i].re; wb[2 * (k * len + i) + 1] = w[i].im; }
        const bool lock = (lockmask >> k) & 1;
        if (rls) rls->set_lock_coeffs(lock); else lms->set_lock_coeffs(lock);
        arr_cmplx xs{cmplx_t{x[2 * k], x[2 * k + 1]}}, ds{cmplx_t{d[2 * k], d[2 * k + 1]}};
        if (rls) { auto r = (*rls)(xs, ds); y[2 * k] = r.y[0].re; y[2 * k + 1] = r.y[0].im; e[2 * k] = r.e[0].re; e[2 * k + 1] = r.e[0].im; }
        else { auto r = (*lms)(xs, ds); y[2 * k] = r.y[0].re; y[2 * k + 1] = r.y[0].im; e[2 * k] = r.e[0].re; e[2 * k + 1] = r.e[0].im; }
    }
    arr_cmplx w = rls ? arr_cmplx(rls->coeffs()) : lms->coeffs();
    for (int i = 0; i < len; ++i) { wfinal[2 * i] = w[i].re; wfinal[2 * i + 1] = w[i].im; }
    return n;
    H_END
}
