#include "hcommon.h"
#include <dsplib/czt.h>
HX int h_fft_c(const double* x, int n, double* y) { H_TRY arr_cmplx r = fft(mk_cmplx(x, n)); put_cmplx(r, y); return r.size(); H_END }
HX int h_fft_r(const double* x, int n, double* y) { H_TRY arr_cmplx r = fft(mk_real(x, n)); put_cmplx(r, y); return r.size(); H_END }
HX int h_rfft(const double* x, int n, double* y) { H_TRY arr_cmplx r = rfft(mk_real(x, n)); put_cmplx(r, y); return r.size(); H_END }
HX int h_fft_c_n(const double* x, int nx, int n2, double* y) { H_TRY arr_cmplx r = fft(mk_cmplx(x, nx), n2); put_cmplx(r, y); return r.size(); H_END }
HX int h_fft_r_n(const double* x, int nx, int n2, double* y) { H_TRY arr_cmplx r = fft(mk_real(x, nx), n2); put_cmplx(r, y); return r.size(); H_END }
HX int h_rfft_n(const double* x, int nx, int n2, double* y) { H_TRY arr_cmplx r = rfft(mk_real(x, nx), n2); put_cmplx(r, y); return r.size(); H_END }
HX int h_plan_c(const double* x, int n, double* y) { H_TRY FftPlan p(n); arr_cmplx r = p(mk_cmplx(x, n)); put_cmplx(r, y); return r.size() == p.size() ? r.size() : -2; H_END }
HX int h_plan_r(const double* x, int n, double* y) { H_TRY FftPlanR p(n); arr_cmplx r = p(mk_real(x, n)); put_cmplx(r, y); return r.size() == p.size() ? r.size() : -2; H_END }
// plan used twice (second result reported) and through the pointer interface
HX int h_plan_c2(const double* x, int n, double* y) {
    H_TRY FftPlan p(n); arr_cmplx a = mk_cmplx(x, n); arr_cmplx r0 = p.solve(a);
    std::vector<cmplx_t> out(n); const BaseFftPlanC& b = p; b.solve(a.data(), out.data(), n);
    for (int i = 0; i < n; ++i) { y[2*i] = out[i].re; y[2*i+1] = out[i].im; }
    return n; H_END
}
HX int h_czt(const double* x, int n, int m, double wre, double wim, double are, double aim, double* y) {
    H_TRY arr_cmplx r = czt(mk_cmplx(x, n), m, cmplx_t{wre, wim}, cmplx_t{are, aim}); put_cmplx(r, y); return r.size(); H_END
}
HX int h_cztplan(const double* x, int n, int m, double wre, double wim, double are, double aim, double* y) {
    H_TRY CztPlan p(n, m, cmplx_t{wre, wim}, cmplx_t{are, aim}); arr_cmplx r = p(mk_cmplx(x, n)); put_cmplx(r, y); return r.size(); H_END
}
