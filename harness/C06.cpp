#include "hcommon.h"
#include "ma-filter.h"
#include <dsplib/audio/compressor.h>
#include <dsplib/audio/limiter.h>
#include <dsplib/audio/noise-gate.h>
#include <memory>
#include <functional>
// A stream processor behind one interface: run(x, n samples) appends its output doubles to y and returns how many doubles it wrote.
// in_w = doubles per input sample (real 1, complex 2, adaptive filters: x and d interleaved per sample).
struct Proc { virtual ~Proc() = default; virtual int run(const double* x, int n, double* y) = 0; };
template<class F> struct ProcF final : Proc { F f; explicit ProcF(F g) : f(std::move(g)) {} int run(const double* x, int n, double* y) override { return f(x, n, y); } };
template<class F> static std::unique_ptr<Proc> mk(F f) { return std::unique_ptr<Proc>(new ProcF<F>(std::move(f))); }
static int outr(const arr_real& r, double* y) { put_real(r, y); return r.size(); }
static int outc(const arr_cmplx& r, double* y) { put_cmplx(r, y); return 2 * r.size(); }

// adaptive filters (real): input sample = (x, d); K > 0 locks the coefficients after the K-th sample of the stream, whatever the framing
// (a frame that straddles sample K is processed in two calls, so every instance has a call boundary exactly at K)
template<class P> static std::unique_ptr<Proc> adaptive_real(std::shared_ptr<P> p, int K) {
    auto cnt = std::make_shared<int>(0);
    return mk([p, cnt, K](const double* x, int n, double* y) {
        std::vector<double> yy, ee;
        auto run = [&](int from, int to) {
            arr_real a(to - from), d(to - from); for (int i = from; i < to; ++i) { a[i - from] = x[2*i]; d[i - from] = x[2*i+1]; }
            auto r = (*p)(a, d); for (int i = 0; i < r.y.size(); ++i) yy.push_back(r.y[i]); for (int i = 0; i < r.e.size(); ++i) ee.push_back(r.e[i]);
        };
        const int done = *cnt;
        if (K > 0 && done >= K) p->set_lock_coeffs(true);
        if (K > 0 && done < K && done + n > K) { run(0, K - done); p->set_lock_coeffs(true); run(K - done, n); } else run(0, n);
        *cnt += n;
        int k = 0; for (double v : yy) y[k++] = v; for (double v : ee) y[k++] = v;
        return k + outr(p->coeffs(), y + k);
    });
}
// ip: integer params, dp: double params, c: coefficient vector
static std::unique_ptr<Proc> make(int kind, const int* ip, const double* dp, const double* c, int nc) {
    switch (kind) {
    case 0: { auto p = std::make_shared<FirFilterR>(mk_real(c, nc)); return mk([p](const double* x, int n, double* y) { return outr((*p)(mk_real(x, n)), y); }); }
    case 1: { auto p = std::make_shared<FirFilterC>(mk_cmplx(c, nc / 2)); return mk([p](const double* x, int n, double* y) { return outc((*p)(mk_cmplx(x, n)), y); }); }
    case 2: { auto p = std::make_shared<FftFilter>(mk_real(c, nc)); return mk([p](const double* x, int n, double* y) { return outr((*p)(mk_real(x, n)), y); }); }
    case 3: { auto p = std::make_shared<FftFilter>(mk_cmplx(c, nc / 2)); return mk([p](const double* x, int n, double* y) { return outc((*p)(mk_cmplx(x, n)), y); }); }
    case 4: { auto p = nc ? std::make_shared<FIRDecimator>(ip[0], mk_real(c, nc)) : std::make_shared<FIRDecimator>(ip[0]); return mk([p](const double* x, int n, double* y) { return outr(p->process(mk_real(x, n)), y); }); }
    case 5: { auto p = nc ? std::make_shared<FIRInterpolator>(ip[0], mk_real(c, nc)) : std::make_shared<FIRInterpolator>(ip[0]); return mk([p](const double* x, int n, double* y) { return outr(p->process(mk_real(x, n)), y); }); }
    case 6: { auto p = nc ? std::make_shared<FIRRateConverter>(ip[0], ip[1], mk_real(c, nc)) : std::make_shared<FIRRateConverter>(ip[0], ip[1]); return mk([p](const double* x, int n, double* y) { return outr(p->process(mk_real(x, n)), y); }); }
    case 7: { auto p = nc ? std::make_shared<FIRResampler>(ip[0], ip[1], mk_real(c, nc)) : std::make_shared<FIRResampler>(ip[0], ip[1]); return mk([p](const double* x, int n, double* y) { return outr(p->process(mk_real(x, n)), y); }); }
    case 8: { auto p = nc ? std::make_shared<DelayReal>(mk_real(c, nc)) : std::make_shared<DelayReal>(ip[0]); return mk([p](const double* x, int n, double* y) { return outr((*p)(mk_real(x, n)), y); }); }
    case 9: { auto p = std::make_shared<DelayCmplx>(ip[0]); return mk([p](const double* x, int n, double* y) { return outc((*p)(mk_cmplx(x, n)), y); }); }
    case 10: { auto p = std::make_shared<MedianFilter>(ip[0], dp[0]); return mk([p](const double* x, int n, double* y) { return outr((*p)(mk_real(x, n)), y); }); }
    case 11: { auto p = std::make_shared<MAFilterR>(ip[0]); return mk([p](const double* x, int n, double* y) { return outr((*p)(mk_real(x, n)), y); }); }
    case 12: { auto p = nc ? std::make_shared<HilbertFilter>(mk_real(c, nc)) : std::make_shared<HilbertFilter>(ip[0], dp[0]); return mk([p](const double* x, int n, double* y) { return outc((*p)(mk_real(x, n)), y); }); }
    case 13: { auto p = std::make_shared<Tuner>(ip[0], dp[0]); return mk([p](const double* x, int n, double* y) { return outc((*p)(mk_cmplx(x, n)), y); }); }
    case 14: { auto p = std::make_shared<Agc>(dp[0], dp[1], ip[0], dp[2], dp[3]); return mk([p](const double* x, int n, double* y) { auto r = p->process(mk_real(x, n)); int k = outr(r.out, y); return k + outr(r.gain, y + k); }); }
    case 15: { auto p = std::make_shared<Agc>(dp[0], dp[1], ip[0], dp[2], dp[3]); return mk([p](const double* x, int n, double* y) { auto r = p->process(mk_cmplx(x, n)); int k = outc(r.out, y); return k + outr(r.gain, y + k); }); }
    case 16: { auto p = std::make_shared<Compressor>(ip[0], dp[0], ip[1], dp[1], dp[2], dp[3]); return mk([p](const double* x, int n, double* y) { auto r = (*p)(mk_real(x, n)); int k = outr(r.out, y); return k + outr(r.gain, y + k); }); }
    case 17: { auto p = std::make_shared<Limiter>(ip[0], dp[0], dp[1], dp[2], dp[3]); return mk([p](const double* x, int n, double* y) { auto r = (*p)(mk_real(x, n)); int k = outr(r.out, y); return k + outr(r.gain, y + k); }); }
    case 18: { auto p = std::make_shared<NoiseGate>(ip[0], dp[0], dp[1], dp[2], dp[3]); return mk([p](const double* x, int n, double* y) { auto r = (*p)(mk_real(x, n)); int k = outr(r.out, y); return k + outr(r.gain, y + k); }); }
    case 19: case 20: return adaptive_real(std::make_shared<LmsFilterR>(ip[0], dp[0], kind == 19 ? LmsType::LMS : LmsType::NLMS, dp[1]), ip[1]);   // LMS / NLMS real; ip[1] = lock after that many samples (0 = never)
    case 21: {   // LMS complex: input sample = (xr, xi, dr, di)
        auto p = std::make_shared<LmsFilterC>(ip[0], dp[0], ip[1] ? LmsType::NLMS : LmsType::LMS, dp[1]);
        return mk([p](const double* x, int n, double* y) { arr_cmplx a(n), d(n); for (int i = 0; i < n; ++i) { a[i] = cmplx_t{x[4*i], x[4*i+1]}; d[i] = cmplx_t{x[4*i+2], x[4*i+3]}; }
            auto r = (*p)(a, d); int k = outc(r.y, y); k += outc(r.e, y + k); return k + outc(p->coeffs(), y + k); });
    }
    case 22: return adaptive_real(std::make_shared<RlsFilterR>(ip[0], dp[0], dp[1]), ip[1]);   // RLS real
    case 23: {   // RLS complex
        auto p = std::make_shared<RlsFilterC>(ip[0], dp[0], dp[1]);
        return mk([p](const double* x, int n, double* y) { arr_cmplx a(n), d(n); for (int i = 0; i < n; ++i) { a[i] = cmplx_t{x[4*i], x[4*i+1]}; d[i] = cmplx_t{x[4*i+2], x[4*i+3]}; }
            auto r = (*p)(a, d); int k = outc(r.y, y); k += outc(r.e, y + k); return k + outc(p->coeffs(), y + k); });
    }
    case 24: { auto p = std::make_shared<MAFilterC>(ip[0]); return mk([p](const double* x, int n, double* y) { return outc((*p)(mk_cmplx(x, n)), y); }); }
    default: return nullptr;
    }
}
// Two separately constructed instances with identical parameters: A gets the whole stream in one call, B gets it in (up to) three frames [0,s1) [s1,s2) [s2,n);
// calls are interleaved (B1, A, B2, B3).  cnt[0], cnt[1]: doubles written by A / B;  per-frame outputs of B are appended in call order.
HX int h_frame(int kind, const int* ip, const double* dp, const double* c, int nc, int in_w, const double* x, int n, int s1, int s2, double* ya, double* yb, int* cnt) {
    H_TRY
    auto A = make(kind, ip, dp, c, nc); auto B = make(kind, ip, dp, c, nc);
    if (!A || !B) return -3;
    int kb = 0;
    if (s1 > 0) kb += B->run(x, s1, yb + kb);
    int ka = A->run(x, n, ya);
    if (s2 > s1) kb += B->run(x + in_w * s1, s2 - s1, yb + kb);
    if (n > s2) kb += B->run(x + in_w * s2, n - s2, yb + kb);
    cnt[0] = ka; cnt[1] = kb;
    return ka;
    H_END
}
// single instance, whole stream (used by other properties' references as well)
HX int h_whole(int kind, const int* ip, const double* dp, const double* c, int nc, const double* x, int n, double* y) {
    H_TRY auto A = make(kind, ip, dp, c, nc); if (!A) return -3; return A->run(x, n, y); H_END
}
