// private members of the dynamics processors are read/set here to start a step from an arbitrary state (harness only)
#include <complex>
#include <vector>
#include <list>
#include <memory>
#include <array>
#include <algorithm>
#include <numeric>
#include <functional>
#include <string>
#include <sstream>
#include <iostream>
#include <stdexcept>
#include <cmath>
#include <cstring>
#include <cassert>
#include <random>
#include <unordered_map>
#include <type_traits>
#include <limits>
#include <iterator>
#include <iosfwd>
#define private public
#include <dsplib.h>
#undef private
#include "hcommon.h"
// static gain computer (dB) for input sample x
HX double h_comp_curve(double T, int R, double W, double x) { Compressor c(100, T, R, W, 0.0, 0.0); return c._compute_gain(x); }
HX double h_lim_curve(double T, double W, double x) { Limiter c(100, T, W, 0.0, 0.0); return c._compute_gain(x); }
// one sample from smoothed-gain state gs0: o = {gain (linear), out, new gs (dB)}
HX int h_comp_step(int fs, double T, int R, double W, double ta, double tr, double gs0, double x, double* o) {
    H_TRY Compressor c(fs, T, R, W, ta, tr); c.gs_ = gs0; auto r = c.process(arr_real{x}); o[0] = r.gain[0]; o[1] = r.out[0]; o[2] = c.gs_; return 1; H_END
}
HX int h_lim_step(int fs, double T, double W, double ta, double tr, double gs0, double x, double* o) {
    H_TRY Limiter c(fs, T, W, ta, tr); c.gs_ = gs0; auto r = c.process(arr_real{x}); o[0] = r.gain[0]; o[1] = r.out[0]; o[2] = c.gs_; return 1; H_END
}
// noise gate: state (lg0, hold counter cA0); o = {gain, out, new lg}; returns new counter
HX int h_gate_step(int fs, double T, double ta, double tr, double th, double lg0, int cA0, double x, double* o) {
    H_TRY NoiseGate g(fs, T, ta, tr, th); g.lg_ = lg0; g.cA_ = cA0; auto r = g.process(arr_real{x}); o[0] = r.gain[0]; o[1] = r.out[0]; o[2] = g.lg_; o[3] = g.tH_; return g.cA_; H_END
}
// whole-stream runs through the public API (zero attack/release: output level = static curve)
HX int h_comp_run(int fs, double T, int R, double W, double ta, double tr, const double* x, int n, double* out, double* gain) {
    H_TRY Compressor c(fs, T, R, W, ta, tr); auto r = c(mk_real(x, n)); put_real(r.out, out); put_real(r.gain, gain); return n; H_END
}
HX int h_lim_run(int fs, double T, double W, double ta, double tr, const double* x, int n, double* out, double* gain) {
    H_TRY Limiter c(fs, T, W, ta, tr); auto r = c(mk_real(x, n)); put_real(r.out, out); put_real(r.gain, gain); return n; H_END
}
HX int h_agc_run(double target, double maxgain, int avg, double trise, double tfall, const double* x, int n, double* out, double* gain) {
    H_TRY Agc a(target, maxgain, avg, trise, tfall); auto r = a.process(mk_real(x, n)); put_real(r.out, out); put_real(r.gain, gain); return n; H_END
}
