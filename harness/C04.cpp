#include "hcommon.h"
// ---- (1) index resolution of the slice constructor itself (out-of-line leaf, all four ints symbolic)
struct SliceProbe : public base_slice_t {
    SliceProbe(int n, int i1, int i2, int m) : base_slice_t(n, i1, i2, m) {}
    void get(int* o) const { o[0] = _i1; o[1] = _i2; o[2] = _m; o[3] = _n; o[4] = _nc; }
};
HX int h_slice_ctor(int n, int i1, int i2, int m, int* o) {
    H_TRY
    SliceProbe s(n, i1, i2, m);
    s.get(o);
    return 0;
    H_END
}
// ---- (2) reading. kind: 0 mutable slice -> *s ; 1 const slice -> *s ; 2 base_array(slice) ; 3 iteration over const slice;
//                         4 copy of slice object then read ; 5 copy of const slice object then read; 6 const_slice from slice then read
template<typename T, typename A>
static int read_kind(A& a, const A& ca, int kind, int i1, int i2, int m, A& out) {
    switch (kind) {
    case 0: { auto s = a.slice(i1, i2, m); out = *s; return s.size(); }
    case 1: { auto s = ca.slice(i1, i2, m); out = *s; return s.size(); }
    case 2: { A r(a.slice(i1, i2, m)); out = r; return r.size(); }
    case 3: { auto s = ca.slice(i1, i2, m); std::vector<T> v; for (auto it = s.begin(); it != s.end(); ++it) v.push_back(*it); out = A(v); return s.size(); }
    case 4: { auto s = a.slice(i1, i2, m); auto s2(s); out = *s2; return s2.size(); }
    case 5: { auto s = ca.slice(i1, i2, m); auto s2(s); out = *s2; return s2.size(); }
    default: { auto s = a.slice(i1, i2, m); const_slice_t<T> s2(s); out = *s2; return s2.size(); }
    }
}
HX int h_slice_read(const double* x, int n, int kind, int i1, int i2, int m, double* y, double* xo) {
    H_TRY
    arr_real a = mk_real(x, n); const arr_real& ca = a; arr_real out;
    int c = read_kind<real_t>(a, ca, kind, i1, i2, m, out);
    if (out.size() != c) return -2;
    put_real(out, y); put_real(a, xo);
    return c;
    H_END
}
HX int h_slice_read_c(const double* x, int n, int kind, int i1, int i2, int m, double* y, double* xo) {
    H_TRY
    arr_cmplx a = mk_cmplx(x, n); const arr_cmplx& ca = a; arr_cmplx out;
    int c = read_kind<cmplx_t>(a, ca, kind, i1, i2, m, out);
    if (out.size() != c) return -2;
    put_cmplx(out, y); put_cmplx(a, xo);
    return c;
    H_END
}
HX int h_slice_read_end(const double* x, int n, int i1, int m, double* y, int cst) {   // x.slice(i1, end, m) on a mutable (cst 0) / const (cst 1) array
    H_TRY
    arr_real a = mk_real(x, n); const arr_real& ca = a;
    arr_real out = cst ? *ca.slice(i1, indexing::end, m) : *a.slice(i1, indexing::end, m);
    put_real(out, y);
    return out.size();
    H_END
}
// ---- (3) assignment. x in/out
HX int h_slice_fill(double* x, int n, int i1, int i2, int m, double v) {
    H_TRY
    arr_real a = mk_real(x, n);
    a.slice(i1, i2, m) = v;
    put_real(a, x);
    return 0;
    H_END
}
HX int h_slice_fill_c(double* x, int n, int i1, int i2, int m, double vr, double vi) {
    H_TRY
    arr_cmplx a = mk_cmplx(x, n);
    a.slice(i1, i2, m) = cmplx_t{vr, vi};
    put_cmplx(a, x);
    return 0;
    H_END
}
HX int h_slice_assign_arr(double* x, int n, int i1, int i2, int m, const double* v, int nv) {
    H_TRY
    arr_real a = mk_real(x, n); arr_real b = mk_real(v, nv);
    a.slice(i1, i2, m) = b;
    put_real(a, x);
    return 0;
    H_END
}
// initializer lists have compile-time length: one wrapper body per length 0..4.  guard[] cells around the array storage are not
// available from C++, so the harness reports the array only; out-of-range writes are caught by the engine's bounds obligations.
HX int h_slice_assign_list(double* x, int n, int i1, int i2, int m, const double* v, int nv) {
    H_TRY
    arr_real a = mk_real(x, n);
    switch (nv) {
    case 0: a.slice(i1, i2, m) = std::initializer_list<real_t>{}; break;
    case 1: a.slice(i1, i2, m) = {v[0]}; break;
    case 2: a.slice(i1, i2, m) = {v[0], v[1]}; break;
    case 3: a.slice(i1, i2, m) = {v[0], v[1], v[2]}; break;
    default: a.slice(i1, i2, m) = {v[0], v[1], v[2], v[3]}; break;
    }
    put_real(a, x);
    return 0;
    H_END
}
HX int h_slice_assign_other(double* x, int n, int i1, int i2, int m, const double* y, int ny, int j1, int j2, int k, int constsrc) {
    H_TRY
    arr_real a = mk_real(x, n); arr_real b = mk_real(y, ny); const arr_real& cb = b;
    if (constsrc) a.slice(i1, i2, m) = cb.slice(j1, j2, k);
    else a.slice(i1, i2, m) = b.slice(j1, j2, k);
    put_real(a, x);
    return 0;
    H_END
}
HX int h_slice_assign_same(double* x, int n, int i1, int i2, int m, int j1, int j2, int k) {
    H_TRY
    arr_real a = mk_real(x, n);
    a.slice(i1, i2, m) = a.slice(j1, j2, k);
    put_real(a, x);
    return 0;
    H_END
}
HX int h_slice_assign_same_c(double* x, int n, int i1, int i2, int m, int j1, int j2, int k) {
    H_TRY
    arr_cmplx a = mk_cmplx(x, n);
    a.slice(i1, i2, m) = a.slice(j1, j2, k);
    put_cmplx(a, x);
    return 0;
    H_END
}
