#include "hcommon.h"
#include <complex>
// Every operator x operand-type pairing of array.h / types.h.  Arrays come in as double buffers (complex = interleaved re,im).
// out: result ; ao / bo: operands after the operation (value semantics / "left unchanged" clauses).
static int put(const arr_real& r, double* o) { put_real(r, o); return r.size(); }
static int put(const arr_cmplx& r, double* o) { put_cmplx(r, o); return r.size(); }
template<class A, class B> static int bin(int op, const A& a, const B& b, double* out) {
    switch (op) {
    case 0: return put(a + b, out);
    case 1: return put(a - b, out);
    case 2: return put(a * b, out);
    default: return put(a / b, out);
    }
}
template<class A, class B> static int cmp(int op, A& a, const B& b, double* out) {
    switch (op) {
    case 0: a += b; break;
    case 1: a -= b; break;
    case 2: a *= b; break;
    default: a /= b; break;
    }
    return put(a, out);
}
// form table (see props/c03.py FORMS)
HX int h_arith(int form, int op, const double* A, int na, const double* B, int nb, double sre, double sim, int sint, double* out, double* ao, double* bo) {
    arr_real ar, br; arr_cmplx ac, bc; int r = -3;
    try {
        const std::complex<double> sz(sre, sim); const cmplx_t sc{sre, sim};
        switch (form) {
        case 0: ar = mk_real(A, na); br = mk_real(B, nb); r = bin(op, ar, br, out); break;
        case 1: ar = mk_real(A, na); bc = mk_cmplx(B, nb); r = bin(op, ar, bc, out); break;
        case 2: ac = mk_cmplx(A, na); br = mk_real(B, nb); r = bin(op, ac, br, out); break;
        case 3: ac = mk_cmplx(A, na); bc = mk_cmplx(B, nb); r = bin(op, ac, bc, out); break;
        case 4: ar = mk_real(A, na); r = bin(op, ar, sre, out); break;
        case 5: ar = mk_real(A, na); r = bin(op, ar, sint, out); break;
        case 6: ar = mk_real(A, na); r = bin(op, ar, sc, out); break;
        case 8: ac = mk_cmplx(A, na); r = bin(op, ac, sre, out); break;
        case 9: ac = mk_cmplx(A, na); r = bin(op, ac, sint, out); break;
        case 10: ac = mk_cmplx(A, na); r = bin(op, ac, sc, out); break;
        case 11: ac = mk_cmplx(A, na); r = bin(op, ac, sz, out); break;
        case 12: ar = mk_real(A, na); r = bin(op, sre, ar, out); break;
        case 13: ar = mk_real(A, na); r = bin(op, sint, ar, out); break;
        case 14: ar = mk_real(A, na); r = bin(op, sc, ar, out); break;
        case 16: ac = mk_cmplx(A, na); r = bin(op, sre, ac, out); break;
        case 17: ac = mk_cmplx(A, na); r = bin(op, sint, ac, out); break;
        case 18: ac = mk_cmplx(A, na); r = bin(op, sc, ac, out); break;
        case 20: ar = mk_real(A, na); br = mk_real(B, nb); r = cmp(op, ar, br, out); break;
        case 21: ac = mk_cmplx(A, na); br = mk_real(B, nb); r = cmp(op, ac, br, out); break;
        case 22: ac = mk_cmplx(A, na); bc = mk_cmplx(B, nb); r = cmp(op, ac, bc, out); break;
        case 23: ar = mk_real(A, na); r = cmp(op, ar, sre, out); break;
        case 24: ar = mk_real(A, na); r = cmp(op, ar, sint, out); break;
        case 25: ac = mk_cmplx(A, na); r = cmp(op, ac, sre, out); break;
        case 26: ac = mk_cmplx(A, na); r = cmp(op, ac, sint, out); break;
        case 27: ac = mk_cmplx(A, na); r = cmp(op, ac, sc, out); break;
        case 28: ac = mk_cmplx(A, na); r = cmp(op, ac, sz, out); break;
        case 29: ar = mk_real(A, na); r = put(-ar, out); break;
        case 30: ac = mk_cmplx(A, na); r = put(-ac, out); break;
        case 31: ar = mk_real(A, na); r = put(+ar, out); break;
        case 32: ar = mk_real(A, na); r = cmp(op, ar, ar, out); break;          // a op= a
        case 33: ac = mk_cmplx(A, na); r = cmp(op, ac, ac, out); break;
        case 34: ar = mk_real(A, na); r = cmp(op, ar, ar[0], out); break;       // a op= a[0]   (scalar operand aliases an element)
        case 35: ac = mk_cmplx(A, na); r = cmp(op, ac, ac[0], out); break;
        default: return -4;
        }
    } catch (const std::exception&) { r = H_THROW; }
    put(ar, ao); put(ac, ao); put(br, bo); put(bc, bo);
    return r;
}
// ---- value semantics: copies are independent
HX int h_copy_indep(const double* A, int n, int idx, double v, double* orig, double* copy) {
    H_TRY
    arr_real a = mk_real(A, n); arr_real b(a); arr_real c; c = a;
    b[idx] = v; c[idx] = v + 1;
    put_real(a, orig); put_real(b, copy);
    return (c[idx] == v + 1) ? n : -2;
    H_END
}
HX int h_copy_indep_c(const double* A, int n, int idx, double v, double* orig, double* copy) {
    H_TRY
    arr_cmplx a = mk_cmplx(A, n); arr_cmplx b(a);
    a[idx] = cmplx_t{v, -v};
    put_cmplx(a, orig); put_cmplx(b, copy);
    return n;
    H_END
}
// ---- concatenation: kind 0: a | b ; 1: a |= b ; 2: a |= a ; 3: concatenate(a, b, a) ; 4: real | cmplx ; 5: concatenate(a, b)
HX int h_concat(int kind, const double* A, int na, const double* B, int nb, double* out) {
    H_TRY
    arr_real a = mk_real(A, na), b = mk_real(B, nb);
    switch (kind) {
    case 0: return put(a | b, out);
    case 1: a |= b; return put(a, out);
    case 2: a |= a; return put(a, out);
    case 3: return put(concatenate(a, b, a), out);
    case 4: { arr_cmplx bc = mk_cmplx(B, nb / 2); return put(a | bc, out); }
    default: return put(concatenate(a, b), out);
    }
    H_END
}
// ---- selection by boolean mask (bits in mask[]) and by index list
HX int h_mask(const double* A, int n, const int* mask, int nm, double* out) {
    H_TRY
    arr_real a = mk_real(A, n); std::vector<bool> m(nm);
    for (int i = 0; i < nm; ++i) m[i] = mask[i] != 0;
    return put(a[m], out);
    H_END
}
HX int h_index(const double* A, int n, const int* idx, int ni, int asarr, double* out) {
    H_TRY
    arr_real a = mk_real(A, n); std::vector<int> v(idx, idx + ni);
    if (asarr) return put(a[arr_int(v)], out);
    return put(a[v], out);
    H_END
}
HX int h_index_c(const double* A, int n, const int* idx, int ni, double* out) {
    H_TRY
    arr_cmplx a = mk_cmplx(A, n); std::vector<int> v(idx, idx + ni);
    return put(a[v], out);
    H_END
}
