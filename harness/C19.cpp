#include "hcommon.h"
HX void h_rng(int seed) { rng(seed); }
// generators: k 0 rand(n) 1 randn(n) 2 randi({lo,hi}, n) 3 rand() scalar x n 4 randn() scalar x n 5 randi(hi) scalar x n 6 rand({lo,hi}, n)
HX int h_gen(int k, int n, int lo, int hi, double* y) {
    H_TRY
    switch (k) {
    case 0: { arr_real r = dsplib::rand(n); put_real(r, y); return r.size(); }
    case 1: { arr_real r = randn(n); put_real(r, y); return r.size(); }
    case 2: { arr_int r = randi({lo, hi}, n); for (int i = 0; i < n; ++i) y[i] = r[i]; return r.size(); }
    case 3: { for (int i = 0; i < n; ++i) y[i] = dsplib::rand(); return n; }
    case 4: { for (int i = 0; i < n; ++i) y[i] = randn(); return n; }
    case 5: { for (int i = 0; i < n; ++i) y[i] = randi(hi); return n; }
    default: { arr_real r = dsplib::rand({(double)lo, (double)hi}, n); put_real(r, y); return r.size(); }
    }
    H_END
}
// native replay only: n draws after rng(seed), returns how many leave [lo, hi] (the solver's raw engine outputs cannot be forced onto the real mt19937, so the replay searches)
HX int h_randi_many(int lo, int hi, int n, int seed) { H_TRY rng(seed); int bad = 0; for (int i = 0; i < n; ++i) { const int v = randi({lo, hi}); if (v < lo || v > hi) ++bad; } return bad; H_END }
HX int h_randi1(int lo, int hi) { H_TRY return randi({lo, hi}); H_END }
HX int h_seed_gen(int seed, int k, int n, int lo, int hi, double* y) { rng(seed); return h_gen(k, n, lo, hi, y); }
HX int h_awgn_r(int seed, const double* x, int n, double snr, double* y) { H_TRY rng(seed); arr_real r = awgn(mk_real(x, n), snr); put_real(r, y); return r.size(); H_END }
HX int h_awgn_c(int seed, const double* x, int n, double snr, double* y) { H_TRY rng(seed); arr_cmplx r = awgn(mk_cmplx(x, n), snr); put_cmplx(r, y); return r.size(); H_END }
// measurement functions on c * x: k 0 snr 1 sinad 2 thd
HX double h_measure(int k, const double* x, int n, double c) {
    arr_real a = mk_real(x, n) * c;
    if (k == 0) return snr(a, 3);
    if (k == 1) return sinad(a);
    return thd(a, 3).value;
}
// rng(seed); draw (y1); interleaved other draws; rng(seed); draw again (y2) - all in one thread / process
HX int h_replay(int seed, int k, int n, int lo, int hi, double* y1, double* y2) {
    H_TRY double t[8]; rng(seed); h_gen(k, n, lo, hi, y1); h_gen((k + 1) % 7, 5, 1, 6, t); h_gen((k + 3) % 7, 3, 1, 6, t); rng(seed); return h_gen(k, n, lo, hi, y2); H_END
}

// thd with folded (aliased) harmonics: value in dB
HX double h_thd_aliased(const double* x, int n, int nharm) { return thd(mk_real(x, n), nharm, true).value; }
