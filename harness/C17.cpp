#include "hcommon.h"
HX int h_arange_i(int start, int stop, int step, double* y, int cap) { H_TRY arr_real r = arange(start, stop, step); for (int i = 0; i < r.size() && i < cap; ++i) y[i] = r[i]; return r.size(); H_END }
HX int h_arange_f(double start, double stop, double step, double* y, int cap) { H_TRY arr_real r = arange(start, stop, step); for (int i = 0; i < r.size() && i < cap; ++i) y[i] = r[i]; return r.size(); H_END }
HX int h_linspace(double a, double b, int n, double* y) { H_TRY arr_real r = linspace(a, b, (size_t)n); put_real(r, y); return r.size(); H_END }
// shape functions: k 0 upsample 1 downsample 2 zeropad 3 delayseq 4 flip 5 repelem 6 downsample(upsample) 7 cmplx upsample 8 cmplx delayseq 9 cmplx flip
HX int h_shape(int k, const double* x, int n, int p1, int p2, double* y) {
    H_TRY
    switch (k) {
    case 0: { arr_real r = upsample(mk_real(x, n), p1, p2); put_real(r, y); return r.size(); }
    case 1: { arr_real r = downsample(mk_real(x, n), p1, p2); put_real(r, y); return r.size(); }
    case 2: { arr_real r = zeropad(mk_real(x, n), p1); put_real(r, y); return r.size(); }
    case 3: { arr_real r = delayseq(mk_real(x, n), p1); put_real(r, y); return r.size(); }
    case 4: { arr_real r = flip(mk_real(x, n)); put_real(r, y); return r.size(); }
    case 5: { arr_real r = repelem(mk_real(x, n), p1); put_real(r, y); return r.size(); }
    case 6: { arr_real r = downsample(upsample(mk_real(x, n), p1, p2), p1, p2); put_real(r, y); return r.size(); }
    case 7: { arr_cmplx r = upsample(mk_cmplx(x, n), p1, p2); put_cmplx(r, y); return r.size(); }
    case 8: { arr_cmplx r = delayseq(mk_cmplx(x, n), p1); put_cmplx(r, y); return r.size(); }
    default: { arr_cmplx r = flip(mk_cmplx(x, n)); put_cmplx(r, y); return r.size(); }
    }
    H_END
}
// reductions on real arrays: k 0 sum 1 mean 2 rms 3 stddev 4 norm1 5 norm2 6 dot(x, x2) 7 max 8 min 9 argmax 10 argmin 11 peak2peak 12 cumsum (array out) 13 abs2 (array) 14 abs (array) 15 round (array)
HX int h_reduce(int k, const double* x, int n, double* y) {
    H_TRY
    arr_real a = mk_real(x, n);
    switch (k) {
    case 0: y[0] = sum(a); return 1;
    case 1: y[0] = mean(a); return 1;
    case 2: y[0] = rms(a); return 1;
    case 3: y[0] = stddev(a); return 1;
    case 4: y[0] = norm(a, 1); return 1;
    case 5: y[0] = norm(a, 2); return 1;
    case 6: y[0] = dot(a, mk_real(x + n, n)); return 1;
    case 7: y[0] = max(a); return 1;
    case 8: y[0] = min(a); return 1;
    case 9: return argmax(a);
    case 10: return argmin(a);
    case 11: y[0] = peak2peak(a); return 1;
    case 12: { arr_real r = cumsum(a); put_real(r, y); return r.size(); }
    case 13: { arr_real r = abs2(a); put_real(r, y); return r.size(); }
    case 14: { arr_real r = abs(a); put_real(r, y); return r.size(); }
    default: { arr_real r = round(a); put_real(r, y); return r.size(); }
    }
    H_END
}
// complex: k 0 sum 1 mean 2 rms 3 abs2 (array) 4 real 5 imag 6 conj 7 complex(real(x), imag(x)) 8 dot(x, x2) 9 norm2 10 abs (array)
HX int h_reduce_c(int k, const double* x, int n, double* y) {
    H_TRY
    arr_cmplx a = mk_cmplx(x, n);
    switch (k) {
    case 0: { cmplx_t s = sum(a); y[0] = s.re; y[1] = s.im; return 1; }
    case 1: { cmplx_t s = mean(a); y[0] = s.re; y[1] = s.im; return 1; }
    case 2: y[0] = rms(a); return 1;
    case 3: { arr_real r = abs2(a); put_real(r, y); return r.size(); }
    case 4: { arr_real r = real(a); put_real(r, y); return r.size(); }
    case 5: { arr_real r = imag(a); put_real(r, y); return r.size(); }
    case 6: { arr_cmplx r = conj(a); put_cmplx(r, y); return r.size(); }
    case 7: { arr_cmplx r = complex(real(a), imag(a)); put_cmplx(r, y); return r.size(); }
    case 8: { cmplx_t s = dot(a, mk_cmplx(x + 2 * n, n)); y[0] = s.re; y[1] = s.im; return 1; }
    case 9: y[0] = norm(a, 2); return 1;
    default: { arr_real r = abs(a); put_real(r, y); return r.size(); }
    }
    H_END
}
HX double h_angle(double re, double im) { return angle(cmplx_t{re, im}); }
