#include "hcommon.h"
HX int h_arange_i(int start, int stop, int step, double* y, int cap) { H_TRY arr_real r = arange(start, stop, step); for (int i = 0; i < r.size() && i < cap; ++i) y[i] = r[i]; return r.size(); H_END }
HX int h_arange_f(double start, double stop, double step, double* y, int cap) { H_TRY arr_real r = arange(start, stop, step); for (int i = 0; i < r.size() && i < cap; ++i) y[i] = r[i]; return r.size(); H_END }
HX int h_linspace(double a, double b, int n, double* y) { H_TRY arr_real r = linspace(a, b, (size_t)n); put_real(r, y); return r.size(); H_END }
// shape functions: k 0 upsample 1 downsample 2 zeropad 3 delayseq 4 flip 5 repelem 6 downsample(upsample) 7 cmplx upsample 8 cmplx delayseq 9 cmplx flip
HX int h_shape(int k, const double* x, int n, int p1, int p2, double* y) {
    H_TRY
    switch (k) {
    case 0: { arr_real r = upsample(mk_real(x, n), p1, p2); put_real(r, y); return r.size(); }
    case 1: { arr_real r = downsample(mk_real(x, n), p1, p2); put_real(r, y); return r.size(); }
    case 2: { arr_real r = zeropad(mk_real(x, n), p1); put_real(r, y); return r.size(); }
    case 3: { arr_real r = delayseq(mk_real(x, n), p1); put_real(r, y); return r.size(); }
    case 4: { arr_real r = flip(mk_real(x, n)); put_real(r, y); return r.size(); }
    case 5: { arr_real r = repelem(mk_real(x, n), p1); put_real(r, y); return r.size(); }
    case 6: { arr_real r = downsample(upsample(mk_real(x, n), p1, p2), p1, p2); put_real(r, y); return r.size(); }
    case 7: { arr_cmplx r = upsample(mk_cmplx(x, n), p1, p2); put_cmplx(r, y); return r.size(); }
    case 8: { arr_cmplx r = delayseq(mk_cmplx(x, n), p1); put_cmplx(r, y); return r.size(); }
    default: { arr_cmplx r = flip(mk_cmplx(x, n)); put_cmplx(r, y); return r.size(); }
    }
    H_END
}
// reductions on real arrays: k 0 sum 1 mean 2 rms 3 stddev 4 norm1 5 norm2 6 dot(x, x2) 7 max 8 min 9 argmax 10 argmin 11 peak2peak 12 cumsum (array out) 13 abs2 (array) 14 abs (array) 15 round (array)
HX int h_reduce(int k, const double* x, int n, double* y) {
    H_TRY
    arr_real a = mk_real(x, n);
    switch (k) {
    case 0: y[0] = sum(a); return 1;
    case 1: y[0] = mean(a); return 1;
    case 2: y[0] = rms(a); return 1;
    case 3: y[0] = stddev(a); return 1;
    case 4: y[0] = norm(a, 1); return 1;
    case 5: y[0] = norm(a, 2); return 1;
    case 6: y[0] = dot(a, mk_real(x + n, n)); return 1;
    case 7: y[0] = max(a); return 1;
    case 8: y[0] = min(a); return 1;
    case 9: return argmax(a);
    case 10: return argmin(a);
    case 11: y[0] = peak2peak(a); return 1;
    case 12: { arr_real r = cumsum(a); put_real(r, y); return r.size(); }
    case 13: { arr_real r = abs2(a); put_real(r, y); return r.size(); }
    case 14: { arr_real r = abs(a); put_real(r, y); return r.size(); }
    case 16: { arr_real r = cumsum(a, Direction::Reverse); put_real(r, y); return r.size(); }
    default: { arr_real r = round(a); put_real(r, y); return r.size(); }
    }
    H_END
}
// complex: k 0 sum 1 mean 2 rms 3 abs2 (array) 4 real 5 imag 6 conj 7 complex(real(x), imag(x)) 8 dot(x, x2) 9 norm2 10 abs (array)
HX int h_reduce_c(int k, const double* x, int n, double* y) {
    H_TRY
    arr_cmplx a = mk_cmplx(x, n);
    switch (k) {
    case 0: { cmplx_t s = sum(a); y[0] = s.re; y[1] = s.im; return 1; }
    case 1: { cmplx_t s = mean(a); y[0] = s.re; y[1] = s.im; return 1; }
    case 2: y[0] = rms(a); return 1;
    case 3: { arr_real r = abs2(a); put_real(r, y); return r.size(); }
    case 4: { arr_real r = real(a); put_real(r, y); return r.size(); }
    case 5: { arr_real r = imag(a); put_real(r, y); return r.size(); }
    case 6: { arr_cmplx r = conj(a); put_cmplx(r, y); return r.size(); }
    case 7: { arr_cmplx r = complex(real(a), imag(a)); put_cmplx(r, y); return r.size(); }
    case 8: { cmplx_t s = dot(a, mk_cmplx(x + 2 * n, n)); y[0] = s.re; y[1] = s.im; return 1; }
    case 9: y[0] = norm(a, 2); return 1;
    case 11: { arr_cmplx r = cumsum(a); put_cmplx(r, y); return r.size(); }
    case 12: { arr_cmplx r = cumsum(a, Direction::Reverse); put_cmplx(r, y); return r.size(); }
    default: { arr_real r = abs(a); put_real(r, y); return r.size(); }
    }
    H_END
}
HX double h_angle(double re, double im) { return angle(cmplx_t{re, im}); }

// every power overload on the element (re, im) / re with exponent nr / ni; array overloads get [x, x2] (x2 fixed) and [nr, 1.5]; out: up to 2 complex results
// kind 0 power(real, real) 1 power(cmplx, real) 2 power(real, int) 3 power(cmplx, int) 4 power(arr_real, real) 5 power(arr_cmplx, real) 6 power(cmplx, arr_real)
//      7 power(real, arr_real) 8 power(arr_real, arr_real) 9 power(arr_cmplx, arr_real) 10 power(arr_real, int) 11 power(arr_cmplx, int) 12 pow(real, real)
HX int h_power(int kind, double re, double im, double nr, int ni, double* out) {
    H_TRY
    const cmplx_t z{re, im}; const cmplx_t z2{1.25, -0.5};
    const arr_real xr = {re, 1.25}; const arr_cmplx xc = {z, z2}; const arr_real nn = {nr, 1.5};
    auto pr = [&](const arr_real& r) { for (int i = 0; i < r.size(); ++i) { out[2 * i] = r[i]; out[2 * i + 1] = 0; } return r.size(); };
    auto pc = [&](const arr_cmplx& r) { for (int i = 0; i < r.size(); ++i) { out[2 * i] = r[i].re; out[2 * i + 1] = r[i].im; } return r.size(); };
    switch (kind) {
    case 0: out[0] = power(re, nr); out[1] = 0; return 1;
    case 1: { cmplx_t r = power(z, nr); out[0] = r.re; out[1] = r.im; return 1; }
    case 2: out[0] = power(re, ni); out[1] = 0; return 1;
    case 3: { cmplx_t r = power(z, ni); out[0] = r.re; out[1] = r.im; return 1; }
    case 4: return pr(power(xr, nr));
    case 5: return pc(power(xc, nr));
    case 6: return pc(power(z, nn));
    case 7: return pr(power(re, nn));
    case 8: return pr(power(xr, nn));
    case 9: return pc(power(xc, nn));
    case 10: return pr(power(xr, ni));
    case 11: return pc(power(xc, ni));
    default: out[0] = pow(re, nr); out[1] = 0; return 1;
    }
    H_END
}

// round: kind 0 round(real) 1 round(cmplx) 2 round(arr_real)[0] 3 round(arr_cmplx)[0]
HX int h_round(int kind, double re, double im, double* out) {
    H_TRY
    switch (kind) {
    case 0: out[0] = dsplib::round(real_t(re)); out[1] = 0; return 1;
    case 1: { cmplx_t r = dsplib::round(cmplx_t{re, im}); out[0] = r.re; out[1] = r.im; return 1; }
    case 2: { arr_real a = {re, 1.5}; arr_real r = round(a); out[0] = r[0]; out[1] = 0; return r.size(); }
    default: { arr_cmplx a = {cmplx_t{re, im}, cmplx_t{0.5, -0.5}}; arr_cmplx r = round(a); out[0] = r[0].re; out[1] = r[0].im; return r.size(); }
    }
    H_END
}

// norm(x, p) for a general p (real / complex data)
HX double h_normp(int cplx, int p, const double* x, int n) { return cplx ? norm(mk_cmplx(x, n), p) : norm(mk_real(x, n), p); }
