#include "hcommon.h"
// ftype 0 low 1 high 2 bandpass 3 bandstop; custom window when nw > 0
HX int h_fir1(int n, double w1, double w2, int ftype, const double* win, int nw, double* h, int cap) {
    H_TRY
    arr_real r;
    FilterType ft = ftype == 0 ? FilterType::Low : ftype == 1 ? FilterType::High : ftype == 2 ? FilterType::Bandpass : FilterType::Bandstop;
    if (ftype < 2) r = nw > 0 ? fir1(n, w1, ft, mk_real(win, nw)) : fir1(n, w1, ft);
    else r = nw > 0 ? fir1(n, w1, w2, ft, mk_real(win, nw)) : fir1(n, w1, w2, ft);
    for (int i = 0; i < r.size() && i < cap; ++i) h[i] = r[i];
    return r.size();
    H_END
}
// kind 0 hann 1 hamming 2 blackman 3 blackmanharris 4 gauss(p) 5 cosine 6 tukey(p) 7 kaiser(p)
HX int h_window(int kind, int n, int sym, double p, double* w) {
    H_TRY
    arr_real r;
    switch (kind) {
    case 0: r = window::hann(n, sym != 0); break;
    case 1: r = window::hamming(n, sym != 0); break;
    case 2: r = window::blackman(n, sym != 0); break;
    case 3: r = window::blackmanharris(n, sym != 0); break;
    case 4: r = window::gauss(n, p, sym != 0); break;
    case 5: r = window::cosine(n, sym != 0); break;
    case 6: r = window::tukey(n, p); break;
    default: r = window::kaiser(n, p); break;
    }
    put_real(r, w); return r.size();
    H_END
}
