#include "hcommon.h"
#include "ma-filter.h"
// FirFilter from rest; frames n1 + n2 (n2 may be 0 = single call)
HX int h_fir_r(const double* h, int nh, const double* x, int n1, int n2, double* y) {
    H_TRY FirFilterR f(mk_real(h, nh)); arr_real r1 = f(mk_real(x, n1)); put_real(r1, y); int n = r1.size();
    if (n2 > 0) { arr_real r2 = f(mk_real(x + n1, n2)); put_real(r2, y + n); n += r2.size(); } return n; H_END
}
HX int h_fir_c(const double* h, int nh, const double* x, int n1, int n2, double* y) {
    H_TRY FirFilterC f(mk_cmplx(h, nh)); arr_cmplx r1 = f(mk_cmplx(x, n1)); put_cmplx(r1, y); int n = r1.size();
    if (n2 > 0) { arr_cmplx r2 = f(mk_cmplx(x + 2 * n1, n2)); put_cmplx(r2, y + 2 * n); n += r2.size(); } return n; H_END
}
HX int h_fftfir_r(const double* h, int nh, const double* x, int n1, int n2, double* y, int* blk) {
    H_TRY FftFilter f(mk_real(h, nh)); blk[0] = f.block_size(); arr_real r1 = f(mk_real(x, n1)); put_real(r1, y); int n = r1.size();
    if (n2 > 0) { arr_real r2 = f(mk_real(x + n1, n2)); put_real(r2, y + n); n += r2.size(); } return n; H_END
}
HX int h_fftfir_c(const double* h, int nh, const double* x, int n1, int n2, double* y, int* blk) {
    H_TRY FftFilter f(mk_cmplx(h, nh)); blk[0] = f.block_size(); arr_cmplx r1 = f(mk_cmplx(x, n1)); put_cmplx(r1, y); int n = r1.size();
    if (n2 > 0) { arr_cmplx r2 = f(mk_cmplx(x + 2 * n1, n2)); put_cmplx(r2, y + 2 * n); n += r2.size(); } return n; H_END
}
HX int h_xcorr_r(const double* a, int n1, const double* b, int n2, double* y) { H_TRY arr_real r = xcorr(mk_real(a, n1), mk_real(b, n2)); put_real(r, y); return r.size(); H_END }
HX int h_xcorr_c(const double* a, int n1, const double* b, int n2, double* y) { H_TRY arr_cmplx r = xcorr(mk_cmplx(a, n1), mk_cmplx(b, n2)); put_cmplx(r, y); return r.size(); H_END }
HX int h_xcorr_auto_r(const double* a, int n1, double* y) { H_TRY arr_real r = xcorr(mk_real(a, n1)); put_real(r, y); return r.size(); H_END }
HX int h_xcorr_auto_c(const double* a, int n1, double* y) { H_TRY arr_cmplx r = xcorr(mk_cmplx(a, n1)); put_cmplx(r, y); return r.size(); H_END }
HX int h_ma_r(int n, const double* x, int n1, int n2, double* y) {
    H_TRY MAFilterR f(n); arr_real r1 = f(mk_real(x, n1)); put_real(r1, y); int k = r1.size();
    for (int i = 0; i < n2; ++i) { y[k++] = f(x[n1 + i]); } return k; H_END
}
HX int h_ma_c(int n, const double* x, int n1, double* y) { H_TRY MAFilterC f(n); arr_cmplx r = f(mk_cmplx(x, n1)); put_cmplx(r, y); return r.size(); H_END }
