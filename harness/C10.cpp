#include "hcommon.h"
namespace dsplib { std::vector<int> verif_fft_cache_keys(bool real_cache); int verif_fft_cache_capacity(); }
// one transform of kind k (0 fft complex, 1 fft real, 2 ifft, 3 irfft (even n; X = rfft of the real input)) and length n on the first n samples of x; result -> y (2n doubles)
static int one(int k, int n, const double* x, double* y) {
    switch (k) {
    case 0: { arr_cmplx r = fft(mk_cmplx(x, n)); put_cmplx(r, y); return r.size(); }
    case 1: { arr_cmplx r = fft(mk_real(x, n)); put_cmplx(r, y); return r.size(); }
    case 2: { arr_cmplx r = ifft(mk_cmplx(x, n)); put_cmplx(r, y); return r.size(); }
    case 3: { arr_real r = irfft(mk_cmplx(x, n), n); put_real(r, y); return r.size(); }
    // zero-padded transforms of a shorter input to length n: two different input lengths per n
    case 4: { arr_cmplx r = fft(mk_cmplx(x, n > 2 ? n - 2 : 1), n); put_cmplx(r, y); return r.size(); }
    case 5: { arr_cmplx r = fft(mk_cmplx(x, n > 1 ? n / 2 : 1), n); put_cmplx(r, y); return r.size(); }
    case 6: { arr_cmplx r = fft(mk_real(x, n > 2 ? n - 2 : 1), n); put_cmplx(r, y); return r.size(); }
    default: { arr_cmplx r = fft(mk_real(x, n > 1 ? n / 2 : 1), n); put_cmplx(r, y); return r.size(); }
    }
}
// request history: kinds[i], lens[i] for i < m; the result of request i is left in y[i*ystride ..).  keys: after every request, the complex cache keys (MRU first) in
// keys[i*2*cap .. +cap) and the real cache keys in the following cap ints, unused slots -1.
HX int h_history(const int* kinds, const int* lens, int m, const double* x, double* y, int* keys, int cap, int ystride) {
    H_TRY
    int r = 0;
    for (int i = 0; i < m; ++i) {
        r = one(kinds[i], lens[i], x, y + i * ystride);
        for (int c = 0; c < 2; ++c) {
            auto k = verif_fft_cache_keys(c == 1);
            for (int j = 0; j < cap; ++j) keys[(2 * i + c) * cap + j] = j < (int)k.size() ? k[j] : -1;
            if ((int)k.size() > cap) return -5;
        }
    }
    return r;
    H_END
}
// plan objects taken first, then the history, then the early plans are used: pk = 0 FftPlan, 1 FftPlanR, 2 IfftPlan, 3 IfftPlanR
HX int h_plan_then_history(int pk, int pn, const int* kinds, const int* lens, int m, const double* x, double* y) {
    H_TRY
    std::shared_ptr<FftPlan> p0; std::shared_ptr<FftPlanR> p1; std::shared_ptr<IfftPlan> p2; std::shared_ptr<IfftPlanR> p3;
    if (pk == 0) p0 = std::make_shared<FftPlan>(pn); else if (pk == 1) p1 = std::make_shared<FftPlanR>(pn); else if (pk == 2) p2 = std::make_shared<IfftPlan>(pn); else p3 = std::make_shared<IfftPlanR>(pn);
    std::vector<double> tmp(4 * 64 + 8);
    for (int i = 0; i < m; ++i) one(kinds[i], lens[i], x, tmp.data());
    if (pk == 0) { arr_cmplx r = (*p0)(mk_cmplx(x, pn)); put_cmplx(r, y); return r.size(); }
    if (pk == 1) { arr_cmplx r = (*p1)(mk_real(x, pn)); put_cmplx(r, y); return r.size(); }
    if (pk == 2) { arr_cmplx r = (*p2)(mk_cmplx(x, pn)); put_cmplx(r, y); return r.size(); }
    arr_real r = (*p3)(mk_cmplx(x, pn)); put_real(r, y); return r.size();
    H_END
}
// a rejected request (exception) followed by an accepted one: the second result must not depend on the first
HX int h_after_reject(int k0, int n0, int k1, int n1, const double* x, double* y) {
    try { std::vector<double> tmp(4 * 64 + 8); one(k0, n0, x, tmp.data()); } catch (...) {}
    H_TRY return one(k1, n1, x, y); H_END
}
HX int h_capacity() { return verif_fft_cache_capacity(); }
