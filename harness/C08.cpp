#include "C06.cpp"
// converters are reached through make() of the C06 harness (kinds 4..7); here: frame-length rejection, the resample() function and the design helper
// n2 packs two further frame lengths: n2 = f2 + 4096 * f3
HX int h_conv(int kind, const int* ip, const double* c, int nc, const double* x, int n1, int n2, double* y) {
    H_TRY auto A = make(kind, ip, nullptr, c, nc); if (!A) return -3; int f2 = n2 % 4096, f3 = n2 / 4096;
    int k = A->run(x, n1, y); if (f2 > 0) k += A->run(x + n1, f2, y + k); if (f3 > 0) k += A->run(x + n1 + f2, f3, y + k); return k; H_END
}
HX int h_resample(const double* x, int nx, int p, int q, double* y) { H_TRY arr_real r = resample(mk_real(x, nx), p, q); put_real(r, y); return r.size(); H_END }
HX int h_resample_h(const double* x, int nx, int p, int q, const double* h, int nh, double* y) { H_TRY arr_real r = resample(mk_real(x, nx), p, q, mk_real(h, nh)); put_real(r, y); return r.size(); H_END }
HX int h_design(int L, int M, double* h, int cap) { H_TRY arr_real r = design_multirate_fir(L, M); for (int i = 0; i < r.size() && i < cap; ++i) h[i] = r[i]; return r.size(); H_END }
