#!/usr/bin/env python3
"""import_seed.py <ID> <variant> "<needs>" : copy a verified seeded change from /tmp/mut into /verif/seeded/<ID>-<variant>/"""
import sys, os, json, shutil, re
ID, V, needs = sys.argv[1], sys.argv[2], sys.argv[3]
src = os.environ.get('MUT', '/tmp/mut') + f'/{ID}'; dst = f'/verif/seeded/{ID}-{V}'
os.makedirs(dst, exist_ok=True)
shutil.copy(f'{src}/patch_{V}.diff', f'{dst}/patch.diff'); shutil.copy(f'{src}/demo_{V}.cpp', f'{dst}/demo.cpp')
log = open(f'{src}/verify_{V}.log').read(); res = re.findall(r'^RESULT (.*)$', log, re.M)[-1]
files = sorted(set(re.findall(r'^\+\+\+ b/(.*)$', open(f'{dst}/patch.diff').read(), re.M)))
head = os.popen('git -C /repo rev-parse --short HEAD').read().strip()
meta = {'property': ID, 'variant': V, 'files': files, 'needs_to_manifest': needs, 'author': 'independent sub-agent given only the property text and a scratch worktree',
        'confirmed_by_me': {'against_repo_head': head, 'commands': [f'/verif/tools/verify_seed.sh {ID} {V}  (build pristine + run demo; apply patch; rebuild; run the 175-test suite; run demo)'], 'result': res},
        'detected_by': None}
json.dump(meta, open(f'{dst}/meta.json', 'w'), indent=1)
print(dst, res)
