#!/bin/bash
# usage: verify_seed.sh <ID> <variant>   (uses worktree /tmp/wt/<ID>, inputs /tmp/mut/<ID>/patch_<v>.diff + demo_<v>.cpp)
# confirms: patch applies to current /repo HEAD; suite passes with the patch; demo exits 0 without and !=0 with the patch.
ID=$1; V=$2; W=/tmp/wt/$ID; M=${MUT:-/tmp/mut}/$ID; L=$M/verify_$V.log
exec > $L 2>&1
set -x
git -C $W checkout -q -- . ; git -C $W checkout -q --detach main || exit 9
git -C $W apply --check $M/patch_$V.diff || { echo "RESULT patch-does-not-apply"; exit 1; }
/verif/tools/build_tree.sh $W | tail -1 | grep -q "PASSED  \] 175" || { echo "RESULT pristine-suite-fails"; exit 1; }
g++ -std=c++17 -O2 -DNDEBUG -I$W/include -I$W/_build $M/demo_$V.cpp $W/_build/libdsplib.a -lpthread -o $M/demo_${V}_orig || { echo "RESULT demo-build-fails"; exit 1; }
( cd $M && timeout 600 ./demo_${V}_orig >/dev/null 2>&1 ); O=$?
git -C $W apply $M/patch_$V.diff
/verif/tools/build_tree.sh $W > $M/suite_$V.txt 2>&1; tail -1 $M/suite_$V.txt | grep -q "PASSED  \] 175"; S=$?
g++ -std=c++17 -O2 -DNDEBUG -I$W/include -I$W/_build $M/demo_$V.cpp $W/_build/libdsplib.a -lpthread -o $M/demo_${V}_mut
( cd $M && timeout 600 ./demo_${V}_mut > $M/demo_${V}_mut.out 2>&1 ); D=$?
git -C $W checkout -q -- .
echo "RESULT orig_demo_exit=$O suite_with_patch_ok=$((1-S)) mutated_demo_exit=$D"
