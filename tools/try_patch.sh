#!/bin/bash
# usage: try_patch.sh <patch.diff> <Cxx> [tier]  : apply patch to /repo, run the check (evidence redirected to /tmp/seed_ev so the committed evidence of the unchanged tree is not overwritten), always revert
P=$(realpath $1); ID=$2; T=${3:-quick}
cd /repo || exit 2
git apply --check "$P" 2>/dev/null || { echo "PATCH DOES NOT APPLY: $P"; exit 2; }
git apply "$P"
cd /verif; VERIF_EVIDENCE_DIR=/tmp/seed_ev ./check $ID --tier $T 2>&1 | grep -E "^VIOLATION|^  what|^KNOWN|^INCONCLUSIVE|^BROKEN|^property=" | cut -c1-330 | head -12
rc=${PIPESTATUS[0]}
git -C /repo checkout -- . ; git -C /repo status --short | grep -v _build
exit $rc
