#!/usr/bin/env python3
"""seed_matrix.py [ID-V ...] : for each seeded change apply it to /repo, run the quick check of its property (evidence redirected to a scratch dir), undo it,
and record in seeded/<ID-V>/meta.json what was run and what it reported.  Never leaves /repo modified."""
import sys, os, json, subprocess, glob, time, re
V = '/verif'
seeds = sys.argv[1:] or sorted(os.path.basename(d) for d in glob.glob(V + '/seeded/C*-*'))
os.makedirs('/tmp/seed_ev', exist_ok=True)
for sd in seeds:
    d = f'{V}/seeded/{sd}'; meta = json.load(open(d + '/meta.json')); pid = meta['property']
    assert subprocess.run(['git', '-C', '/repo', 'status', '--porcelain', '--untracked-files=no'], capture_output=True, text=True).stdout.strip() == '', '/repo not clean'
    if subprocess.run(['git', '-C', '/repo', 'apply', '--check', d + '/patch.diff']).returncode != 0:
        print(sd, 'PATCH DOES NOT APPLY'); meta['detected_by'] = {'status': 'patch no longer applies to /repo HEAD (a later fix: commit touched the same lines)'}; json.dump(meta, open(d + '/meta.json', 'w'), indent=1); continue
    subprocess.run(['git', '-C', '/repo', 'apply', d + '/patch.diff'], check=True); t0 = time.time()
    try:
        r = subprocess.run(['./check', pid, '--tier', 'quick'], cwd=V, capture_output=True, text=True, env=dict(os.environ, VERIF_EVIDENCE_DIR='/tmp/seed_ev'), timeout=3600)
        out = r.stdout + r.stderr; rc = r.returncode
    except subprocess.TimeoutExpired: out = ''; rc = 'timeout'
    finally: subprocess.run(['git', '-C', '/repo', 'checkout', '--', '.'], check=True)
    whats = [l.strip()[6:] for l in out.splitlines() if l.startswith('  what:')]
    nviol = len([l for l in out.splitlines() if l.startswith('VIOLATION')])
    head = subprocess.run(['git', '-C', '/repo', 'rev-parse', '--short', 'HEAD'], capture_output=True, text=True).stdout.strip()
    meta['detected_by'] = {'check': f'./check {pid} --tier quick', 'repo_head': head, 'exit_code': rc, 'violation_lines': nviol, 'wall_s': round(time.time() - t0, 1),
                           'detected': bool(rc == 1 and nviol > 0), 'first_report': (whats[0][:400] if whats else None),
                           'how': 'git -C /repo apply seeded/%s/patch.diff; ./check %s --tier quick; git -C /repo checkout -- .' % (sd, pid)}
    json.dump(meta, open(d + '/meta.json', 'w'), indent=1)
    print(sd, 'rc', rc, 'violations', nviol, round(time.time() - t0), 's', (whats[0][:160] if whats else ''), flush=True)
