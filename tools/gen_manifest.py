#!/usr/bin/env python3
"""Regenerates /verif/MANIFEST.json from the table below (claimed checks = props/<id>.py exists and is listed in CLAIMED)."""
import json, os
V = os.path.dirname(os.path.dirname(os.path.abspath(__file__)))
TECH = 'symbolic execution of clang LLVM IR (own engine symir) + z3 SMT: unsat of negated property per path/size; counterexamples replayed natively'
CLAIMED = {
 'C15': dict(design='4/C15', text='Bounded symbolic check: argument is a 32-bit bit-vector; every feasible path of the compiled isprime (n<2^16), factor/primes/nextprime (small n), '
             'nextpow2/ispow2 (all positive int) is compared by z3 with the number-theoretic definition; the sqrt(n) loop guard is decided for all 32-bit (n,d) by one inductive step; isprime at ~30 adversarial values >= 2^16 (strong pseudoprimes, Carmichael numbers, semiprimes next to 2^16 / 2^32, largest 32-bit primes) through the interpreted code.',
             note='Trusts clang -O1 IR == shipped g++ build (differential self-test per run), symir, z3. Functional value for n >= 2^16 only through the guard step (loops of 6542 iterations not unrolled).'),
 'C04': dict(design='4/C04', text='Bounded symbolic check of the compiled slice code: slice triples (both triples for slice-to-slice assignment) are 32-bit bit-vectors over the whole int range, '
             'element values symbolic; per array length n <= 3 (quick) / 5 (thorough) every feasible path is decided by z3 against python slice semantics: throw-iff-stated, count, element identity, '
             'no other cell written, copy-first behaviour on overlap, copies of slice objects, the end placeholder on mutable and const arrays; loads/stores at symbolic offsets carry bounds obligations; UB findings are confirmed under ASan/UBSan.',
             note='Array length enumerated up to the bound (constructor index arithmetic checked for all n >= 0 except the count quotient); element values modelled as reals; trusts clang IR == g++ build (differential self-test), symir, z3.'),
 'C01': dict(design='4/C01', text='Per transform length (quick: every n in 1..42 plus 43, 48, 64; real/rfft/plan/pad-truncate/czt variants) the compiled code runs once with all samples symbolic; '
             'z3 QF_LRA certifies per output that the code is a fixed rational matrix for every input, and the exact Frobenius distance of that matrix to the 50-digit DFT / chirp-z matrix is '
             'within half of 32*n*eps*sqrt(n): the relative-l2 statement then holds for every input up to data-path rounding. Violations are replayed natively on the worst-case input direction. Long transforms (1221 = 33x37, 1024, real 1368; thorough up to 2310): one symbolic run shows linearity on a single path, the transfer matrix is then extracted in double arithmetic and compared with the DFT matrix. '
             'CztPlan constructor at n = 46349 (index products reach 2^31) executed through the IR up to its first FFT with every overflow / bounds obligation active.',
             note='REAL arithmetic for the data path (rounding outside the claim, twiddle/chirp table error inside); lengths above the bound not covered; czt accuracy stated relative to ||R||_F/sqrt(n).'),
 'C02': dict(design='4/C02', text='Same P-LIN certification for ifft / IfftPlan / ifft(fft(x)) (vs inverse DFT / identity, half of 64*n*eps), irfft in both input forms and irfft(rfft(x)) for every even n <= 48 (quick), '
             'odd n: the single path must end in a throw with all memory obligations met; istft(stft(x)) for every (window, overlap, nfft, range, method) tuple of the grid that the real iscola accepts: '
             'composite map certified linear, rows with non-zero accumulated weight equal unit rows, no output divides by a zero constant; the default-argument pair istft(stft(x, nfft), nfft); irfft(X, n) directly after a rejected odd-length request in the same thread.',
             note='REAL arithmetic; irfft input assumed to be the spectrum of a real signal (Im X0 = Im X_{n/2} = 0); non-zero weight means > 1e-6 of the maximum weight.'),
 'C03': dict(design='4/C03', text='Every operator x operand-type pairing that the headers support (33 forms x 4 operators; arrays of length 0,1,3 quick / up to 8 thorough) is executed with all '
             'element values and scalars symbolic (int scalar = 32-bit bit-vector); z3 decides per result element the rational identity with the field formula, operand storage is compared by term identity, '
             'mismatched lengths must end in a throw with operand storage unchanged at the throw point, aliasing forms a op= a and a op= a[0] included; concatenation (5 kinds), boolean-mask selection with '
             'symbolic mask bits (all 2^n paths) and index-list selection with symbolic in-range indices are decided exactly.',
             note='Field formulas over the reals (rounding / signed zeros outside; native replay tolerance 16 ulp of the result scale); lengths above the bound rely on loop uniformity; std::complex scalars only where the headers compile.'),
 'C06': dict(design='4/C06', text='Two separately constructed instances of each of 25 processor kinds run in one symbolic execution with all input samples symbolic: one gets the stream in one call, '
             'the other in up to three frames at every split point of the documented granularity, calls interleaved; outputs (and final adaptive coefficients) must be the same terms (bit-identical for every input) '
             'or equal over the reals under the path condition; processors with data-dependent branches (median, AGC, compressor, limiter, gate) are explored over every feasible path; LMS / NLMS / RLS also with the coefficients locked after two samples.',
             note='Streams of 3..16 granules, parameter grid listed in the evidence; libm calls uninterpreted; instance independence observed through the interleaved second instance.'),
 'C07': dict(design='4/C07', text='FirFilter real/complex: taps and input both symbolic, z3 decides the exact polynomial identity with sum_k conj(c[k]) x[i-k] per output; FftFilter: LRA-certified linear map in the '
             'input (concrete taps: random, single tap at either end, symmetric) and in the taps (concrete input), rows within 1/2*64*N*eps*|c|_1 of the defining sum, output count = whole blocks, data-dependent '
             'paths checked region-wise; xcorr: syntactic bilinearity + LRA-certified tensor slice per basis vector of b for all (n1,n2) <= 5 (10 thorough), all lags; MAFilter equals the n-tap 1/n FIR exactly.',
             note='REAL arithmetic (rounding of the data path outside the claim); sizes bounded as stated.'),
 'C16': dict(design='4/C16', text='All element values symbolic reals: every feasible comparison path through the compiled std::sort / MedianFilter insertion code (all weak orderings, ties included) is enumerated '
             'and z3 decides on each path: sort = ordered permutation with sorted[i] is x[idx[i]]; median / MedianFilter / medfilt = counting characterisation of the window median (symbolic initial history); '
             'Spearman / Kendall = O(n^2) definition for every pair of strict orderings (n <= 4 quick, 5 thorough); Pearson = polynomial identity of numerator and radicand; Spearman at n = 1861 (sum d^2 > 2^31) and Kendall at n = 300 on reversed / identical / interleaved orders through the interpreted IR with overflow obligations.',
             note='n <= 5 (6) for sort/median, orders 3-5(6) for the filters; values compared as reals (no NaN); Pearson range [-1,1] not decided.'),
 'C08': dict(design='4/C08', text='FIRDecimator / FIRInterpolator / FIRRateConverter / FIRResampler for every reduced L/M with L,M <= 4 (quick) / 8 (+ audio ratios, thorough), random symmetric taps and the default design: '
             'all input samples symbolic, z3 (QF_LRA) certifies the code as a fixed matrix which must equal - at one phase shared by one-call, two-call and three-call framings - the exact matrix of insert L-1 zeros / '
             'filter with h*L/sum(h) / keep every M-th; output count len*L/M; frames not a multiple of M end in a throw; resample(): length p\'*ceil(len/q\'), p = q returns the same terms, impulse-response centroid within one output sample of i*q/p; every input length 1..2q+1 (reduced q) for 7 (14) ratios returns the documented sample count; where control flow depends on the data every explored path must compute the same linear map as the path of a generic input.',
             note='REAL arithmetic; phase searched in [-|h|-LM, |h|+LM]; alignment judged by the energy centroid of impulse responses away from the edges; pass-band accuracy of the default design not decided.'),
 'C10': dict(design='4/C10', text='Request histories are enumerated (all 6^3 quick / 6^5 thorough sequences over lengths {5,6,9,10,12,16} for the complex and the real cache, prefixes covering shorter ones, plus random '
             'mixed fft/ifft/rfft/irfft histories of length 4..8), data symbolic: every result must be the same term as that single request in a fresh machine (bit-identical for every input); after every request '
             'the hook-reported keys of both caches must number at most DSPLIB_FFT_CACHE_SIZE and be exactly the most recently used plans per a reference LRU run on the observed create_fft_plan/create_rfft_plan calls '
             '(nested sub-plan requests included, completion order); plan objects taken before a history must return the same terms afterwards; eviction-and-re-creation histories (a length, five other lengths, the length again) for all four request kinds; a request that ends in an exception (irfft of odd length) followed by an accepted one.',
             note='History is enumerated, not symbolic; single modelled thread; cache size = build default (4). Needs the DSPLIB_VERIF hook (read-only key accessors).'),
 'C05': dict(design='4/C05', text='About 800 misuse-directed call programs over 57 public entry points (plan objects applied to inputs of length {0,1,2,3,n-1,n,n+1,2n}, unequal array lengths, empty and one-sample frames, '
             'degenerate orders, minimal analysis sizes, stft / istft / iscola overlaps around the window length, thd / snr / sinad with the spectral peak at every bin, transforms of empty arrays) run under the symbolic interpreter with every memory and arithmetic obligation on (bounds of live blocks, use-after-free, nsw/nuw overflow, shifts, division, '
             'fptosi range, llvm.assume = DSPLIB_ASSUME as shipped with NDEBUG, unreachable, step budget); index lists have fully symbolic 32-bit entries and z3 decides for every value whether an access can leave the array; '
             'nextpow2/ispow2 over all ints. Each finding is confirmed under an ASan+UBSan build (assume violations under a non-NDEBUG build, where DSPLIB_ASSUME also asserts) before it is reported.',
             note='Lengths enumerated at the boundary values rather than symbolic; sample values concrete in the program table; from_file / stream output / allocation failure outside; pointer-formation-only UB not reported.'),
 'C09': dict(design='4/C09', text='REDUCED CLAIM - no interleaving is explored (pthread-level scheduling of libstdc++ code cannot be encoded with the tools present). Decided instead: the sufficient condition. For each plan kind '
             '(small, pow2, factor, prime-DFT, Bluestein, real-packed, inverse, czt) an existing shared plan is solved with symbolic input and every store is classified; a plain store into memory reachable from a '
             'non-thread_local global (where the shared plan lives) is a violation, stores to fresh blocks, stack, output, thread_local storage (and memory reachable only from it), atomic RMWs and lock-protected stores are not; '
             'same for the second call of 15 free functions (plan caches, random engine per thread). A finding is replayed by a native 4-thread stress on a plan of the same algorithm class.',
             note='Disjoint write sets + read-only sharing imply race freedom and sequential results under any schedule; store addresses are data-independent so one path covers all inputs; the memory model itself is not modelled.',
             tech='symbolic execution of LLVM IR with store tracing (write-set non-interference); z3 only for ground obligations; native multi-thread stress as replay'),
 'C14': dict(design='4/C14', text='hilbert(x) for every n in 3..32 (96 thorough) and hilbert(x, n) pad/truncate pairs: all samples symbolic, z3 (QF_LRA) certifies the code as a fixed matrix that must equal '
             'IDFT.diag(1,2,..,2,[1],0,..,0).DFT (real part = x, negative-frequency bins zero) within half of 64*n*eps; HilbertFilter (custom and designed taps, three frames): the real part of every output is the '
             'very input term delayed by M/2 (bit-exact); Tuner: certified linear, sample k multiplied by exp(2*pi*i*f*k/fs) for every k up to ~3*fs, integer and fractional f, across three calls.',
             note='REAL arithmetic; sin/cos at concrete arguments are the real doubles; the 1e-3 quadrature accuracy of the designed filter over its pass-band is not decided.'),
 'C13': dict(design='4/C13', text='welch (real and complex; nfft 4, 8 quick / 16 thorough; windows, overlaps, 1-2 segments, both scalings) with all samples symbolic: every returned value is extracted as an exact quadratic form '
             'and must equal, for every input, the segment-averaged window-normalised periodogram at the frequency the function itself returns for that entry (pins the axis for every signal, not only tones); the frequency '
             'vector must hold each grid frequency once; non-negativity decided by z3 on the real expression; sum(pxx) == nfft * window-normalised mean power as a polynomial identity; power scaling: a bin-centred unit sinusoid '
             'evaluates to its mean-square value at the peak; mscohere(x, c*x): numerator and denominator of the returned quotient are the same polynomial.',
             note='REAL arithmetic with a 1e-11 coefficient tolerance (FFT table rounding inside); mscohere in [0,1] for arbitrary pairs not decided. One open known finding (complex welch labels) is reported as KNOWN-FINDING.',
             tech='symbolic execution of LLVM IR + exact polynomial extraction; z3 for non-negativity (QF_NRA) and ground comparisons; native replay against a 50-digit periodogram'),
 'C20': dict(design='4/C20', text='Gain computers of Compressor and Limiter with threshold, knee width and input sample symbolic (ratio enumerated; the level 20*log10(|x|+eps) is an uninterpreted function value = arbitrary real): '
             'on every path z3 decides gain == documented piecewise characteristic, gain <= 0 dB, ceiling, and across every pair of regions that the output level is monotone and 1-Lipschitz in the input level (continuity at both knee edges); '
             'one processing step from an arbitrary smoothed-gain state (private state set by the harness): between old state and target, <= 0 dB, equal to the static curve for zero attack/release, outputs are pow(10,g/20) and x*gain; '
             'NoiseGate one step from an arbitrary (gain, hold counter) state: gain in [0,1], hold semantics; Agc: on every path the applied log-gain is <= log(10^(max_gain/20)).',
             note='Absolute slack 1e-9 for rounded coefficients; axioms pow10(g/20) in (0,1] for g <= 0 and exp monotone translate the dB/log-domain invariants; Agc convergence and time-constant calibration not decided.'),
 'C17': dict(design='4/C17', text='PARTIAL. Decided: integer arange with stop symbolic in [-12,12] and (start, step) enumerated (5x10 quick, all 25x24 thorough): count and every value equal python range on every path (the '
             'int->double->round->int chain modelled with integer-part semantics); upsample / downsample / zeropad / delayseq / flip / repelem with symbolic factor, phase, length or delay and symbolic elements: exactly the designated '
             'elements (same terms), zeros elsewhere, documented length, throw only outside the documented range; sum, mean, rms, stddev, norm 1/2, dot, cumsum, abs2 and the complex variants as real-arithmetic identities; '
             'min / max / argmin / argmax / peak2peak on every comparison path; linspace affine with exact end points; complex/real+imag and conj round trips; angle at the axes / signed-zero special points; cumsum forward / reverse, real / complex: every element is a pure summation tree over exactly its prefix / suffix (error bounded by its own scale); '
             'every power overload: array overloads return element-wise the very term of the scalar overload, complex power is the polar form on a single path, integer powers 2, -1, 0, 1 exact, and 13 overloads x 22 special points (signed zeros, both sides of the negative real axis, origin, 1e-160 / 1e150 magnitudes) within 16 eps of the principal value.',
             note='NOT decided (stated as outside): every "libm value within a few ulp" clause (exp, log*, pow, tanh, expj, dB conversions, angle away from the special points) and inverse pairs through pow/log10 - transcendental accuracy at arbitrary arguments has no decision procedure in the tools present.'),
 'C19': dict(design='4/C19', text='PARTIAL. awgn (real and complex) with the input symbolic: the added noise is g_i*sigma for ONE sigma with sigma^2 * (#components) == mean|x|^2 * 10^(-snr/10) (polynomial identity, g_i = the unit normals of the seed); '
             'rng(seed) from a havocked mt19937: every state word afterwards is a term over the symbolic 32-bit seed alone (all generators replay); replay of the 7 generator forms after interleaved draws for concrete seeds; randi with the raw 32-bit '
             'engine outputs symbolic stays inside its inclusive bounds on every path of the real uniform_int_distribution (3 draws; single-value and negative ranges); snr / sinad / thd of c*x for symbolic c in (1e-3, 1e3): one feasible analysis path and a power ratio independent of c.',
             note='NOT decided: the statistical calibration (distribution shape, 6-sigma tolerance) and the 0.1 dB / 1.5 dB accuracies of thd / sinad on specified tones (numeric accuracy of a concrete analysis).'),
 'C11': dict(design='4/C11', text='PARTIAL. fir1 low / high / band-pass / band-stop, orders 2..40 (quick: 9 orders; thorough: 2..40, 64, 101, 128), cut-off(s) symbolic and, up to order 9 (24), a fully symbolic custom window: tap count n+1 / n+2; '
             'h[i] and h[N-i] are the same term (low / high) or equal over the reals given cos even (band-pass / band-stop) for every cut-off and window; sum h == 1 (low) and |sum (-1)^i h_i| == 1 (high) as linear identities over abstracted prototype taps given a '
             'non-zero prototype sum; custom windows of every wrong length in L-2..L+3 end in a throw. Windows (all eight): per length / variant / parameter the values computed by the real code equal the 40-digit closed form within 1e-12, lie in [0,1], are mirror-exact, '
             'and periodic(n) is bit-identical to the first n points of symmetric(n+1); gauss for every alpha: mirror-exact, exp of a non-positive argument. Hamming masks: ground instances on a cut-off grid (n in 47, 64; thorough 40..127).',
             note='PARTIAL: window values and the Hamming-design masks have no quantified input except the (transcendental) cut-off / parameter, so they are ground obligations on a stated grid, not solver-quantified; lengths above 512 and kaiser beta > 40 outside.'),
 'C12': dict(design='4/C12', text='LMS / NLMS / RLS, real and complex, length 2 (3 thorough), fed one sample at a time with x, d, step size, leakage / forgetting factor and diagonal load all symbolic, for 7 (all 2^n thorough) lock schedules: '
             'e[k] is the very term d[k] - y[k]; y[k] == sum_j coeffs()[j]*x[k-j] with the coefficients read before sample k (polynomial identity decided by z3); locked samples leave coeffs() bit-unchanged; unlocked LMS / NLMS samples follow '
             'coeffs*leak + mu*e*x[/(|u|^2+eps)] as a rational identity; real RLS from rest: final coefficients satisfy the exponentially weighted, diagonally regularised normal equations (n = 2); data-dependent paths are enumerated and replayed against an exact rational reference recursion.',
             note='PARTIAL: convergence / misalignment (asymptotic, statistical premise) not decided; RLS normal equations only for 2 updates (3 updates exceed the solver budget); complex filters checked against the plain (unconjugated) product as the library defines it.'),
 'C18': dict(design='4/C18', text='PARTIAL. delayseq: output i is the very input term i-d with zero fill for every d, real and complex; peakloc: three symbolic samples, result == vertex of the parabola (rational identity), cyclic / non-cyclic edges; '
             'finddelay on the impulse family A*delta_j with A symbolic (1e-3 <= |A| <= 1e3), every j and |d| <= n/4: every feasible path returns d; gccphat on the same family with concrete amplitudes, fs 1 and 8; PreambleDetector: concrete rotated PN preamble '
             '(single-sample normalised peak, checked), symbolic amplitude in [1e-3, 1e3], preamble at every offset modulo the frame length incl. straddling frames: exactly one detection at the index of the last preamble sample, samples returned (same terms), '
             'score^2 within 1e-6 of 1; a stream without the preamble: none.',
             note='NOT decided: recovery of the shift for white random signals with additive noise (statistical premise); long preambles (16..512), other thresholds.'),
}
ALL = [json.loads(l)['id'] for l in open(os.path.join(V, 'properties.jsonl'))]
NA_REASON = {}
def main():
    checks = []
    for pid in ALL:
        if pid not in CLAIMED: continue
        c = CLAIMED[pid]
        checks.append({'property_id': pid, 'quick_cmd': f'./check {pid} --tier quick', 'thorough_cmd': f'./check {pid} --tier thorough',
                       'evidence_file': f'evidence/{pid}.json', 'replay_cmd_template': f'./check {pid} --replay {{path}}', 'engine': 'symir',
                       'level_claimed': {'category': 'model_checking', 'text': c['text'], 'design_ref': c['design']}, 'level_note': c['note'], 'technique': c.get('tech', TECH)})
    na = [{'property_id': p, 'reason': NA_REASON.get(p, 'check not built yet in this revision (work in progress; see DESIGN.md section 4 for the planned solver-based check)')}
          for p in ALL if p not in CLAIMED]
    man = {'version': 1, 'setup_cmd': 'python3-vt -c "import z3; print(z3.get_version_string())" && clang++-14 --version | head -1',
           'hooks': {'guard': 'DSPLIB_VERIF', 'enable': 'checks compile /repo sources themselves with -DDSPLIB_VERIF (engine/build.py); the normal CMake build never defines it',
                     'baseline_off_cmd': '/verif/tools/run_baseline.sh', 'source_commits': ['853643f', 'af7be84'], 'add_only': True},
           'engines': [{'name': 'symir', 'path': 'engine/', 'serves_properties': sorted(CLAIMED), 'kind_free_text': 'own symbolic interpreter for clang-14 LLVM IR of the real sources + z3; native replay of counterexamples'}],
           'checks': checks, 'not_applicable': na,
           'notes': 'All checks rebuild IR and the native replay library from /repo\'s current working tree (cache keyed by source hash under /verif/.cache). Exit 0 = held; 1 = VIOLATION (replayed natively); 3 = inconclusive (engine could not decide an obligation; no VIOLATION line).'}
    json.dump(man, open(os.path.join(V, 'MANIFEST.json'), 'w'), indent=1)
    print('claimed', sorted(CLAIMED), 'n/a', len(na))
main()
