#!/usr/bin/env python3
"""seed_table.py : rebuild the table of seeded changes in DESIGN.md (between the SEED-TABLE markers) from seeded/*/meta.json"""
import json, glob, os, re
V = '/verif'
rows = []
for d in sorted(glob.glob(V + '/seeded/C*-*')):
    m = json.load(open(d + '/meta.json')); db = m.get('detected_by') or {}
    sd = os.path.basename(d)
    if not db: verdict = 'not run yet'
    elif db.get('status'): verdict = db['status']
    elif db.get('detected'): verdict = f"**detected** by `{db['check'].replace('./check ', '').replace(' --tier quick', '')}` quick ({db['wall_s']:.0f} s): " + (db.get('first_report') or '')[:150].replace('|', '/').replace('\n', ' ')
    else: verdict = f"NOT detected (exit {db.get('exit_code')}, {db.get('violation_lines')} violation lines)"
    rows.append(f"| {sd} | {', '.join(m['files'])} | {m['needs_to_manifest'][:170].replace('|', '/')} | {verdict} |")
tab = "| seed | files | needs to manifest | result of the property's quick check on the changed tree |\n|---|---|---|---|\n" + "\n".join(rows)
det = sum(1 for r in rows if '**detected**' in r)
tab += f"\n\n{det} of {len(rows)} seeded changes are detected by the quick check of their own property."
p = V + '/DESIGN.md'; s = open(p).read()
if 'SEED_TABLE_PLACEHOLDER' in s: s = s.replace('SEED_TABLE_PLACEHOLDER', '<!-- SEED-TABLE-BEGIN -->\n<!-- SEED-TABLE-END -->')
s = re.sub(r'<!-- SEED-TABLE-BEGIN -->.*<!-- SEED-TABLE-END -->', lambda _: '<!-- SEED-TABLE-BEGIN -->\n' + tab + '\n<!-- SEED-TABLE-END -->', s, flags=re.S)
open(p, 'w').write(s); print(det, 'of', len(rows))
