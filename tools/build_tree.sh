#!/bin/bash
# usage: build_tree.sh <source tree> ; configures + builds <tree>/_build offline and runs the gtest binary
S=${1:-/repo}; B=$S/_build
export CPM_USE_LOCAL_PACKAGES=ON CPM_SOURCE_CACHE=/w/cpm
if [ ! -f $B/build.ninja ]; then
cmake -S $S -B $B -G Ninja -DCMAKE_BUILD_TYPE=RelWithDebInfo -DBUILD_TESTING=ON -DDSPLIB_BUILD_TESTS=ON -DCMAKE_POLICY_VERSION_MINIMUM=3.5 \
  -DFETCHCONTENT_TRY_FIND_PACKAGE_MODE=ALWAYS -DFETCHCONTENT_UPDATES_DISCONNECTED=ON -DFETCHCONTENT_SOURCE_DIR_GOOGLETEST=/usr/src/googletest \
  -DFETCHCONTENT_SOURCE_DIR_GTEST=/usr/src/googletest -DCMAKE_COMPILE_WARNING_AS_ERROR=OFF -DCPM_USE_LOCAL_PACKAGES=ON -DCMAKE_CXX_FLAGS="-Wno-error" > $B.conf.log 2>&1 || { tail -20 $B.conf.log; exit 2; }
fi
cmake --build $B -j16 2>&1 | tail -3 || exit 2
cd $B/tests && ./dsplib-test 2>&1 | tail -3
