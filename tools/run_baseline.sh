#!/bin/bash
# Baseline test suite with the hook guard OFF (the normal build never defines DSPLIB_VERIF).
set -e
cmake -G Ninja -B /repo/_build -S /repo -DDSPLIB_BUILD_TESTS=ON -DCMAKE_BUILD_TYPE=RelWithDebInfo >/dev/null
cmake --build /repo/_build
cd /repo/_build/tests && ./dsplib-test
