#!/bin/bash
# Baseline test suite with the hook guard OFF (the normal CMake build never defines DSPLIB_VERIF).
exec /verif/tools/build_tree.sh /repo
