#!/bin/bash
# usage: try_patch_wt.sh <patch.diff> <Cxx> [tier] : like try_patch.sh but on the scratch worktree /tmp/wt/clean (VERIF_REPO), leaving /repo alone
P=$(realpath $1); ID=$2; T=${3:-quick}; W=${WT:-/tmp/wt/clean}
git -C $W checkout -q -- . ; git -C $W apply --check "$P" 2>/dev/null || { echo "PATCH DOES NOT APPLY: $P"; exit 2; }
git -C $W apply "$P"
cd /verif; VERIF_REPO=$W VERIF_EVIDENCE_DIR=/tmp/ev_clean ./check $ID --tier $T 2>&1 | grep -E "^VIOLATION|^  what|^KNOWN|^INCONCLUSIVE|^BROKEN|^property=" | cut -c1-330 | head -8
git -C $W checkout -q -- .
