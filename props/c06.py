"""C06 — framing invariance of stream processors and independence of instances (P-EQ / P-PATH)."""
from common import *
import random, itertools
PID = 'C06'; HARNESS = 'C06.cpp'
H_THROW = (-1000000) & 0xffffffff

# kind -> (name, in_w, streams[(name, doubles per input granule as function)], snapshot doubles (appended after streams per call), granule)
def _rate(L, M): return lambda ip: Fraction(L(ip), M(ip))
KINDS = {
    0: ('FirFilterR', 1, [1], 0), 1: ('FirFilterC', 2, [2], 0), 2: ('FftFilter real', 1, None, 0), 3: ('FftFilter cmplx', 2, None, 0),
    4: ('FIRDecimator', 1, 'dec', 0), 5: ('FIRInterpolator', 1, 'int', 0), 6: ('FIRRateConverter', 1, 'rc', 0), 7: ('FIRResampler', 1, 'rs', 0),
    8: ('DelayReal', 1, [1], 0), 9: ('DelayCmplx', 2, [2], 0), 10: ('MedianFilter', 1, [1], 0), 11: ('MAFilterR', 1, [1], 0), 12: ('HilbertFilter', 1, [2], 0),
    13: ('Tuner', 2, [2], 0), 14: ('Agc real', 1, [1, 1], 0), 15: ('Agc cmplx', 2, [2, 1], 0), 16: ('Compressor', 1, [1, 1], 0), 17: ('Limiter', 1, [1, 1], 0), 18: ('NoiseGate', 1, [1, 1], 0),
    19: ('LMS real', 2, [1, 1], 'len'), 20: ('NLMS real', 2, [1, 1], 'len'), 21: ('LMS cmplx', 4, [2, 2], 'len2'), 22: ('RLS real', 2, [1, 1], 'len'), 23: ('RLS cmplx', 4, [2, 2], 'len2'),
    24: ('MAFilterC', 2, [2], 0)}
FORKING = {10, 14, 15, 16, 17, 18}

def frames_of(n, s1, s2): return [f for f in (s1, s2 - s1, n - s2) if f > 0]

def per_call_layout(kind, ip, nc, f, state):
    """-> list of (stream index or 'snap', doubles) for a call with f input samples; state carries FftFilter fill level"""
    name, in_w, streams, snap = KINDS[kind]
    if kind in (2, 3):
        m = nc if kind == 2 else nc // 2; fl = 1 << (2 * m - 1).bit_length(); blk = fl - m + 1
        tot = state.get('fill', 0) + f; out = (tot // blk) * blk; state['fill'] = tot % blk
        return [(0, out * in_w)]
    if streams == 'dec': return [(0, f // ip[0])]
    if streams == 'int': return [(0, f * ip[0])]
    if streams in ('rc',): return [(0, f * ip[0] // ip[1])]
    if streams == 'rs':
        g = math.gcd(ip[0], ip[1]); return [(0, f * (ip[0] // g) // (ip[1] // g))]
    lay = [(i, w * f) for i, w in enumerate(streams)]
    if snap == 'len': lay.append(('snap', ip[0]))
    elif snap == 'len2': lay.append(('snap', 2 * ip[0]))
    return lay

def split_streams(kind, ip, nc, frames, data):
    """data: flat list of doubles as written by the harness -> (streams: list of lists, snapshot list or None) ; None if the count does not fit"""
    state = {}; pos = 0; streams = {}; snap = None
    for f in frames:
        for key, cnt in per_call_layout(kind, ip, nc, f, state):
            chunk = data[pos:pos + cnt]; pos += cnt
            if key == 'snap': snap = chunk
            else: streams.setdefault(key, []).extend(chunk)
    return [streams[k] for k in sorted(streams)], snap, pos

def o_frame(spec, r, extra):
    kind = spec[0][1]; ip = spec[1][1]; nc = spec[4][1]; n = spec[7][1]; s1 = spec[8][1]; s2 = spec[9][1]
    name = KINDS[kind][0]; desc = f"{name} params int={ip} dbl={spec[2][1]} nc={nc}: stream of {n} samples framed as {frames_of(n, s1, s2)}"
    if r['status'] != 'ok': return True, f"{desc}: {r['status']} {r.get('stderr', '')[-300:]}"
    if r['ret'] == H_THROW: return True, f"{desc}: threw"
    ya, yb, cnt = r['outs'][-3], r['outs'][-2], r['outs'][-1]
    A, sa, na = split_streams(kind, ip, nc, [n], ya); B, sb, nb = split_streams(kind, ip, nc, frames_of(n, s1, s2), yb)
    if cnt[0] != na or cnt[1] != nb: return True, f"{desc}: output counts {cnt[0]} (whole) / {cnt[1]} (framed), expected {na} / {nb}"
    tol = extra.get('tol', 0.0)
    for k, (a, b) in enumerate(zip(A, B)):
        for i, (u, v) in enumerate(zip(a, b)):
            if not (same_bits(u, v) or abs(u - v) <= tol * max(abs(u), abs(v), 1e-300)): return True, f"{desc}: output stream {k} sample {i}: whole-stream call gives {u!r}, framed calls give {v!r}"
    if sa is not None and any(not (same_bits(u, v) or abs(u - v) <= tol * max(abs(u), 1e-300)) for u, v in zip(sa, sb)): return True, f"{desc}: final coefficients differ: {sa} vs {sb}"
    return False, 'framing invariant'
ORACLES = {'frame': o_frame}

def job_frame(res, kind, ip, dp, c, n, splits, symc=False, seed=0):
    pattern = symc if isinstance(symc, str) else None; symc = bool(symc) and pattern is None      # pattern: per-sample loud / quiet constraint for level-driven processors (one path per pattern instead of every path)
    mod, so = load(HARNESS); name, in_w, _, _ = KINDS[kind]; nc = len(c)
    xn = [f'x{i}' for i in range(n * in_w)]
    cap = 8 * n * in_w * max(ip[0] if kind in (5, 6, 7) else 1, 1) + 4 * (ip[0] if ip else 1) + 64
    for (s1, s2) in splits:
        label = f'{name} int={ip} dbl={[round(v, 4) for v in dp]} taps={nc} n={n} frames={frames_of(n, s1, s2)}' + (f' level pattern {pattern}' if pattern else '')
        def setup(m):
            cs = [fsym(f'c{i}') for i in range(nc)] if symc else c
            if pattern:
                tl = z3.RealVal(Fraction(10 ** (dp[0] / 20)))
                for i_, ch in enumerate(pattern):
                    X_ = z3.Real(xn[i_]); m.assume(z3.Or(X_ >= 2 * tl, X_ <= -2 * tl) if ch == 'L' else z3.And(X_ < tl / 2, X_ > -tl / 2))
            args = [kind, m.alloc_ints(ip + [0], 32, 'ip'), m.alloc_doubles(dp + [0.0], 'dp'), m.alloc_doubles(cs, 'c'), nc, in_w, m.alloc_doubles([fsym(s) for s in xn], 'x'), n, s1, s2]
            ya = m.alloc_doubles([0.0] * cap, 'ya'); yb = m.alloc_doubles([0.0] * cap, 'yb'); cnt = m.alloc_ints([0, 0], 32, 'cnt')
            return args + [ya, yb, cnt], (ya, yb, cnt)
        def mk(mdl):
            rnd = random.Random(seed + 17)
            xv = [model_float(mdl, s, rnd.uniform(-1, 1)) if s in mdl else rnd.uniform(-1, 1) for s in xn]
            cv = [model_float(mdl, f'c{i}', rnd.uniform(-1, 1)) if f'c{i}' in mdl else (c[i] if not symc else rnd.uniform(-1, 1)) for i in range(nc)]
            return [('i32', kind), ('pi32', ip + [0]), ('pf64', dp + [0.0]), ('pf64', cv), ('i32', nc), ('i32', in_w), ('pf64', xv), ('i32', n), ('i32', s1), ('i32', s2),
                    ('pf64', [0.0] * cap), ('pf64', [0.0] * cap), ('pi32', [0, 0])]
        key = f'frame:{name}'
        npaths = 0; failed = False
        for p in explore(mod, '@h_frame', setup, max_paths=4000, max_steps=60_000_000):
            npaths += 1
            if p.out == 'pathbudget': res.notes.append(f'{label}: path budget reached'); break
            if p.out in ('throw', 'ub'):
                res.absorb(p.m); rr, mdl = p.m.check_model(z3.BoolVal(True))
                confirm(res, PID, HARNESS, 'h_frame', mk(mdl), 'i32', 'frame', ORACLES, key + ':' + p.out, f'{label}: {p.out} {str(p.err)[:200]}'); failed = True; break
            if p.out != 'ret': res.inc(f'{label}: path {p.out}: {p.err}'); continue
            res.absorb(p.m); ya, yb, cnt = p.ctx
            ca, cb = p.m.read_ints(cnt, 2, 32)
            if not isinstance(ca, int) or not isinstance(cb, int): res.inc(f'{label}: symbolic output count'); continue
            A, sa, na = split_streams(kind, ip, nc, [n], p.m.read_doubles(ya, ca)); B, sb, nb = split_streams(kind, ip, nc, frames_of(n, s1, s2), p.m.read_doubles(yb, cb))
            pairs = [(u, v) for a, b in zip(A, B) for u, v in zip(a, b)] + (list(zip(sa, sb)) if sa is not None else [])
            lens_ok = ca == na and cb == nb and all(len(a) == len(b) for a, b in zip(A, B))
            if not lens_ok:
                rr, mdl = p.m.check_model(z3.BoolVal(True))
                confirm(res, PID, HARNESS, 'h_frame', mk(mdl), 'i32', 'frame', ORACLES, key + ':count', f'{label}: framed calls produce {cb} values, the whole-stream call {ca}'); failed = True; break
            diff = [(i, u, v) for i, (u, v) in enumerate(pairs) if not (u is v or (not isF(u) and not isF(v) and same_bits(u, v)))]
            if not diff:
                res.ob(True, 'UF', f'{label}: all {len(pairs)} output values of the framed instance are the same terms as the whole-stream instance (bit-identical for every input)')
                continue
            # not syntactically identical: decide equality over the reals under the path condition
            sol = z3.Solver(); sol.set('timeout', 60000); sol.add(*p.m.pc)
            L = lambda v: p.m.lower(v) if isF(v) else z3.RealVal(Fraction(v))
            sol.add(z3.Or([L(u) != L(v) for i, u, v in diff])); sol.add(*p.m.pc[len(sol.assertions()):])
            t0 = time.time(); cc = sol.check(); res.queries += 1; res.solver_s += time.time() - t0
            if cc == z3.unsat: res.ob(True, 'REAL', f'{label}: {len(diff)} outputs differ as terms but are equal over the reals for every input on the path')
            elif cc == z3.sat:
                why = f'{label}: framed output differs from the whole-stream output (output value #{diff[0][0]})'
                if not confirm(res, PID, HARNESS, 'h_frame', mk(model_dict(sol)), 'i32', 'frame', ORACLES, key, why, extra={'tol': 1e-9}, suspect_is_inconclusive=False):
                    confirm(res, PID, HARNESS, 'h_frame', mk({}), 'i32', 'frame', ORACLES, key, why + ' (generic input)', extra={'tol': 1e-9})
                failed = True; break
            else: res.inc(f'{label}: equality query unknown')
        if failed: return

JOBFNS = {'frame': job_frame}

def all_splits(n, g=1, three=True):
    pts = list(range(0, n + 1, g)); out = []
    for s1 in pts:
        for s2 in pts:
            if s1 <= s2 and (three or s1 == s2 or s1 == 0) and not (s1 == 0 and s2 == n) and not (s1 == 0 and s2 == 0) and not (s1 == n): out.append((s1, s2))
    return out

def configs(tier, seed):
    q = tier == 'quick'; rnd = random.Random(1234 + seed); R = lambda k: [round(rnd.uniform(-1, 1), 6) for _ in range(k)]
    cf = []   # (kind, ip, dp, c, n, splits, symc)
    for nh in ((2, 3, 5) if q else (2, 3, 4, 5, 7, 9)):
        cf.append((0, [], [], R(nh), nh + 3, all_splits(nh + 3), True)); cf.append((1, [], [], R(2 * nh), nh + 2, all_splits(nh + 2), True))
    for nh in ((2, 3) if q else (2, 3, 4, 6)):
        fl = 1 << (2 * nh - 1).bit_length(); blk = fl - nh + 1; n = 2 * blk + 2
        sp = [(s1, s2) for (s1, s2) in all_splits(n) if q is False or (s1 + s2) % 3 != 2]
        cf.append((2, [], [], R(nh), n, sp, False)); cf.append((3, [], [], R(2 * nh), n, sp[::2], False))
    for M in ((2, 3) if q else (2, 3, 4, 5)):
        for hl in (2 * M + 1, 3 * M):
            cf.append((4, [M], [], R(hl), 4 * M, all_splits(4 * M, M), False)); cf.append((5, [M], [], R(hl), 5, all_splits(5), False))
    cf.append((4, [2], [], [], 8, all_splits(8, 2), False)); cf.append((5, [2], [], [], 4, all_splits(4), False))
    for (L, M) in ([(2, 3), (3, 2), (3, 4)] if q else [(2, 3), (3, 2), (3, 4), (4, 3), (5, 2), (2, 5), (5, 4)]):
        cf.append((6, [L, M], [], R(3 * max(L, M) + 1), 4 * M, all_splits(4 * M, M), False))
        cf.append((7, [L, M], [], R(2 * max(L, M) + 2), 3 * M, all_splits(3 * M, M), False))
    cf.append((6, [3, 2], [], [], 8, all_splits(8, 2), False))
    cf.append((7, [3, 2], [], [], 6, all_splits(6, 2), False)); cf.append((7, [2, 1], [], [], 4, all_splits(4, three=False), False)); cf.append((7, [1, 3], [], [], 9, all_splits(9, 3, three=False), False)); cf.append((7, [96, 64], [], [], 4, [(2, 2)], False))
    cf.append((7, [2, 1], [], R(5), 4, all_splits(4), False)); cf.append((7, [1, 2], [], R(5), 8, all_splits(8, 2), False)); cf.append((7, [3, 3], [], R(4), 4, all_splits(4), False))
    for d in (1, 2, 3): cf.append((8, [d], [], [], 5, all_splits(5), False))
    cf.append((8, [0], [], R(2), 4, all_splits(4), True)); cf.append((9, [2], [], [], 4, all_splits(4), False))
    for n_ in ((1, 2, 3, 4) if q else (1, 2, 3, 4, 5, 7)): cf.append((11, [n_], [], [], 2 * n_ + 3, all_splits(2 * n_ + 3), False))
    cf.append((24, [3], [], [], 7, all_splits(7), False))
    cf.append((12, [], [], [0.1, 0.0, -0.6, 0.0, 0.6, 0.0, -0.1], 9, all_splits(9), False)); cf.append((12, [], [], [0.3, -0.7, 0.0, 0.7, -0.3], 8, all_splits(8), False))
    cf.append((12, [7], [0.2], [], 9, all_splits(9, three=False), False))
    for fr in (1.0, 0.5, -2.5): cf.append((13, [8], [fr], [], 11, all_splits(11, three=False) + [(3, 9), (8, 9)], False))
    for (len_, kind, dps) in [(2, 19, [0.05, 1.0]), (2, 19, [0.05, 0.9]), (3, 20, [0.5, 1.0]), (2, 22, [0.95, 10.0]), (2, 22, [1.0, 0.5])]:
        cf.append((kind, [len_], dps, [], 4, all_splits(4), False))
    # coefficients locked after 2 samples (non-zero by then): the frozen filter must still see its whole input history across frames
    for (len_, kind, dps) in [(2, 19, [0.05, 1.0]), (3, 19, [0.1, 0.9]), (3, 20, [0.5, 1.0]), (2, 22, [0.95, 10.0])]:
        cf.append((kind, [len_, 2], dps, [], 6, all_splits(6), False))
    cf.append((21, [2, 0], [0.05, 1.0], [], 3, all_splits(3), False)); cf.append((21, [2, 1], [0.5, 0.95], [], 3, all_splits(3), False)); cf.append((23, [2], [0.9, 2.0], [], 3, all_splits(3), False))
    # forking processors: short streams
    fs = [(1, 2), (1, 1), (2, 2), (1, 3), (2, 3)] if q else None
    for order in (3, 4): cf.append((10, [order], [0.25], [], 4, all_splits(4) if not q else [(1, 1), (2, 2), (1, 3), (3, 3)], False))
    cf.append((14, [3], [1.0, 20.0, 0.3, 0.2], [], 3, [(1, 1), (2, 2), (1, 2)], False)); cf.append((15, [2], [0.5, 30.0, 0.1, 0.4], [], 3, [(1, 1), (1, 2)], False))
    cf.append((16, [100, 5], [-10.0, 0.0, 0.01, 0.02], [], 3, [(1, 1), (2, 2), (1, 2)], False)); cf.append((16, [100, 3], [-20.0, 6.0, 0.0, 0.05], [], 3, [(1, 1), (1, 2)], False))
    cf.append((17, [100], [-6.0, 0.0, 0.0, 0.02], [], 3, [(1, 1), (2, 2), (1, 2)], False)); cf.append((17, [100], [-12.0, 4.0, 0.01, 0.05], [], 3, [(1, 1), (1, 2)], False))
    for hold in (0.0, 0.1, 0.2): cf.append((18, [10], [-20.0, 0.3, 0.2, hold], [], 4, [(1, 1), (2, 2), (3, 3), (1, 3)], False))
    # longer gate streams, one path per loud (L) / quiet (Q) pattern: hold partly consumed, re-opened, frames lying entirely in a loud or quiet passage
    for pat in (('LQLQQQQ', 'LLQLLQQ', 'QLQQLQQ', 'LQQLQQQ') if q else ('LQLQQQQ', 'LLQLLQQ', 'QLQQLQQ', 'LQQLQQQ', 'LQLQLQQ', 'LLLQQQQ', 'QQLLQQL', 'LQQQLQQ')):
        cf.append((18, [10], [-20.0, 0.1, 0.0, 0.3], [], 7, [(2, 3), (1, 3), (2, 5), (3, 4), (1, 1), (4, 4)], pat)); cf.append((18, [10], [-20.0, 0.2, 0.1, 0.2], [], 7, [(2, 3), (3, 5), (2, 2)], pat))
    return cf

def selftest(st):
    mod, so = load(HARNESS); calls = []
    for (kind, ip, dp, c, n, splits, symc) in [c_ for c_ in configs('quick', 0) if not isinstance(c_[6], str)][::3]:
        in_w = KINDS[kind][1]; rnd = random.Random(kind); xv = [rnd.uniform(-1, 1) for _ in range(n * in_w)]; s1, s2 = splits[len(splits) // 2]
        cap = 8 * n * in_w * max(ip[0] if kind in (5, 6, 7) else 1, 1) + 4 * (ip[0] if ip else 1) + 64
        calls.append(('h_frame', [('i32', kind), ('pi32', ip + [0]), ('pf64', dp + [0.0]), ('pf64', c), ('i32', len(c)), ('i32', in_w), ('pf64', xv), ('i32', n), ('i32', s1), ('i32', s2),
                                  ('pf64', [0.0] * cap), ('pf64', [0.0] * cap), ('pi32', [0, 0])]))
    selftest_calls(st, HARNESS, [(fn, spec, 'i32') for fn, spec in calls])

def main(tier, seed):
    jobs = []
    for i, (kind, ip, dp, c, n, splits, symc) in enumerate(configs(tier, seed)):
        chunk = 6 if kind not in FORKING else 1
        for k in range(0, len(splits), chunk):
            jobs.append((f'{KINDS[kind][0]} #{i}.{k}', 'frame', dict(kind=kind, ip=ip, dp=dp, c=c, n=n, splits=splits[k:k + chunk], symc=symc, seed=seed), 2400))
    jobs.sort(key=lambda j: -(100 if j[2]['kind'] in FORKING else j[2]['n']))
    return run_property(PID, tier, HARNESS, jobs, JOBFNS,
        level_text='Two separately constructed instances of each processor run inside one symbolic execution with every input sample symbolic: one receives the stream in a single call, the '
                   'other in up to three frames (all split points at the processor granularity), calls interleaved. Outputs (and final coefficients of adaptive filters) must be the same '
                   'terms (bit-identical for every input and every FP semantics) or, failing that, equal over the reals under the path condition (z3); processors with data-dependent '
                   'branches are explored over every feasible path. Any difference is replayed natively.',
        assumptions=['frames start from the constructed state (the first frame acts as the arbitrary-history prefix for the later boundaries)', 'libm calls are uninterpreted functions (framing equality is independent of libm)',
                     'instance independence is observed through interleaved calls of two instances (shared mutable state would make the framed instance differ)'],
        bounds={'streams': '3..16 granules, every 2- and 3-frame split (forking processors: 3-4 samples, selected splits)', 'parameters': 'see jobs: FIR 2-9 taps, FftFilter block 3-24, L,M <= 5, default designs for M=2 / 3:2, delays 0-3, orders 3-4, averaging 1-7'},
        outside=['long default-designed filters beyond the listed ones', 'streams longer than the bound (by induction over splits the 3-frame check composes)'], seed=seed, selftest=selftest)

def replay(path): return replay_main(path, ORACLES)
