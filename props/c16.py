"""C16 — sorting, order statistics, rank correlation (P-PATH: every feasible comparison path, ties included)."""
from common import *
PID = 'C16'; HARNESS = 'C16.cpp'
H_THROW = (-1000000) & 0xffffffff

# ---------------------------------------------------------------- python references
def py_median(v):
    s = sorted(v); n = len(s)
    return s[n // 2] if n % 2 else (s[n // 2] + s[n // 2 - 1]) / 2
def py_kendall(x, y):
    n = len(x); c = 0
    for i in range(n):
        for k in range(i + 1, n): c += 1 if (x[i] - x[k]) * (y[i] - y[k]) > 0 else -1
    return Fraction(c, n * (n - 1) // 2)
def py_rank(v): return [sum(1 for q in v if q < e) for e in v]
def py_spearman(x, y):
    n = len(x); rx, ry = py_rank(x), py_rank(y)
    return 1 - Fraction(6 * sum((a - b) ** 2 for a, b in zip(rx, ry)), n * (n * n - 1))
def py_pearson(x, y):
    n = len(x); X = [Fraction(v) for v in x]; Y = [Fraction(v) for v in y]
    mx = sum(X) / n; my = sum(Y) / n
    cov = sum((a - mx) * (b - my) for a, b in zip(X, Y)); vx = sum((a - mx) ** 2 for a in X); vy = sum((b - my) ** 2 for b in Y)
    return float(cov) / math.sqrt(float(vx) * float(vy))

def o_sort(spec, r, extra):
    x = spec[0][1]; n = spec[1][1]; desc = spec[2][1]
    if r['status'] != 'ok' or r['ret'] != n: return True, f"sort n={n}: {r['status']} ret={r.get('ret')}"
    y = r['outs'][1]; idx = [sgn(v, 32) for v in r['outs'][2]]
    exp = sorted(x, reverse=bool(desc))
    bad = y != exp or sorted(idx) != list(range(n)) or any(y[i] != x[idx[i]] for i in range(n))
    return bad, f"sort({x}, {'descend' if desc else 'ascend'}) = {y} idx {idx}; expected {exp} with a consistent permutation"
def o_median(spec, r, extra):
    x = spec[0][1]
    if r['status'] != 'ok': return True, f"median: {r['status']}"
    return r['ret'] != py_median(x), f"median({x}) = {r['ret']!r}, expected {py_median(x)!r}"
def _win_med(x, k, order, init):
    w = [x[j] if j >= 0 else init for j in range(k - order + 1, k + 1)]
    return py_median(w)
def o_medflt(spec, r, extra):
    kind = extra['kind']; x = spec[0][1]
    if r['status'] != 'ok' or r['ret'] == H_THROW: return True, f"{kind}: {r['status']} / threw"
    if kind == 'stream': nx, order, init = spec[1][1], spec[2][1], spec[3][1]; exp = [_win_med(x, k, order, init) for k in range(nx)]
    elif kind == 'frames': n1, n2, order, init = spec[1][1], spec[2][1], spec[3][1], spec[4][1]; nx = n1 + n2; exp = [_win_med(x, k, order, init) for k in range(nx)]
    else:
        nx, order = spec[1][1], spec[2][1]; n1 = order // 2; n2 = order // 2 if order % 2 else order // 2 - 1
        xp = [0.0] * n1 + list(x[:nx]) + [0.0] * n2; exp = [py_median(xp[i:i + order]) for i in range(nx)]
    y = r['outs'][-1][:nx]
    return (r['ret'] != nx or y != exp), f"{kind} median filter order={order} on {x[:nx]}: got {y}, brute-force window medians {exp}"
def o_corr(spec, r, extra):
    x = spec[0][1]; y = spec[1][1]; n = spec[2][1]; t = spec[3][1]
    if r['status'] != 'ok': return True, f"corr: {r['status']}"
    exp = [py_pearson, py_spearman, py_kendall][t](x, y)
    return abs(r['ret'] - float(exp)) > 1e-9, f"corr({x}, {y}, {['pearson', 'spearman', 'kendall'][t]}) = {r['ret']!r}, definition gives {float(exp)!r}"
ORACLES = {'sort': o_sort, 'median': o_median, 'medflt': o_medflt, 'corr': o_corr}

def X(n, p='x'): return [z3.Real(f'{p}{i}') for i in range(n)]
def fvals(mdl, n, p='x'): return [model_float(mdl, f'{p}{i}', 0.0) for i in range(n)]
def med_claim(R, W):
    """z3: R is the median of the multiset W (counting characterisation; exact with ties)"""
    n = len(W)
    le = lambda v: z3.Sum([z3.If(x <= v, 1, 0) for x in W]); ge = lambda v: z3.Sum([z3.If(x >= v, 1, 0) for x in W])
    if n % 2 == 1:
        k = n // 2 + 1
        return z3.And(z3.Or([R == x for x in W]), le(R) >= k, ge(R) >= k)
    k = n // 2
    A = z3.FreshConst(z3.RealSort(), 'lo'); B = z3.FreshConst(z3.RealSort(), 'hi')
    # lower middle A: the k-th order statistic; upper middle B: the (k+1)-th
    return z3.Exists([A, B], z3.And(z3.Or([A == x for x in W]), le(A) >= k, ge(A) >= n - k + 1, z3.Or([B == x for x in W]), le(B) >= k + 1, ge(B) >= n - k, R == (A + B) / 2))

def job_sort(res, n, desc):
    mod, so = load(HARNESS)
    def setup(m):
        xs = [fsym(f'x{i}') for i in range(n)]
        x = m.alloc_doubles(xs, 'x'); y = m.alloc_doubles([0.0] * max(n, 1), 'y'); idx = m.alloc_ints([0] * max(n, 1), 32, 'idx')
        return [x, n, desc, y, idx], (xs, y, idx)
    for p in explore(mod, '@h_sort', setup, max_paths=2000):
        if p.out != 'ret': res.inc(f'sort n={n}: path {p.out} {p.err}'); continue
        res.absorb(p.m); xs, yp, ip = p.ctx
        ys = p.m.read_doubles(yp, n); idx = p.m.read_ints(ip, n, 32)
        Z = X(n)
        struct = all(isinstance(i, int) for i in idx) and sorted(sgn(i, 32) for i in idx) == list(range(n)) and all(ys[k] is xs[sgn(idx[k], 32)] for k in range(n)) and p.ret == n
        order = [z3.BoolVal(True)]
        if struct:
            for k in range(n - 1):
                a, b = Z[sgn(idx[k], 32)], Z[sgn(idx[k + 1], 32)]
                order.append(a >= b if desc else a <= b)
        sol = z3.Solver(); sol.add(*p.m.pc); sol.add(z3.Not(z3.And(z3.BoolVal(struct), *order))); c = timed_check(sol, res)
        if c == z3.unsat: res.ob(True, 'LRA', f'sort n={n} {"descend" if desc else "ascend"} path idx={[sgn(i, 32) for i in idx]}: permutation, sorted[i] is x[idx[i]], ordered for every input on the path')
        else:
            mdl = model_dict(sol) if c == z3.sat else {}
            confirm(res, PID, HARNESS, 'h_sort', [('pf64', fvals(mdl, n)), ('i32', n), ('i32', desc), ('pf64', [0.0] * n), ('pi32', [0] * n)], 'i32', 'sort', ORACLES, f'sort:{"desc" if desc else "asc"}', f'sort n={n} wrong on some ordering')

def job_median(res, n):
    mod, so = load(HARNESS)
    def setup(m):
        xs = [fsym(f'x{i}') for i in range(n)]; return [m.alloc_doubles(xs, 'x'), n], xs
    for p in explore(mod, '@h_median', setup, max_paths=3000):
        if p.out != 'ret': res.inc(f'median n={n}: path {p.out} {p.err}'); continue
        res.absorb(p.m)
        R = p.m.lower(p.ret) if isF(p.ret) else z3.RealVal(Fraction(p.ret))
        sol = z3.Solver(); sol.add(*p.m.pc); sol.add(z3.Not(med_claim(R, X(n)))); c = timed_check(sol, res)
        if c == z3.unsat: res.ob(True, 'LRA', f'median n={n} path |pc|={len(p.m.pc)}: result is the middle order statistic (mean of the two middle ones for even n)')
        else:
            mdl = model_dict(sol) if c == z3.sat else {}
            confirm(res, PID, HARNESS, 'h_median', [('pf64', fvals(mdl, n)), ('i32', n)], 'f64', 'median', ORACLES, 'median:value', f'median n={n} wrong')

def job_medflt(res, kind, order, nx, n1=0, first=None):
    """kind: stream (one call), frames (two calls n1 + nx-n1), fn (medfilt function). init value symbolic for the class.
    first: optional pin of x0's rank among x (splits the path space across jobs)"""
    mod, so = load(HARNESS)
    def setup(m):
        xs = [fsym(f'x{i}') for i in range(nx)]; init = fsym('init')
        x = m.alloc_doubles(xs, 'x'); y = m.alloc_doubles([0.0] * nx, 'y')
        if first is not None:
            Z = X(nx); m.assume(z3.Sum([z3.If(Z[j] < Z[0], 1, 0) for j in range(1, nx)]) == first)
        if kind == 'stream': a = [x, nx, order, init, y]
        elif kind == 'frames': a = [x, n1, nx - n1, order, init, y]
        else: a = [x, nx, order, y]
        return a, (xs, y)
    fn = {'stream': 'h_medflt', 'frames': 'h_medflt2', 'fn': 'h_medfilt'}[kind]
    def mk(mdl):
        xv = fvals(mdl, nx); iv = model_float(mdl, 'init', 0.0)
        if kind == 'stream': return [('pf64', xv), ('i32', nx), ('i32', order), ('f64', iv), ('pf64', [0.0] * nx)]
        if kind == 'frames': return [('pf64', xv), ('i32', n1), ('i32', nx - n1), ('i32', order), ('f64', iv), ('pf64', [0.0] * nx)]
        return [('pf64', xv), ('i32', nx), ('i32', order), ('pf64', [0.0] * nx)]
    for p in explore(mod, '@' + fn, setup, max_paths=20000):
        if p.out != 'ret': res.inc(f'{kind} medfilt order={order}: path {p.out} {p.err}'); continue
        res.absorb(p.m); xs, yp = p.ctx; ys = p.m.read_doubles(yp, nx); Z = X(nx); I = z3.Real('init')
        claims = [z3.BoolVal(p.ret == nx)]
        for k in range(nx):
            if kind == 'fn':
                h1 = order // 2; lo = k - h1; W = [Z[j] if 0 <= j < nx else z3.RealVal(0) for j in range(lo, lo + order)]
            else: W = [Z[j] if j >= 0 else I for j in range(k - order + 1, k + 1)]
            R = p.m.lower(ys[k]) if isF(ys[k]) else z3.RealVal(Fraction(ys[k]))
            claims.append(med_claim(R, W))
        sol = z3.Solver(); sol.add(*p.m.pc); sol.add(z3.Not(z3.And(*claims))); c = timed_check(sol, res)
        if c == z3.unsat: res.ob(True, 'LRA', f'{kind} median filter order={order} nx={nx} path |pc|={len(p.m.pc)}: every output is the median of its window')
        else:
            mdl = model_dict(sol) if c == z3.sat else {}
            confirm(res, PID, HARNESS, fn, mk(mdl), 'i32', 'medflt', ORACLES, f'medflt:{kind}:order{"odd" if order % 2 else "even"}', f'{kind} median filter order={order} differs from the window median', extra={'kind': kind})
            return

def job_rank(res, n, typ, first):
    """Spearman (1) / Kendall (2) for tie-free data: every pair of strict orderings; x0 pinned to rank `first` to split the n!^2 paths over jobs"""
    mod, so = load(HARNESS); Zx = X(n, 'x'); Zy = X(n, 'y')
    def setup(m):
        xs = [fsym(f'x{i}') for i in range(n)]; ys = [fsym(f'y{i}') for i in range(n)]
        m.assume(z3.Distinct(*Zx)); m.assume(z3.Distinct(*Zy))
        m.assume(z3.Sum([z3.If(Zx[j] < Zx[0], 1, 0) for j in range(1, n)]) == first)
        return [m.alloc_doubles(xs, 'x'), m.alloc_doubles(ys, 'y'), n, typ], None
    npairs = n * (n - 1) // 2
    rk = lambda Z, i: z3.Sum([z3.If(Z[k] < Z[i], 1, 0) for k in range(n)])
    for p in explore(mod, '@h_corr', setup, max_paths=30000):
        if p.out != 'ret': res.inc(f'corr type={typ} n={n}: path {p.out} {p.err}'); continue
        res.absorb(p.m)
        r = p.m.lower(p.ret) if isF(p.ret) else z3.RealVal(Fraction(p.ret))
        if typ == 2: spec = z3.ToReal(z3.Sum([z3.If((Zx[i] - Zx[k]) * (Zy[i] - Zy[k]) > 0, 1, -1) for i in range(n) for k in range(i + 1, n)])) / npairs
        else: spec = 1 - z3.ToReal(6 * z3.Sum([(rk(Zx, i) - rk(Zy, i)) * (rk(Zx, i) - rk(Zy, i)) for i in range(n)])) / (n * (n * n - 1))
        tol = z3.RealVal(Fraction(1, 10 ** 12))
        # A path of tie-free data fixes both orderings (every pair is decided by the comparisons made, directly or by transitivity): establish that with cheap linear queries
        # (pc and "pair ordered the other way" unsat, per pair), then the definition is a constant on the path and the claim is linear.  Falls back to the general query otherwise.
        c = None; rr0, mdl0 = p.m.check_model(z3.BoolVal(True))
        if rr0 == z3.sat:
            try:
                xv0 = [Fraction(z3_to_float(mdl0.get(f'x{i}'))) for i in range(n)]; yv0 = [Fraction(z3_to_float(mdl0.get(f'y{i}'))) for i in range(n)]
            except Exception: xv0 = yv0 = None
            if xv0 and len(set(xv0)) == n and len(set(yv0)) == n:
                q0 = z3.SolverFor('QF_LRA'); q0.set('timeout', 120000); q0.add(*[a for a in p.m.pc if True]); fixed = True
                try:
                    for Zv, vv in ((Zx, xv0), (Zy, yv0)):
                        for i in range(n):
                            for k in range(i + 1, n):
                                q0.push(); q0.add((Zv[i] > Zv[k]) if vv[i] < vv[k] else (Zv[i] < Zv[k])); cc = q0.check(); res.queries += 1; q0.pop()
                                if cc != z3.unsat: fixed = False; break
                            if not fixed: break
                        if not fixed: break
                except z3.Z3Exception: fixed = False      # the path condition is not purely linear
                if fixed:
                    exp0 = py_kendall(xv0, yv0) if typ == 2 else py_spearman(xv0, yv0)
                    sol = z3.Solver(); sol.add(*p.m.pc); sol.add(z3.Or(r - z3.RealVal(exp0) > tol, z3.RealVal(exp0) - r > tol)); c = timed_check(sol, res)
        if c is None or c == z3.unknown:
            sol = z3.Solver(); sol.add(*p.m.pc); sol.add(z3.Or(r - spec > tol, spec - r > tol)); c = timed_check(sol, res)
            if c == z3.unknown:
                sol.set('timeout', 600000); c = sol.check()
        if c == z3.unsat: res.ob(True, 'LRA/NIA', f'{["", "spearman", "kendall"][typ]} n={n} path: value equals the O(n^2) definition for every pair of orderings on the path')
        elif c == z3.unknown: res.inc(f'rank correlation n={n}: query undecided')
        else:
            mdl = model_dict(sol) if c == z3.sat else {}
            xv = fvals(mdl, n, 'x'); yv = fvals(mdl, n, 'y')
            confirm(res, PID, HARNESS, 'h_corr', [('pf64', xv), ('pf64', yv), ('i32', n), ('i32', typ)], 'f64', 'corr', ORACLES, f'corr:{["", "spearman", "kendall"][typ]}', f'rank correlation differs from its definition (n={n})')
            return

def job_pearson(res, n):
    """structure r = num / sqrt(rad) (DAG) + polynomial identities num == n*Sxy - Sx*Sy, rad == (n*Sxx - Sx^2)(n*Syy - Sy^2) (z3), symmetric by the same identities"""
    mod, so = load(HARNESS); m = Machine(mod)
    xs = [fsym(f'x{i}') for i in range(n)]; ys = [fsym(f'y{i}') for i in range(n)]
    r = m.call('@h_corr', [m.alloc_doubles(xs, 'x'), m.alloc_doubles(ys, 'y'), n, 0]); res.absorb(m)
    Zx = X(n, 'x'); Zy = X(n, 'y')
    ok_struct = isF(r) and r.op == 'fdiv' and isF(r.args[1]) and r.args[1].op == 'call' and r.args[1].args[0] == 'sqrt' and not m.taken
    def cex():
        confirm(res, PID, HARNESS, 'h_corr', [('pf64', [0.3 * i * i - 1.0 for i in range(n)]), ('pf64', [1.0 - 0.7 * i + 0.1 * i * i * i for i in range(n)]), ('i32', n), ('i32', 0)], 'f64', 'corr', ORACLES, 'corr:pearson', f'pearson n={n}: not the textbook expression')
    if not ok_struct: cex(); return
    low = Lower('REAL'); num = low(r.args[0]); rad = low(r.args[1].args[1])
    Sx = z3.Sum(Zx); Sy = z3.Sum(Zy); Sxy = z3.Sum([a * b for a, b in zip(Zx, Zy)]); Sxx = z3.Sum([a * a for a in Zx]); Syy = z3.Sum([b * b for b in Zy])
    for nm, code, spec in (('numerator', num, n * Sxy - Sx * Sy), ('radicand', rad, (n * Sxx - Sx * Sx) * (n * Syy - Sy * Sy))):
        sol = z3.Solver(); sol.add(code != spec); c = timed_check(sol, res)
        if c == z3.unsat: res.ob(True, 'NRA', f'pearson n={n}: {nm} is the textbook polynomial for every (x, y); the expression is symmetric in x and y')
        elif c == z3.sat: cex(); return
        else: res.inc(f'pearson n={n}: {nm} identity unknown')

def job_rank_large(res, n, typ):
    """ground obligations at lengths where integer accumulators of rank statistics reach 2^31 (sum d^2 = n(n^2-1)/3 > 2^31 from n = 1861; n(n-1)/2 pairs): perfectly reversed, identical and interleaved orders,
    executed through the interpreted IR with every signed-overflow / bounds obligation active"""
    mod, so = load(HARNESS)
    base = [0.25 * i - 3.0 for i in range(n)]
    for nm, yv in (('reversed', base[::-1]), ('identical', list(base)), ('interleaved', base[1::2] + base[0::2])):
        m = Machine(mod, max_steps=400_000_000); spec = [('pf64', base), ('pf64', yv), ('i32', n), ('i32', typ)]
        tn = ['pearson', 'spearman', 'kendall'][typ]
        try: r, outs, _ = sym_call(m, 'h_corr', spec, 'f64')
        except UB as e:
            res.absorb(m); confirm(res, PID, HARNESS, 'h_corr', spec, 'f64', 'corr', ORACLES, f'corr:{tn}:large-n', f'{tn} n={n} {nm} order: {str(e)[:200]}', san=True); continue
        except (Budget, Throw) as e: res.absorb(m); res.inc(f'{tn} n={n} {nm}: {type(e).__name__}'); continue
        res.absorb(m)
        rx = {v: i for i, v in enumerate(sorted(base))}; d2 = sum((rx[a] - rx[b]) ** 2 for a, b in zip(base, yv))
        if typ == 1: exp = 1 - Fraction(6 * d2, n * (n * n - 1))
        else:
            perm = [rx[b] for b in yv]; inv = 0      # x ascending: concordant pairs = non-inversions of perm (merge count)
            def ms(a):
                nonlocal inv
                if len(a) < 2: return a
                h = len(a) // 2; l = ms(a[:h]); r_ = ms(a[h:]); o = []; i = j = 0
                while i < len(l) and j < len(r_):
                    if l[i] <= r_[j]: o.append(l[i]); i += 1
                    else: o.append(r_[j]); j += 1; inv += len(l) - i
                return o + l[i:] + r_[j:]
            ms(perm); tot = n * (n - 1) // 2; exp = Fraction(tot - 2 * inv, tot)
        ok = abs(r - float(exp)) <= 1e-9 and not m.ub_found
        sol = z3.Solver(); sol.add(z3.Not(z3.BoolVal(bool(ok))))
        if timed_check(sol, res) == z3.unsat: res.ob(True, 'ground', f'{tn} n={n} {nm} order: {float(exp)!r}, no integer overflow on the way')
        else: confirm(res, PID, HARNESS, 'h_corr', spec, 'f64', 'corr_large', ORACLES, f'corr:{tn}:large-n', f'{tn} n={n} {nm} order: got {r!r}, definition gives {float(exp)!r}' + (f'; UB {m.ub_found[:1]}' if m.ub_found else ''), extra={'exp': float(exp)})
def o_corr_large(spec, r, extra):
    if r['status'] != 'ok': return True, f"corr: {r['status']} {r.get('stderr', '')[-200:]}"
    return abs(r['ret'] - extra['exp']) > 1e-9, f"corr(n={spec[2][1]}, {['pearson', 'spearman', 'kendall'][spec[3][1]]}) = {r['ret']!r}, definition gives {extra['exp']!r}"
ORACLES['corr_large'] = o_corr_large

def job_median_large(res, ns):
    """ground obligations at lengths where library sorts switch algorithm (introsort threshold 16, selection shortcuts): median of pseudo-random, reversed, repeated-value and sorted arrays through the interpreted IR equals the middle order statistic"""
    mod, so = load(HARNESS)
    for n in ns:
        seq = [((i * 7919 + 13) % 1009) / 16.0 - 30.0 for i in range(n)]
        for nm, xv in (('pseudo-random', seq), ('reversed', sorted(seq, reverse=True)), ('repeated values', [float((i * 5) % 7) for i in range(n)]), ('sorted', sorted(seq)), ('organ pipe', sorted(seq)[::2] + sorted(seq, reverse=True)[n % 2::2])):
            m = Machine(mod, max_steps=200_000_000); xp = m.alloc_doubles(xv, 'x')
            try: r = m.call('@h_median', [xp, n])
            except (UB, Throw, Budget) as e: res.absorb(m); res.inc(f'median n={n} {nm}: {type(e).__name__} {str(e)[:100]}'); continue
            res.absorb(m); exp = py_median(xv); ok = (r == exp) and not m.ub_found
            sol = z3.Solver(); sol.add(z3.Not(z3.BoolVal(bool(ok))))
            if timed_check(sol, res) == z3.unsat: res.ob(True, 'ground', f'median of {n} {nm} values == {exp!r}')
            else: confirm(res, PID, HARNESS, 'h_median', [('pf64', xv), ('i32', n)], 'f64', 'median', ORACLES, f'median:large-n:{"even" if n % 2 == 0 else "odd"}', f'median of {n} {nm} values: got {r!r}, expected {exp!r}')

JOBFNS = {'median_large': job_median_large, 'rank_large': job_rank_large, 'sort': job_sort, 'median': job_median, 'medflt': job_medflt, 'rank': job_rank, 'pearson': job_pearson}

def selftest(st):
    mod, so = load(HARNESS); calls = []
    xs = [0.5, -1.0, 3.0, 3.0, 2.0, -4.5, 7.0]
    for n in (1, 2, 3, 5, 7):
        calls.append(('h_sort', [('pf64', xs[:n]), ('i32', n), ('i32', 0), ('pf64', [0.0] * n), ('pi32', [0] * n)], 'i32'))
        calls.append(('h_median', [('pf64', xs[:n]), ('i32', n)], 'f64'))
    calls.append(('h_medflt', [('pf64', xs), ('i32', 7), ('i32', 3), ('f64', 0.25), ('pf64', [0.0] * 7)], 'i32'))
    calls.append(('h_medflt', [('pf64', xs), ('i32', 7), ('i32', 4), ('f64', 0.0), ('pf64', [0.0] * 7)], 'i32'))
    calls.append(('h_medfilt', [('pf64', xs), ('i32', 7), ('i32', 4), ('pf64', [0.0] * 7)], 'i32'))
    for t in range(3): calls.append(('h_corr', [('pf64', xs[:5]), ('pf64', [1.0, 4.0, 2.0, 8.0, -3.0]), ('i32', 5), ('i32', t)], 'f64'))
    nat = native_batch(so, calls)
    for (fn, spec, ret), nres in zip(calls, nat):
        m = Machine(mod); r, outs, _ = sym_call(m, fn, spec, ret); st.selftests += 1
        ok = nres['status'] == 'ok' and same_bits(r, nres['ret']) and all(same_bits(a, b) for o1, o2 in zip(outs, nres['outs']) for a, b in zip(o1, o2))
        if not ok: st.viol('selftest', f'{fn}: symir {r} native {nres.get("ret")}')
        else: st.ob(True, 'concrete')

def main(tier, seed):
    q = tier == 'quick'; jobs = []
    for n in range(1, (6 if q else 7)):
        for d in (0, 1): jobs.append((f'sort n={n} d={d}', 'sort', dict(n=n, desc=d), 1500))
        jobs.append((f'median n={n}', 'median', dict(n=n), 1500))
    for order, nx in ([(3, 4), (4, 4), (5, 5)] if q else [(3, 5), (4, 5), (5, 6), (6, 6)]):
        for f in range(nx):
            jobs.append((f'MedianFilter order={order} nx={nx} r0={f}', 'medflt', dict(kind='stream', order=order, nx=nx, first=f), 2400))
        jobs.append((f'MedianFilter 3 frames order={order}', 'medflt', dict(kind='frames', order=order, nx=min(nx, 4), n1=1), 2400)); jobs.append((f'MedianFilter 3 frames(2) order={order}', 'medflt', dict(kind='frames', order=order, nx=min(nx, 4), n1=2), 2400))
    for order, nx in ([(3, 4), (4, 4)] if q else [(3, 5), (4, 5), (5, 5)]):
        jobs.append((f'medfilt fn order={order} nx={nx}', 'medflt', dict(kind='fn', order=order, nx=nx), 2400))
    for typ in (1, 2):
        for n in ((2, 3, 4) if q else (2, 3, 4, 5)):
            for f in range(n): jobs.append((f'corr type={typ} n={n} r0={f}', 'rank', dict(n=n, typ=typ, first=f), 3000))
    for n, typ in (((1861, 1), (300, 2)) if q else ((1861, 1), (2048, 1), (4099, 1), (300, 2), (1000, 2))): jobs.append((f'rank correlation large n={n} type={typ}', 'rank_large', dict(n=n, typ=typ), 1800))
    for ns in (((16, 17, 33, 34), (64, 101)) if q else ((16, 17, 18, 31, 32), (33, 34, 35, 40), (64, 65, 100, 101), (256, 257, 1000, 1001))): jobs.append((f'median large n={ns}', 'median_large', dict(ns=list(ns)), 900))
    for n in ((2, 3, 4) if q else (2, 3, 4, 5, 6)): jobs.append((f'pearson n={n}', 'pearson', dict(n=n), 600))
    jobs.sort(key=lambda j: -(j[2].get('n', 0) + j[2].get('nx', 0) + j[2].get('order', 0)))
    return run_property(PID, tier, HARNESS, jobs, JOBFNS,
        level_text='All element values are symbolic reals; every feasible comparison path through the real std::sort / insertion code (all weak orderings, ties included) is enumerated and on each '
                   'path z3 decides the order-statistic specification (counting characterisation of the median, permutation + ordering for sort, O(n^2) definitions for Spearman / Kendall on '
                   'every pair of strict orderings; Pearson by polynomial identity of numerator and radicand).',
        assumptions=['values compared as reals (no NaN)', 'rank correlations on tie-free data as the statement says', 'median filter windows with symbolic initial history value'],
        bounds={'sort/median': 'n <= 5 (quick) / 6 (thorough)', 'MedianFilter': 'orders 3..5 (6), 4-6 samples, one and two frames', 'medfilt()': 'orders 3,4 (5)', 'rank correlation': 'n <= 4 (quick) / 5 (thorough)', 'pearson': 'n <= 4 / 6'},
        outside=['lengths above the bound (std::sort switches to introsort partitions at 16 elements: not reached)', 'Pearson in [-1,1] for arbitrary data (Cauchy-Schwarz) is not decided'], seed=seed, selftest=selftest)

def replay(path): return replay_main(path, ORACLES)
