"""C18 — delay estimators and the preamble detector (P-EQ, P-POLY, P-PATH) — partial: recovery on white random signals with noise is a statistical premise and is not decided."""
from common import *
PID = 'C18'; HARNESS = 'C18.cpp'
H_THROW = (-1000000) & 0xffffffff

def o_peakloc(spec, r, extra):
    x = spec[0][1]; n = spec[1][1]; idx = sgn(spec[2][1], 32); cyc = spec[3][1]
    if r['status'] != 'ok': return True, f"peakloc: {r['status']}"
    if not cyc and idx in (0, n - 1): exp = float(idx)
    else:
        l, m_, rr = x[(idx - 1) % n], x[idx], x[(idx + 1) % n]; den = l + rr - 2 * m_
        if den == 0: return False, 'degenerate (flat) parabola'
        exp = idx + (l - rr) / (2 * den)
    return not (abs(r['ret'] - exp) <= 1e-9 * max(1.0, abs(exp))), f"peakloc(x={x[:n]}, idx={idx}, cyclic={bool(cyc)}) = {r['ret']!r}; vertex of the parabola through the three samples around idx is at {exp!r}"
def o_finddelay(spec, r, extra):
    n = spec[1][1]; d = sgn(spec[2][1], 32)
    if r['status'] != 'ok' or r['ret'] == H_THROW: return True, f"finddelay: {r['status']} / threw"
    return sgn(r['ret'], 32) != d, f"finddelay(x, delayseq(x, {d})) = {sgn(r['ret'], 32)} for an impulse-like x of length {n} (x = {spec[0][1][:8]}..)"
def o_gcc(spec, r, extra):
    n = spec[1][1]; d = sgn(spec[2][1], 32); fs = spec[3][1]
    if r['status'] != 'ok': return True, f"gccphat: {r['status']}"
    return abs(r['ret'] * fs - d) > 0.5, f"gccphat(delayseq(x, {d}), x, fs={fs}).tau * fs = {r['ret'] * fs!r}, true shift {d}"
def o_detect(spec, r, extra):
    if r['status'] != 'ok' or r['ret'] == H_THROW: return True, f"detector: {r['status']} / threw"
    L = extra['L']; pos = extra['pos']; nh = spec[1][1]; rl = spec[6][1]; out = r['outs'][2]
    if extra['absent']: return r['ret'] != 0, f"stream without the preamble: {r['ret']} detection(s) reported"
    end = pos + nh - 1
    if r['ret'] != 1: return True, f"preamble ending at stream index {end} (frame length {L}): {r['ret']} detections reported instead of exactly one"
    f, off, score = int(out[0]), int(out[1]), out[2]
    if f != end // L or off != end % L: return True, f"preamble ending at stream index {end}: detection reported in frame {f} at offset {off}, expected frame {end // L} offset {end % L}"
    if abs(score - 1) > 1e-4: return True, f"detection score {score!r} is not near 1 for a clean preamble"
    x = spec[3][1]; pre = out[3:3 + 2 * nh]; exp = x[2 * pos: 2 * pos + 2 * nh]
    return any(abs(a - b) > 1e-12 * max(1, abs(b)) for a, b in zip(pre, exp)), f"returned preamble samples {pre[:6]}.. differ from the received ones {exp[:6]}.."
ORACLES = {'peakloc': o_peakloc, 'finddelay': o_finddelay, 'gcc': o_gcc, 'detect': o_detect}

def job_peakloc(res, n, cplx=False):
    """three symbolic samples around every index: result == vertex of the parabola (rational identity); cyclic and non-cyclic edge handling"""
    mod, so = load(HARNESS)
    if cplx: return
    X = [z3.Real(f'x{i}') for i in range(n)]
    for idx in range(n):
        for cyc in (0, 1):
            m = Machine(mod); xs = [fsym(f'x{i}') for i in range(n)]
            try: r = m.call('@h_peakloc', [m.alloc_doubles(xs, 'x'), n, idx, cyc])
            except (Throw, UB) as e: res.absorb(m); res.inc(f'peakloc n={n} idx={idx}: {type(e).__name__}'); continue
            res.absorb(m); label = f'peakloc n={n} idx={idx} cyclic={bool(cyc)}'
            if not cyc and idx in (0, n - 1): claim = (m.lower(r) if isF(r) else z3.RealVal(Fraction(r))) == idx; pre = []
            else:
                l, mm, rr = X[(idx - 1) % n], X[idx], X[(idx + 1) % n]; den = l + rr - 2 * mm
                claim = (m.lower(r) if isF(r) else z3.RealVal(Fraction(r))) == idx + (l - rr) / (2 * den); pre = [den != 0]
            sol = z3.Solver(); sol.set('timeout', 60000); sol.add(*m.pc); sol.add(*pre); sol.add(z3.Not(claim)); c = sol.check(); res.queries += 1
            if c == z3.unsat: res.ob(True, 'NRA', f'{label}: forall samples. result == idx + (l - r) / (2 (l + r - 2m)) (vertex of the parabola through the three samples)')
            elif c == z3.sat:
                mdl = model_dict(sol); confirm(res, PID, HARNESS, 'h_peakloc', [('pf64', [model_float(mdl, f'x{i}', 1.0 + i * i) for i in range(n)]), ('i32', n), ('i32', idx), ('i32', cyc)], 'f64', 'peakloc', ORACLES, 'peakloc:vertex', f'{label}: not the parabola vertex')
            else: res.inc(f'{label}: undecided')

def job_delayseq(res, n, cplx):
    mod, so = load(HARNESS); w = 2 if cplx else 1; xs = [fsym(f'x{i}') for i in range(n * w)]
    for d in range(-n - 2, n + 3):
        m = Machine(mod)
        try: r, outs, _ = sym_call(m, 'h_delayseq', [('pf64', xs), ('i32', n), ('i32', d & 0xffffffff), ('i32', int(cplx)), ('pf64', [0.0] * (n * w))], 'i32')
        except (Throw, UB) as e: res.absorb(m); res.inc(f'delayseq n={n} d={d}: {type(e).__name__} {str(e)[:100]}'); continue
        res.absorb(m); y = outs[1]
        ok = r == n and all(((y[w * i + q] is xs[w * (i - d) + q]) if 0 <= i - d < n else (not isF(y[w * i + q]) and y[w * i + q] == 0.0)) for i in range(n) for q in range(w))
        sol = z3.Solver(); sol.add(z3.Not(z3.BoolVal(bool(ok)))); res.queries += 1
        if sol.check() == z3.unsat: res.ob(True, 'UF', f'delayseq({"cmplx" if cplx else "real"} x[{n}], {d}): output i is the very input term i-d, zeros elsewhere')
        else: res.inc(f'delayseq n={n} d={d} cplx={cplx}: not an exact shift with zero fill')

def job_finddelay(res, n, cplx):
    """impulse family x = A*delta_j (A symbolic, non-zero), every j and every |d| <= n/4: finddelay(x, delayseq(x, d)) == d"""
    mod, so = load(HARNESS); w = 2 if cplx else 1
    for j in range(n):
        for d in range(-(n // 4), n // 4 + 1):
            if not (0 <= j + d < n): continue
            def setup(m):
                A = z3.Real('A'); m.assume(z3.And(z3.Or(A >= z3.RealVal('1/1000'), A <= z3.RealVal('-1/1000')), A <= 1000, A >= -1000))
                x = [0.0] * (n * w); x[w * j] = fsym('A'); return [m.alloc_doubles(x, 'x'), n, d & 0xffffffff, int(cplx)], None
            rets = []
            for p in explore(mod, '@h_finddelay', setup, max_paths=6, max_steps=50_000_000):
                if p.out != 'ret': res.inc(f'finddelay n={n} j={j} d={d}: path {p.out} {str(p.err)[:150]}'); continue
                res.absorb(p.m); rets.append((p, sgn(p.ret, 32) if isinstance(p.ret, int) else None))
            bad = [p for p, r in rets if r != d]
            sol = z3.Solver(); sol.add(z3.BoolVal(bool(bad) or not rets)); res.queries += 1
            if sol.check() == z3.unsat: res.ob(True, 'NRA-PATH', f'finddelay {"cmplx" if cplx else "real"} n={n}: impulse at {j}, shift {d}: every feasible path ({len(rets)}) over all amplitudes 1e-3 <= |A| <= 1e3 returns {d}')
            else:
                Av = 1.0
                if bad:
                    rr, mdl = bad[0].m.check_model(z3.BoolVal(True)); Av = model_float(mdl, 'A', 1.0)
                x = [0.0] * (n * w); x[w * j] = Av
                confirm(res, PID, HARNESS, 'h_finddelay', [('pf64', x), ('i32', n), ('i32', d & 0xffffffff), ('i32', int(cplx))], 'i32', 'finddelay', ORACLES, 'finddelay:impulse', f'finddelay n={n} impulse at {j} shift {d} amplitude {Av}: wrong delay')

def job_gcc(res, n, fs):
    """gccphat on the impulse family with concrete amplitudes (the PHAT weighting divides by |Y|: symbolic amplitudes leave the decidable fragment): returned tau*fs within half a sample of d"""
    mod, so = load(HARNESS)
    for j in range(n // 4, n // 4 + 3):
        for d in range(-(n // 4), n // 4 + 1):
            if not (0 <= j + d < n): continue
            for A in (1.0, -2.5e-3, 400.0):
                x = [1e-9 * ((i * 7) % 5 - 2) for i in range(n)]; x[j] = A      # tiny deterministic floor keeps |Y| away from 0/0
                m = Machine(mod, max_steps=50_000_000)
                try: r = m.call('@h_gccphat', [m.alloc_doubles(x, 'x'), n, d & 0xffffffff, fs])
                except (Throw, UB) as e: res.absorb(m); res.inc(f'gccphat n={n} d={d}: {type(e).__name__}'); continue
                res.absorb(m); ok = abs(r * fs - d) <= 0.5
                sol = z3.Solver(); sol.add(z3.Not(z3.BoolVal(bool(ok)))); res.queries += 1
                if sol.check() == z3.unsat: res.ob(True, 'ground', f'gccphat n={n} fs={fs}: impulse at {j}, shift {d}, amplitude {A}: tau*fs = {r * fs:.3f}')
                else: confirm(res, PID, HARNESS, 'h_gccphat', [('pf64', x), ('i32', n), ('i32', d & 0xffffffff), ('i32', fs)], 'f64', 'gcc', ORACLES, f'gccphat:shift:{"neg" if d < 0 else "pos"}:fs{"1" if fs == 1 else "n"}', f'gccphat n={n} fs={fs} shift {d}: tau*fs = {r * fs}')

PN = {7: [1, 1, 1, -1, -1, 1, -1], 5: [1, 1, 1, -1, 1], 11: [1, 1, 1, -1, -1, -1, 1, -1, -1, 1, -1]}      # rotated by e^{0.4ik}: normalised sidelobes 0.38 / 0.45 / 0.30 < threshold 0.5 (single-sample peak premise)
def job_detect(res, nh, pos, nframes, absent=False, tscale=1.0, chunk=1):
    """concrete PN preamble (complex, rotated), amplitude A symbolic in [1e-3, 1e3], preamble placed at stream offset pos: exactly one detection at the index of the last preamble sample, samples returned, score^2 ~ 1"""
    mod, so = load(HARNESS); h = []
    for k, v in enumerate(PN[nh]): h += [v * math.cos(0.4 * k), v * math.sin(0.4 * k)]
    ht = [v * tscale for v in h]      # the reference template handed to the constructor may have any power: the score is normalised by it
    mc = Machine(mod); fl = mc.alloc_ints([0], 32, 'fl'); mc.call('@h_detect', [mc.alloc_doubles(ht, 'h'), nh, 0.5, mc.alloc_doubles([0.0] * 4, 'x'), 0, mc.alloc_doubles([0.0] * 4, 'o'), 4, fl, 1]); L = mc.read_ints(fl, 1)[0] * chunk       # L = samples per process() call (chunk frames)
    N = nframes * L; rl = 3 + 2 * nh
    if pos + nh > N: return
    label = f'PreambleDetector PN{nh} frame_len={L}: preamble at stream offset {pos} ({"absent" if absent else "present"}), {nframes} frames' + (f', template scaled by {tscale}' if tscale != 1.0 else '') + (f', {chunk} frames per process() call' if chunk != 1 else '')
    A = z3.Real('A')
    def build(Av):
        x = [0.0] * (2 * N)
        if not absent:
            for k in range(nh): x[2 * (pos + k)] = fbin('fmul', Av, h[2 * k]) if isF(Av) else Av * h[2 * k]; x[2 * (pos + k) + 1] = fbin('fmul', Av, h[2 * k + 1]) if isF(Av) else Av * h[2 * k + 1]
        else:
            # a stream that does not contain the preamble: slow complex exponential whose normalised correlation with the preamble stays below 0.35 (checked below) - and silence when A multiplies 0
            for k in range(N):
                cr, ci = math.cos(0.05 * k), math.sin(0.05 * k)
                x[2 * k] = fbin('fmul', Av, cr) if isF(Av) else Av * cr; x[2 * k + 1] = fbin('fmul', Av, ci) if isF(Av) else Av * ci
        return x
    if absent:      # premise check (exact formula of the detector, unit amplitude): no window of this stream scores above 0.35
        xs = build(1.0); hc = [complex(h[2 * k], h[2 * k + 1]) for k in range(nh)]; rmsh = math.sqrt(sum(abs(v) ** 2 for v in hc) / nh); worst = 0.0
        for i in range(N):
            win = [complex(xs[2 * (i - nh + 1 + k)], xs[2 * (i - nh + 1 + k) + 1]) if i - nh + 1 + k >= 0 else 0j for k in range(nh)]
            cx = sum(hc[k].conjugate() * win[k] for k in range(nh)) / (rmsh * nh); pw = sum(abs(v) ** 2 for v in win) / nh
            worst = max(worst, abs(cx) ** 2 / (pw + 2.2e-16))
        if worst > 0.35 ** 2: res.notes.append(f'{label}: the preamble-free test stream correlates too well with this preamble ({math.sqrt(worst):.2f}); skipped'); return
    if absent and nh != 7:
        # longer preambles: the branch conditions of the FFT-based correlator become polynomials in A that z3 does not decide within the feasibility budget (spurious 'feasible' detection paths);
        # the amplitude is therefore enumerated over five decades (ground obligations) instead of being symbolic - the score is scale-invariant up to the eps guard
        for Av in (1e-3, 0.05, 1.0, 37.0, 1e3):
            m = Machine(mod, max_steps=100_000_000); out = m.alloc_doubles([0.0] * (rl * 4), 'out'); flp = m.alloc_ints([0], 32, 'fl')
            try: cnt = m.call('@h_detect', [m.alloc_doubles(ht, 'h'), nh, 0.5, m.alloc_doubles(build(Av), 'x'), nframes, out, rl, flp, chunk])
            except (Throw, UB) as e: res.absorb(m); res.inc(f'{label}: {type(e).__name__} at amplitude {Av}'); continue
            res.absorb(m); sol = z3.Solver(); sol.add(z3.Not(z3.BoolVal(cnt == 0)))
            if timed_check(sol, res) == z3.unsat: res.ob(True, 'ground', f'{label}: amplitude {Av}: no detection')
            else: confirm(res, PID, HARNESS, 'h_detect', [('pf64', ht), ('i32', nh), ('f64', 0.5), ('pf64', build(Av)), ('i32', nframes), ('pf64', [0.0] * (rl * 4)), ('i32', rl), ('pi32', [0]), ('i32', chunk)], 'i32', 'detect', ORACLES, 'detector:absent', f'{label}: {cnt} detection(s) without a preamble at amplitude {Av}', extra={'L': L, 'pos': pos, 'absent': True})
        return
    def setup(m):
        m.assume(z3.And(A >= z3.RealVal('1/1000'), A <= 1000)); out = m.alloc_doubles([0.0] * (rl * 4), 'out'); fl = m.alloc_ints([0], 32, 'fl')
        return [m.alloc_doubles(ht, 'h'), nh, 0.5, m.alloc_doubles(build(fsym('A')), 'x'), nframes, out, rl, fl, chunk], out
    def cex(Av, why): return confirm(res, PID, HARNESS, 'h_detect', [('pf64', ht), ('i32', nh), ('f64', 0.5), ('pf64', build(Av)), ('i32', nframes), ('pf64', [0.0] * (rl * 4)), ('i32', rl), ('pi32', [0]), ('i32', chunk)], 'i32', 'detect', ORACLES,
                                     f'detector:{"absent" if absent else ("frame-end" if (pos + nh - 1) % L == L - 1 else "inside")}', why, extra={'L': L, 'pos': pos, 'absent': absent})
    end = pos + nh - 1; npaths = 0
    for p in explore(mod, '@h_detect', setup, max_paths=12, max_steps=100_000_000):
        npaths += 1
        if p.out != 'ret':
            res.absorb(p.m) if p.m else None; res.inc(f'{label}: path {p.out} {str(p.err)[:200]}'); continue
        res.absorb(p.m); cnt = p.ret; out = p.m.read_doubles(p.ctx, rl)
        rr, mdl = p.m.check_model(z3.BoolVal(True)); Av = model_float(mdl, 'A', 1.0)
        if absent:
            if cnt == 0: res.ob(True, 'NRA-PATH', f'{label}: path |pc|={len(p.m.pc)}: no detection for every amplitude on the path')
            else: cex(Av, f'{label}: {cnt} detection(s) without a preamble')
            continue
        ok = cnt == 1 and not isF(out[0]) and int(out[0]) == end // L and int(out[1]) == end % L
        if not ok: cex(Av, f'{label}: {cnt} detections / wrong place (frame {out[0]}, offset {out[1]}; expected frame {end // L}, offset {end % L})'); continue
        # score^2 within 1e-6 of 1 and the returned samples are the received preamble, for every amplitude on the path
        sc = out[2]; low = p.m.lower
        claims = []
        if isF(sc): s_ = low(sc); claims.append(z3.And(s_ * s_ <= 1 + z3.RealVal('1/1000000'), s_ * s_ >= 1 - z3.RealVal('1/1000000')))
        else: claims.append(z3.BoolVal(abs(sc - 1) < 1e-6))
        xin = build(fsym('A'))
        same = all((out[3 + q] is xin[2 * pos + q]) or (not isF(out[3 + q]) and not isF(xin[2 * pos + q]) and out[3 + q] == xin[2 * pos + q]) for q in range(2 * nh))
        claims.append(z3.BoolVal(bool(same)))
        sol = z3.Solver(); sol.set('timeout', 120000); sol.add(*p.m.pc); sol.add(z3.Not(z3.And(*claims))); c = sol.check(); res.queries += 1
        if c == z3.unsat: res.ob(True, 'NRA-PATH', f'{label}: path |pc|={len(p.m.pc)}: exactly one detection, offset = index of the last preamble sample, preamble samples returned (same terms), score^2 within 1e-6 of 1 for every amplitude on the path')
        elif c == z3.sat:
            # prefer the extreme amplitudes of the path (a level-dependent score is worst there); fall back to the solver's own model
            Av = model_float(model_dict(sol), 'A', 1.0)
            for lim in (z3.RealVal('2/1000'), z3.RealVal('2/100')):
                sol.push(); sol.add(A <= lim)
                if sol.check() == z3.sat: Av = model_float(model_dict(sol), 'A', Av); sol.pop(); break
                sol.pop()
            cex(Av, f'{label}: score / returned samples wrong')
        else: res.inc(f'{label}: score claim undecided')

JOBFNS = {'peakloc': job_peakloc, 'delayseq': job_delayseq, 'finddelay': job_finddelay, 'gcc': job_gcc, 'detect': job_detect}

def selftest(st):
    x = [0.0] * 16; x[5] = 1.5
    calls = [('h_finddelay', [('pf64', x), ('i32', 16), ('i32', d & 0xffffffff), ('i32', 0)], 'i32') for d in (-3, 0, 2)]
    calls += [('h_peakloc', [('pf64', [0.1, 0.9, 1.4, 0.7, 0.2]), ('i32', 5), ('i32', i), ('i32', c)], 'f64') for i in range(5) for c in (0, 1)]
    calls += [('h_gccphat', [('pf64', [1e-9 * i for i in range(5)] + [2.0] + [1e-9] * 10), ('i32', 16), ('i32', 0xfffffffe), ('i32', 8)], 'f64')]
    selftest_calls(st, HARNESS, calls)

def main(tier, seed):
    q = tier == 'quick'; jobs = []
    for n in ((3, 5) if q else (3, 4, 5, 8)): jobs.append((f'peakloc n={n}', 'peakloc', dict(n=n), 900))
    for n in ((1, 4) if q else (1, 2, 4, 8)):
        for c in (False, True): jobs.append((f'delayseq n={n} c={c}', 'delayseq', dict(n=n, cplx=c), 900))
    for n in ((8,) if q else (8, 16)):
        for c in (False, True): jobs.append((f'finddelay n={n} c={c}', 'finddelay', dict(n=n, cplx=c), 3000))
    for (n, fs) in ([(16, 1), (16, 8)] if q else [(16, 1), (16, 8), (32, 48000)]): jobs.append((f'gccphat n={n} fs={fs}', 'gcc', dict(n=n, fs=fs), 3000))
    for nh in ((7,) if q else (5, 7, 11)):
        fl = (1 << (2 * nh - 1).bit_length()) - nh + 1
        for pos in range(0, 2 * fl): jobs.append((f'detector PN{nh} pos={pos}', 'detect', dict(nh=nh, pos=pos, nframes=3), 1800))
        jobs.append((f'detector PN{nh} absent', 'detect', dict(nh=nh, pos=0, nframes=2, absent=True), 1800))
        for ch in ((2,) if q else (2, 3)):                                   # several frames per process() call: the preamble inside a call, across the call boundary, at the start of the next call
            for pos in sorted({fl - 2, ch * fl - nh + 1, ch * fl - 3, ch * fl - 1, ch * fl} if q else set(range(fl - 3, ch * fl + 2))): jobs.append((f'detector PN{nh} pos={pos} chunk={ch}', 'detect', dict(nh=nh, pos=pos, nframes=2, chunk=ch), 1800))
        for ts in ((4.0, 0.25) if q else (4.0, 0.25, 1000.0, 0.02)):      # reference templates whose power is not 1
            for pos in ((2, fl - 1) if q else (0, 2, fl - 1, fl + 3)): jobs.append((f'detector PN{nh} pos={pos} tscale={ts}', 'detect', dict(nh=nh, pos=pos, nframes=3, tscale=ts), 1800))
            jobs.append((f'detector PN{nh} absent tscale={ts}', 'detect', dict(nh=nh, pos=0, nframes=2, absent=True, tscale=ts), 1800))
    return run_property(PID, tier, HARNESS, jobs, JOBFNS,
        level_text='PARTIAL. delayseq: output i is the very input term i-d with zero fill for every d (real and complex). peakloc: three symbolic samples, result == vertex of the parabola (rational identity), cyclic / non-cyclic edges. '
                   'finddelay on the impulse family x = A*delta_j with A symbolic (1e-3 <= |A| <= 1e3), every j and |d| <= n/4: every feasible path returns d. gccphat on the same family with concrete amplitudes (PHAT weighting leaves the decidable '
                   'fragment), fs 1 and 8. PreambleDetector: concrete PN preamble, symbolic amplitude in [1e-3, 1e3], preamble at every offset modulo the frame length incl. straddling frames: exactly one detection, offset = index of the '
                   'last preamble sample, preamble samples returned (same terms), score^2 within 1e-6 of 1; absent preamble: no detection.',
        assumptions=['REAL arithmetic', 'impulse / clean-preamble signal families instead of white random signals (the statistical premise is outside)'],
        bounds={'finddelay / gccphat': 'n = 8 (16, 32)', 'preamble': 'PN length 7 (5, 11), threshold 0.5, 3 frames', 'peakloc': 'n = 3..5 (8)'},
        outside=['recovery of the shift for white random signals with additive noise (statistical premise)', 'Zadoff-Chu / long preambles, thresholds other than 0.5'], seed=seed, selftest=selftest)

def replay(path): return replay_main(path, ORACLES)
