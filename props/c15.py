"""C15 — prime and power-of-two helpers (P-INT, P-STEP)."""
from common import *
PID = 'C15'; HARNESS = 'C15.cpp'

def sieve(n):
    s = bytearray([1]) * (n + 1); s[0:2] = b'\0\0'
    for i in range(2, int(n ** 0.5) + 1):
        if s[i]: s[i * i::i] = bytearray(len(s[i * i::i]))
    return [i for i in range(n + 1) if s[i]]
P256 = sieve(256)          # independent of the table in lib/primes.cpp
def py_isprime(n):
    if n < 2: return False
    for p in (2, 3, 5, 7, 11, 13, 17, 19, 23, 29, 31, 37):
        if n % p == 0: return n == p
    d = n - 1; r = 0
    while d % 2 == 0: d //= 2; r += 1
    for a in (2, 3, 5, 7, 11, 13, 17):     # deterministic Miller-Rabin for n < 3.4e14
        x = pow(a, d, n)
        if x in (1, n - 1): continue
        for _ in range(r - 1):
            x = x * x % n
            if x == n - 1: break
        else: return False
    return True
def py_factor(n):
    out = []; d = 2
    while d * d <= n:
        while n % d == 0: out.append(d); n //= d
        d += 1
    if n > 1 or not out: out.append(n)
    return out

def prime_spec16(n):
    """z3: n (BV32, < 2^16) is prime  <=>  n >= 2 and no prime p <= 251 other than n itself divides n  (251^2 < 2^16 <= 257^2)"""
    return z3.And(z3.UGE(n, 2), *[z3.Or(n == p, z3.URem(n, p) != 0) for p in P256 if p <= 251])

# ---------------------------------------------------------------- oracles (native replay)
def o_isprime(spec, r, extra):
    n = spec[0][1]
    if r['status'] == 'timeout': return True, f'isprime({n}) did not return within the watchdog ({r["stderr"]}); expected {py_isprime(n)} after <= {int(n ** 0.5)} trial divisions'
    if r['status'] != 'ok': return True, f'isprime({n}) crashed: {r["stderr"][-300:]}'
    return (bool(r['ret']) != py_isprime(n)), f'isprime({n}) = {r["ret"]}, definition says {int(py_isprime(n))}'
def o_factor(spec, r, extra):
    n = spec[0][1]
    if r['status'] == 'timeout': return True, f'factor({n}) did not return within the watchdog'
    if r['status'] != 'ok': return True, f'factor({n}) crashed: {r["stderr"][-300:]}'
    cnt = r['ret']; got = [x & 0xffffffff for x in r['outs'][0][:cnt]] if cnt < 64 else None
    exp = py_factor(n)      # compared as 32-bit patterns: values above INT_MAX are not representable in arr_int and are outside the claim
    return got != exp, f'factor({n}) = {got}, expected {exp}'
def o_nextprime(spec, r, extra):
    n = spec[0][1]
    if r['status'] != 'ok': return True, f'nextprime({n}) {r["status"]}'
    e = n
    while not py_isprime(e): e += 1
    return r['ret'] != e, f'nextprime({n}) = {r["ret"]}, expected {e}'
def o_primes(spec, r, extra):
    n = spec[0][1]
    if r['status'] != 'ok': return True, f'primes({n}) {r["status"]}'
    exp = [p for p in sieve(max(n, 2)) if p <= n]
    got = r['outs'][0][:r['ret']]
    return (r['ret'] != len(exp) or got != exp[:len(got)]), f'primes({n}) returned {r["ret"]} values {got[:8]}.., expected {len(exp)} {exp[:8]}..'
def o_nextpow2(spec, r, extra):
    m = sgn(spec[0][1], 32)
    if r['status'] != 'ok': return True, f'nextpow2({m}) {r["status"]}'
    e = (m - 1).bit_length() if m >= 1 else None
    return sgn(r['ret'], 32) != e, f'nextpow2({m}) = {sgn(r["ret"], 32)}, ceil(log2 m) = {e}'
def o_ispow2(spec, r, extra):
    m = sgn(spec[0][1], 32)
    if r['status'] != 'ok': return True, f'ispow2({m}) {r["status"]}'
    e = int(m >= 1 and (m & (m - 1)) == 0)
    return r['ret'] != e, f'ispow2({m}) = {r["ret"]}, exact test = {e}'
ORACLES = {'isprime': o_isprime, 'factor': o_factor, 'nextprime': o_nextprime, 'primes': o_primes, 'nextpow2': o_nextpow2, 'ispow2': o_ispow2}

def ub_report(res, p, fn, mk_spec, ret, oracle, keypfx):
    """UB obligations found on a path -> confirm under ASan/UBSan build"""
    for kind, msg, model, where in p.m.ub_found:
        spec = mk_spec(model)
        confirm(res, PID, HARNESS, fn, spec, ret, 'ub', {'ub': o_ub}, f'{keypfx}:ub:{kind}', f'undefined behaviour possible: {msg} at {where}', san=True,
                suspect_is_inconclusive=False)
def o_ub(spec, r, extra):
    if r['status'] == 'crash' and ('runtime error' in r['stderr'] or 'AddressSanitizer' in r['stderr']): return True, r['stderr'][-400:]
    if r['status'] == 'timeout': return True, 'hang'
    return False, f"sanitizer build ran clean ({r['status']})"

# ---------------------------------------------------------------- jobs
def job_isprime16(res, lo, hi):
    mod, so = load(HARNESS)
    def setup(m):
        n = bvsym('n', 32); m.assume(z3.UGE(n.e, lo)); m.assume(z3.ULT(n.e, hi)); return [n], n
    for p in explore(mod, '@h_isprime', setup, max_paths=400):
        if p.out != 'ret': res.inc(f'isprime path {p.out}: {p.err}'); continue
        res.absorb(p.m); n = p.ctx.e
        ub_report(res, p, 'h_isprime', lambda mdl: [('i32', model_int(mdl, 'n'))], 'i32', 'isprime', 'isprime')
        sol = z3.Solver(); sol.add(*p.m.pc)
        r = p.ret
        if isinstance(r, int): sol.add(z3.BoolVal(bool(r)) != prime_spec16(n))
        else: sol.add((bve(r, 32) != 0) != prime_spec16(n))
        c = timed_check(sol, res)
        if c == z3.unsat: res.ob(True, 'BV', f'isprime path ret={r} |pc|={len(p.m.pc)}: (pc & ret != prime16(n)) unsat')
        elif c == z3.sat:
            nv = model_int(model_dict(sol), 'n')
            confirm(res, PID, HARNESS, 'h_isprime', [('i32', nv)], 'i32', 'isprime', ORACLES, 'isprime:value', f'isprime disagrees with the definition for n={nv}')
        else: res.inc('isprime16 query unknown')

def job_factor_small(res, lo, hi):
    mod, so = load(HARNESS)
    CAP = 20
    def setup(m):
        n = bvsym('n', 32); m.assume(z3.UGE(n.e, lo)); m.assume(z3.ULT(n.e, hi))
        out = m.alloc_ints([0] * CAP, 32, 'out'); return [n, out, CAP], (n, out)
    for p in explore(mod, '@h_factor', setup, max_paths=6000):
        if p.out != 'ret': res.inc(f'factor path {p.out}: {p.err}'); continue
        res.absorb(p.m); n = p.ctx[0].e
        cnt = p.ret
        if not isinstance(cnt, int): res.inc('factor: symbolic count'); continue
        fs = p.m.read_ints(p.ctx[1], cnt, 32)
        prod = z3.BitVecVal(1, 64); conds = []
        for i, f in enumerate(fs):
            fe = bve(f, 32); prod = prod * z3.ZeroExt(32, fe)
            if n is not None and (cnt > 1 or True): conds.append(z3.Or(prime_spec16(fe), z3.And(cnt == 1, z3.ULE(n, 1), fe == n)))
            if i: conds.append(z3.ULE(bve(fs[i - 1], 32), fe))
        conds.append(prod == z3.ZeroExt(32, n))
        sol = z3.Solver(); sol.add(*p.m.pc); sol.add(z3.Not(z3.And(*conds)))
        c = timed_check(sol, res)
        if c == z3.unsat: res.ob(True, 'BV', f'factor path count={cnt}: product==n, sorted, each prime')
        elif c == z3.sat:
            nv = model_int(model_dict(sol), 'n')
            confirm(res, PID, HARNESS, 'h_factor', [('i32', nv), ('pi32', [0] * 64), ('i32', 64)], 'i32', 'factor', ORACLES, 'factor:value', f'factor wrong for n={nv}')
        else: res.inc('factor query unknown')

def job_primes_small(res, lo, hi, fn):
    """primes(n) / nextprime(n) for n symbolic in [lo,hi): compared with an independent sieve on every path"""
    mod, so = load(HARNESS)
    S = sieve(hi + 200)
    if fn == 'primes':
        CAP = len([p for p in S if p < hi]) + 2
        def setup(m):
            n = bvsym('n', 32); m.assume(z3.UGE(n.e, lo)); m.assume(z3.ULT(n.e, hi)); out = m.alloc_ints([0] * CAP, 32, 'out'); return [n, out, CAP], (n, out)
        for p in explore(mod, '@h_primes', setup, max_paths=3000, max_steps=60_000_000):
            if p.out != 'ret': res.inc(f'primes path {p.out}: {p.err}'); continue
            res.absorb(p.m); n = p.ctx[0].e; cnt = p.ret
            got = p.m.read_ints(p.ctx[1], min(cnt, CAP), 32)
            if any(not isinstance(g, int) for g in got) or not isinstance(cnt, int): res.inc('primes: symbolic outputs'); continue
            # on this path the code returned the concrete list `got`; spec: got == all primes <= n  <=>  got is prefix of S and S[cnt-1] <= n < S[cnt]
            ok_list = got == S[:cnt]
            sol = z3.Solver(); sol.add(*p.m.pc)
            sol.add(z3.Not(z3.And(z3.BoolVal(ok_list), z3.UGE(n, S[cnt - 1]) if cnt else z3.ULT(n, 2), z3.ULT(n, S[cnt]))))
            c = timed_check(sol, res)
            if c == z3.unsat: res.ob(True, 'BV', f'primes path count={cnt}: list == sieve and S[cnt-1] <= n < S[cnt]')
            elif c == z3.sat:
                nv = model_int(model_dict(sol), 'n')
                confirm(res, PID, HARNESS, 'h_primes', [('i32', nv), ('pi32', [0] * CAP), ('i32', CAP)], 'i32', 'primes', ORACLES, 'primes:value', f'primes wrong for n={nv}')
            else: res.inc('primes query unknown')
    else:
        def setup(m):
            n = bvsym('n', 32); m.assume(z3.UGE(n.e, lo)); m.assume(z3.ULT(n.e, hi)); return [n], n
        for p in explore(mod, '@h_nextprime', setup, max_paths=3000, max_steps=60_000_000):
            if p.out != 'ret': res.inc(f'nextprime path {p.out}: {p.err}'); continue
            res.absorb(p.m); n = p.ctx.e; r = p.ret
            if not isinstance(r, int): res.inc('nextprime: symbolic return'); continue
            r = sgn(r, 64)
            prev = max([q for q in S if q < r], default=0)
            sol = z3.Solver(); sol.add(*p.m.pc)
            sol.add(z3.Not(z3.And(z3.BoolVal(r in S), z3.ULE(n, r), z3.UGT(n, prev) if prev else z3.BoolVal(True))))
            c = timed_check(sol, res)
            if c == z3.unsat: res.ob(True, 'BV', f'nextprime path ret={r}: prime, prev prime {prev} < n <= ret')
            elif c == z3.sat:
                nv = model_int(model_dict(sol), 'n')
                confirm(res, PID, HARNESS, 'h_nextprime', [('i32', nv)], 'i64', 'nextprime', ORACLES, 'nextprime:value', f'nextprime wrong for n={nv}')
            else: res.inc('nextprime query unknown')

def o_nextprime2(spec, r, extra):
    a, n = spec[0][1], spec[1][1]
    if r['status'] != 'ok': return True, f'nextprime({a}); nextprime({n}) {r["status"]}'
    e = n
    while not py_isprime(e): e += 1
    return r['ret'] != e, f'after nextprime({a}), nextprime({n}) = {r["ret"]}, expected {e}'
ORACLES['nextprime2'] = o_nextprime2

def job_history(res, first, lo, hi):
    """nextprime(first) followed by nextprime(n), n symbolic: the second answer must be the one a fresh call gives"""
    mod, so = load(HARNESS); S = sieve(hi + 200)
    def setup(m):
        n = bvsym('n', 32); m.assume(z3.UGE(n.e, lo)); m.assume(z3.ULT(n.e, hi)); return [first, n], n
    for p in explore(mod, '@h_nextprime2', setup, max_paths=3000, max_steps=60_000_000):
        if p.out != 'ret': res.inc(f'nextprime history path {p.out}: {p.err}'); continue
        res.absorb(p.m); n = p.ctx.e; r = p.ret
        if not isinstance(r, int): res.inc('nextprime2: symbolic return'); continue
        r = sgn(r, 64); prev = max([q for q in S if q < r], default=0)
        sol = z3.Solver(); sol.add(*p.m.pc); sol.add(z3.Not(z3.And(z3.BoolVal(r in S), z3.ULE(n, r), z3.UGT(n, prev) if prev else z3.BoolVal(True))))
        c = timed_check(sol, res)
        if c == z3.unsat: res.ob(True, 'BV', f'nextprime({first}) then nextprime(n) path ret={r}: smallest prime >= n regardless of the earlier call')
        elif c == z3.sat:
            nv = model_int(model_dict(sol), 'n')
            confirm(res, PID, HARNESS, 'h_nextprime2', [('i32', first), ('i32', nv)], 'i64', 'nextprime2', ORACLES, 'nextprime:history', f'nextprime({nv}) depends on an earlier call nextprime({first})'); return
        else: res.inc('nextprime2 query unknown')

NEXT = '@_ZN6dsplib12_GLOBAL__N_115PrimesGenerator4nextEv'
class StopPath(Exception): pass
def job_guard(res, fn):
    """P-STEP: the generator's next() is replaced by an arbitrary increasing 32-bit value d; for every (n, d) the loop guard must decide
    exactly d*d <= n over the integers: exit => d^2 > n, continue => d^2 <= n (termination within sqrt(n) divisions), divisor found => d < n."""
    mod, so = load(HARNESS)
    if NEXT not in mod.funcs:
        res.inc(f'guard step: {NEXT} not present as an out-of-line function in the IR (inlined?)'); return
    work = [[]]; npaths = 0
    while work and npaths < 400:
        preset = work.pop(); npaths += 1
        m = Machine(mod, preset=preset)
        n = bvsym('n', 32); m.assume(z3.UGT(n.e, 251))
        if fn == 'factor': m.assume(z3.Extract(0, 0, n.e) == 1)    # odd n: the cofactor stays n while no candidate divides (see stub)
        ds = []
        def stub(mm, this):
            if len(ds) == 2: raise StopPath()
            d = z3.BitVec(f'd{len(ds)}', 32)
            mm.assume(z3.UGT(d, ds[-1] if ds else z3.BitVecVal(2, 32)))
            if fn == 'factor': mm.assume(z3.URem(n.e, d) != 0)   # non-dividing candidates only: dividing ones are covered by factor_small; keeps n' == n
            ds.append(d); return BV(d, 32)
        m.override[NEXT] = stub
        stopped = False; r = None
        try:
            if fn == 'isprime': r = m.call('@h_isprime', [n])
            else:
                out = m.alloc_ints([0] * 40, 32, 'out'); r = m.call('@h_factor', [n, out, 40])
        except StopPath: stopped = True
        except Throw as e: res.inc(f'guard {fn}: unexpected throw'); continue
        except UB as e: res.inc(f'guard {fn}: UB {e}'); continue
        work.extend(m.pending); res.absorb(m)
        if not ds: continue
        W = lambda x: z3.ZeroExt(32, x)
        d = ds[-1]
        sol = z3.Solver(); sol.add(*m.pc)
        if stopped:
            # code went on to request a third candidate: it must have seen d1^2 <= n' for the current n' ; we only know n' <= n
            claim = z3.ULE(W(ds[-1]) * W(ds[-1]), W(n.e)); desc = 'continue => d^2 <= n'
        elif fn == 'isprime':
            claim = z3.If(bve(r, 32) != 0, z3.UGT(W(d) * W(d), W(n.e)), z3.ULT(d, n.e)); desc = 'returns prime => d^2 > n; returns composite => divisor d < n'
        else:
            # factor returned: the last candidate must have failed the guard for the *remaining* cofactor; product obligation is checked in job_factor_small.
            cnt = r; fs = m.read_ints(out, cnt, 32) if isinstance(cnt, int) else None
            if fs is None: res.inc('guard factor: symbolic count'); continue
            prod = z3.BitVecVal(1, 64)
            for f in fs: prod = prod * W(bve(f, 32))
            rem = bve(fs[-1], 32) if fs else z3.BitVecVal(1, 32)
            claim = z3.And(prod == W(n.e), z3.Or(z3.UGT(W(d) * W(d), W(rem)), rem == d)); desc = 'factor returns => product == n and d^2 > remaining cofactor'
        sol.add(z3.Not(claim))
        c = timed_check(sol, res)
        if c == z3.unsat: res.ob(True, 'BV', f'{fn} guard step ({len(ds)} symbolic candidates): {desc}')
        elif c == z3.sat:
            mdl = model_dict(sol); nv = model_int(mdl, 'n'); dv = [model_int(mdl, f'd{i}') for i in range(len(ds))]
            # replay inputs: primes n* >= 65521^2 (values for which the real generator reaches a candidate d >= 2^16): the largest one below 2^32 and
            # the first one above the model's n
            t = 2 ** 32 - 1
            while not py_isprime(t): t -= 1
            t2 = max(nv, 65521 * 65521 + 1)
            while t2 < 2 ** 32 and not py_isprime(t2): t2 += 1
            what = f'{fn}: loop guard disagrees with d*d <= n over the integers (solver model n={nv}, candidates d={dv}: "{desc}" fails)'
            for k, t in enumerate([t] + ([t2] if t2 < 2 ** 32 and t2 != t else [])):
                last = (k == 1 or t2 >= 2 ** 32 or t2 == t)
                if fn == 'isprime': ok = confirm(res, PID, HARNESS, 'h_isprime', [('i32', t)], 'i32', 'isprime', ORACLES, 'isprime:guard-wrap', what, timeout=15, suspect_is_inconclusive=last)
                else: ok = confirm(res, PID, HARNESS, 'h_factor', [('i32', t), ('pi32', [0] * 64), ('i32', 64)], 'i32', 'factor', ORACLES, 'factor:guard-wrap', what, timeout=15, suspect_is_inconclusive=last)
                if ok: break
            return
        else: res.inc('guard query unknown')
    if work: res.notes.append(f'guard {fn}: {len(work)} prefixes left unexplored (path cap)')

def job_pow2(res, fn):
    mod, so = load(HARNESS)
    def setup(m):
        v = bvsym('m', 32); m.assume(v.e >= 1); return [v], v
    for p in explore(mod, '@h_' + fn, setup, max_paths=200):
        if p.out != 'ret': res.inc(f'{fn} path {p.out}: {p.err}'); continue
        res.absorb(p.m); v = p.ctx.e; r = p.ret
        ub_report(res, p, 'h_' + fn, lambda mdl: [('i32', model_int(mdl, 'm'))], 'i32', fn, fn)
        sol = z3.Solver(); sol.add(*p.m.pc)
        re = bve(r, 32)
        if fn == 'nextpow2':
            # r = ceil(log2 m): 2^(r-1) < m <= 2^r  (64-bit, r in 0..31)
            r64 = z3.ZeroExt(32, re); m64 = z3.SignExt(32, v); one = z3.BitVecVal(1, 64)
            spec = z3.And(z3.ULE(re, 31), m64 <= (one << r64), z3.Or(re == 0, m64 > (one << (r64 - 1))))
        else:
            spec = (re != 0) == ((v & (v - 1)) == 0)
        sol.add(z3.Not(spec))
        c = timed_check(sol, res)
        if c == z3.unsat: res.ob(True, 'BV', f'{fn} path |pc|={len(p.m.pc)} ret={r}')
        elif c == z3.sat:
            mv = model_int(model_dict(sol), 'm')
            confirm(res, PID, HARNESS, 'h_' + fn, [('i32', mv)], 'i32', fn, ORACLES, f'{fn}:value', f'{fn} wrong for m={sgn(mv, 32)}')
        else: res.inc(f'{fn} query unknown')

NEEDLES = [2047, 3277, 4033, 1373653, 1530787, 25326001, 3215031751, 2152302898 + 1, 4759123141 % 2 ** 32, 561, 1105, 41041, 825265, 321197185, 4294901761 - 2, 4294967291, 4294967279, 4294967295, 2147483647,
           65521 * 65521, 65521 * 65537, 65537 * 65539 % 2 ** 32, 46337 * 46349, 3 * 1431655751, 4294836225, 4294705156 + 1, 3825123056546413051 % 2 ** 32, 341550071728321 % 2 ** 32, 2 ** 31 - 1, 2 ** 31 + 11, 4293001441, 4292870399]
def job_needles(res, ns):
    """ground obligations at adversarial 32-bit values (strong pseudoprimes to small prime bases, Carmichael numbers, products of two primes next to 2^16, the largest 32-bit primes): the interpreted real code must agree with the definition"""
    mod, so = load(HARNESS)
    for n in ns:
        m = Machine(mod, max_steps=400_000_000)
        try: r = m.call('@h_isprime', [n])
        except (Budget, UB, Throw) as e: res.absorb(m); res.inc(f'isprime({n}): {type(e).__name__} {str(e)[:100]}'); continue
        res.absorb(m); ok = bool(r) == py_isprime(n)
        sol = z3.Solver(); sol.add(z3.Not(z3.BoolVal(ok)))
        if timed_check(sol, res) == z3.unsat: res.ob(True, 'ground', f'isprime({n}) == {int(py_isprime(n))}')
        else: confirm(res, PID, HARNESS, 'h_isprime', [('i32', n)], 'i32', 'isprime', ORACLES, f'isprime:needle:{n}', f'isprime({n}) returns {r}, definition says {int(py_isprime(n))}')

def job_pow2_points(res, ks):
    """ground obligations around every power of two (2^k - 1, 2^k, 2^k + 1, 2^k + 2^(k-24), 2^k + 2^(k-23) + 1): nextpow2 / ispow2 through the interpreted code, independent of how the function is written"""
    mod, so = load(HARNESS)
    for k in ks:
        for m_ in sorted({(1 << k) - 1, 1 << k, (1 << k) + 1, (1 << k) + (1 << max(k - 24, 0)), (1 << k) + (1 << max(k - 23, 0)) + 1, 3 << max(k - 1, 0)}):
            if not (1 <= m_ < 2 ** 31): continue
            for fn, exp in (('h_nextpow2', (m_ - 1).bit_length()), ('h_ispow2', int((m_ & (m_ - 1)) == 0))):
                m = Machine(mod)
                try: r = m.call('@' + fn, [m_])
                except (UB, Throw, Unsupported) as e: res.absorb(m); res.inc(f'{fn}({m_}): {type(e).__name__} {str(e)[:80]}'); continue
                res.absorb(m); sol = z3.Solver(); sol.add(z3.Not(z3.BoolVal(sgn(r, 32) == exp)))
                if timed_check(sol, res) == z3.unsat: res.ob(True, 'ground', f'{fn[2:]}({m_}) == {exp}')
                else: confirm(res, PID, HARNESS, fn, [('i32', m_)], 'i32', fn[2:], ORACLES, f'{fn[2:]}:point:2^{k}', f'{fn[2:]}({m_}) returns {sgn(r, 32)}, expected {exp}')

JOBFNS = {'pow2_points': job_pow2_points, 'needles': job_needles, 'history': job_history, 'isprime16': job_isprime16, 'factor_small': job_factor_small, 'primes_small': job_primes_small, 'guard': job_guard, 'pow2': job_pow2}

def selftest(st):
    mod, so = load(HARNESS)
    cases = [('h_isprime', [('i32', n)], 'i32') for n in (0, 1, 2, 3, 4, 5, 6, 25, 49, 251, 253, 257, 65521, 65535, 1000003, 999983 * 3)]
    cases += [('h_nextpow2', [('i32', n)], 'i32') for n in (1, 2, 3, 4, 5, 1023, 1024, 1025, 2 ** 30, 2 ** 30 + 1, 2 ** 31 - 1)]
    cases += [('h_ispow2', [('i32', n)], 'i32') for n in (1, 2, 3, 4, 6, 1024, 2 ** 30)]
    cases += [('h_factor', [('i32', n), ('pi32', [0] * 20), ('i32', 20)], 'i32') for n in (0, 1, 2, 3, 4, 12, 360, 1001, 65521, 65536, 999983)]
    cases += [('h_primes', [('i32', n), ('pi32', [0] * 80), ('i32', 80)], 'i32') for n in (1, 2, 10, 11, 260, 400)]
    cases += [('h_nextprime', [('i32', n)], 'i64') for n in (0, 2, 10, 257, 258, 1000)]
    for fn, spec, ret in cases:
        m = Machine(mod); r, outs, _ = sym_call(m, fn, spec, ret)
        nr, nouts = native_inproc(so, fn, spec, ret)
        st.selftests += 1
        if r != nr or outs != nouts: st.viol('selftest', f'{fn}{spec[:1]} symir {r} {outs} native {nr} {nouts}')
        else: st.ob(True, 'concrete')

def main(tier, seed):
    jobs = []; W1 = 300 if tier == 'quick' else 900; W2 = 300 if tier == 'quick' else 1500      # a healthy quick run needs ~30 s in total
    K = sorted(set(x for x in NEEDLES if 65536 <= x < 2 ** 32))
    for i in range(0, len(K), 2): jobs.append((f'isprime needles {K[i]}..', 'needles', dict(ns=K[i:i + 2]), 600))
    if tier == 'quick':
        edges = [0, 8, 64, 256, 1024, 4096, 16384, 32768, 49152, 65536]
        flim = 1024; plim = 1024
    else:
        edges = [0, 8, 64, 256] + list(range(1024, 65537, 4096)) + [65536]
        edges = sorted(set(edges)); flim = 8192; plim = 4096
    for lo, hi in zip(edges, edges[1:]): jobs.append((f'isprime[{lo},{hi})', 'isprime16', dict(lo=lo, hi=hi), W1))
    fe = [0, 4, 64, 256, 512, 768, 1024] + list(range(2048, flim + 1, 1024))
    fe = [e for e in fe if e <= flim]
    for lo, hi in zip(fe, fe[1:]): jobs.append((f'factor[{lo},{hi})', 'factor_small', dict(lo=lo, hi=hi), W2))
    pe = list(range(0, plim + 1, 256))
    for lo, hi in zip(pe, pe[1:]):
        jobs.append((f'primes[{lo},{hi})', 'primes_small', dict(lo=lo, hi=hi, fn='primes'), W2))
        jobs.append((f'nextprime[{lo},{hi})', 'primes_small', dict(lo=lo, hi=hi, fn='nextprime'), W2))
    jobs += [(f'nextprime history {f}', 'history', dict(first=f, lo=lo, hi=lo + 128), W1) for f in (1000, 300) for lo in (0, 128, 256)]
    jobs += [('guard:isprime', 'guard', dict(fn='isprime'), 600), ('guard:factor', 'guard', dict(fn='factor'), 600)]
    jobs += [('nextpow2', 'pow2', dict(fn='nextpow2'), 600), ('ispow2', 'pow2', dict(fn='ispow2'), 600)]
    jobs += [(f'pow2 points k={k0}..', 'pow2_points', dict(ks=list(range(k0, min(k0 + 8, 31)))), 300) for k0 in (0, 8, 16, 24)]
    return run_property(PID, tier, HARNESS, jobs, JOBFNS,
        level_text='Bounded symbolic execution of the compiled isprime/factor/primes/nextprime/nextpow2/ispow2 with the argument a 32-bit bit-vector; every feasible '
                   'path is compared by z3 with the number-theoretic definition; the sqrt(n) loop guard is checked for every 32-bit (n, d) by one inductive step '
                   'with the prime generator replaced by an arbitrary increasing candidate.',
        assumptions=['generator stub in the guard step: next() returns an arbitrary value > previous and >= 2048 (over-approximates the real generator)',
                     'allocation never fails', 'paths end at the first throw'],
        bounds={'isprime': 'all n < 2^16 (symbolic, complete spec: no prime <= 251 divides n unless equal)', 'factor': f'all n < {flim}', 'primes/nextprime': f'all n < {plim}',
                'loop guard': 'all 32-bit n > 251 and all candidates d in [2048, 2^32), two consecutive candidates', 'nextpow2/ispow2': 'all m in [1, 2^31)'},
        outside=['functional value of isprime/factor for n >= 2^16 beyond the guard step (the 6542-iteration loops are not unrolled)', 'arguments m <= 0 of nextpow2/ispow2'],
        seed=seed, selftest=selftest)

def replay(path): return replay_main(path, dict(ORACLES, ub=o_ub))
