"""C11 — FIR and window designs: lengths, window-length rejection, symmetry, unit DC / Nyquist gain for every cut-off and window (symbolic), window closed forms / symmetry / periodic variant / range (ground) — partial."""
from common import *
import mpmath
mpmath.mp.dps = 40
PID = 'C11'; HARNESS = 'C11.cpp'
H_THROW = (-1000000) & 0xffffffff
FT = ['low', 'high', 'bandpass', 'bandstop']; WK = ['hann', 'hamming', 'blackman', 'blackmanharris', 'gauss', 'cosine', 'tukey', 'kaiser']

def exp_len(n, ft): return n + 2 if (n % 2 == 1 and ft in (1, 3)) else n + 1
def o_fir(spec, r, extra):
    n = spec[0][1]; w1, w2 = spec[1][1], spec[2][1]; ft = spec[3][1]; nw = spec[5][1]; L = exp_len(n, ft)
    desc = f"fir1(n={n}, wn={w1}" + (f", {w2}" if ft >= 2 else '') + f", {FT[ft]}" + (f", custom window[{nw}]" if nw else '') + ')'
    if r['status'] != 'ok': return True, f"{desc}: {r['status']} {r.get('stderr', '')[-200:]}"
    if nw and nw != L: return r['ret'] != H_THROW, f"{desc}: a custom window of the wrong length ({nw} instead of {L}) must be rejected, returned {sgn(r['ret'], 32)} taps"
    if r['ret'] == H_THROW: return True, f"{desc}: threw"
    if r['ret'] != L: return True, f"{desc}: {sgn(r['ret'], 32)} taps, expected {L}"
    h = r['outs'][1][:L]; sc = max(abs(v) for v in h)
    if any(abs(h[i] - h[L - 1 - i]) > 1e-12 * sc for i in range(L)): return True, f"{desc}: impulse response is not symmetric: {h[:3]}.. vs mirrored {h[::-1][:3]}.."
    if (extra or {}).get('mask'):
        ok, txt = mask_ok(h, ft, w1, w2, n)
        if not ok: return True, f"{desc}: {txt}"
    if ft == 0 and abs(sum(h) - 1) > 1e-9: return True, f"{desc}: DC gain {sum(h)!r} instead of 1"
    if ft == 1 and abs(abs(sum((-1) ** i * v for i, v in enumerate(h))) - 1) > 1e-9: return True, f"{desc}: gain at Nyquist {abs(sum((-1) ** i * v for i, v in enumerate(h)))!r} instead of 1"
    return False, 'ok'
def win_ref(kind, n, sym, p, points=None):
    """closed form, 40 digits; periodic variant = first n points of the symmetric window of length n+1"""
    N = n if sym else n + 1; out = []
    for i in (range(n) if points is None else points):
        x = mpmath.mpf(i) / (N - 1) if N > 1 else mpmath.mpf(0)
        if kind == 0: v = 0.5 - 0.5 * mpmath.cos(2 * mpmath.pi * x)
        elif kind == 1: v = mpmath.mpf('0.54') - mpmath.mpf('0.46') * mpmath.cos(2 * mpmath.pi * x)
        elif kind == 2: v = mpmath.mpf('0.42') - 0.5 * mpmath.cos(2 * mpmath.pi * x) + mpmath.mpf('0.08') * mpmath.cos(4 * mpmath.pi * x)
        elif kind == 3: v = mpmath.mpf('0.35875') - mpmath.mpf('0.48829') * mpmath.cos(2 * mpmath.pi * x) + mpmath.mpf('0.14128') * mpmath.cos(4 * mpmath.pi * x) - mpmath.mpf('0.01168') * mpmath.cos(6 * mpmath.pi * x)
        elif kind == 4: t = (i - mpmath.mpf(N - 1) / 2) / (mpmath.mpf(N - 1) / 2); v = mpmath.exp(-0.5 * (mpmath.mpf(p) * t) ** 2)
        elif kind == 5: v = mpmath.sin(mpmath.pi / N * (i + 0.5))
        elif kind == 6:
            r_ = mpmath.mpf(p)
            if r_ <= 0: v = mpmath.mpf(1)
            elif r_ >= 1: v = 0.5 - 0.5 * mpmath.cos(2 * mpmath.pi * x)
            else:
                xx = min(x, 1 - x); v = (1 + mpmath.cos(mpmath.pi * (2 * xx / r_ - 1))) / 2 if xx < r_ / 2 else mpmath.mpf(1)
        else:
            b = mpmath.mpf(p); t = 2 * x - 1; v = mpmath.besseli(0, b * mpmath.sqrt(1 - t * t)) / mpmath.besseli(0, b)
        out.append(v)
    return out
def o_window(spec, r, extra):
    kind, n, sym, p = spec[0][1], spec[1][1], spec[2][1], spec[3][1]
    desc = f"window::{WK[kind]}({n}" + (f", {p}" if kind in (4, 6, 7) else '') + (", periodic" if not sym else '') + ')'
    if r['status'] != 'ok' or r['ret'] == H_THROW: return True, f"{desc}: {r['status']} / threw"
    if r['ret'] != n: return True, f"{desc}: length {sgn(r['ret'], 32)}"
    w = r['outs'][0][:n]; extra = extra or {}; tol = extra.get('tol', 1e-12); pts = extra.get('points') or range(n); ref = dict(zip(pts, win_ref(kind, n, sym, p, pts)))
    for i in pts:
        if w[i] != w[i] or abs(w[i] - float(ref[i])) > tol: return True, f"{desc}: w[{i}] = {w[i]!r}, closed form gives {float(ref[i])!r}"
    for i in range(n):
        if not (-1e-15 <= w[i] <= 1 + 1e-15): return True, f"{desc}: w[{i}] = {w[i]!r} outside [0, 1]"
    if sym and any(abs(w[i] - w[n - 1 - i]) > 0 for i in range(n)): return True, f"{desc}: not symmetric about its centre"
    return False, 'ok'
ORACLES = {'fir': o_fir, 'window': o_window}

def job_fir_sym(res, n, ft, custom):
    """cut-off(s) symbolic, optionally a symbolic custom window: length, symmetry (same terms / negated same terms), unit DC gain (low) / unit Nyquist gain (high)"""
    mod, so = load(HARNESS); L = exp_len(n, ft); cap = n + 4
    m = Machine(mod, max_steps=100_000_000); W1 = z3.Real('w1'); W2 = z3.Real('w2')
    win = [fsym(f'v{i}') for i in range(L)] if custom else []
    label = f'fir1(n={n}, {FT[ft]}, cut-off symbolic' + (', custom window symbolic' if custom else ', default window') + ')'
    def conc(w1=0.3, w2=0.6): return [('i32', n), ('f64', w1), ('f64', w2), ('i32', ft), ('pf64', [0.5 + 0.4 * math.sin(1.0 + i) for i in range(L)] if custom else []), ('i32', L if custom else 0), ('pf64', [0.0] * cap), ('i32', cap)]
    def cex(why, key): return confirm(res, PID, HARNESS, 'h_fir1', conc(), 'i32', 'fir', ORACLES, key, why)
    try: r, outs, _ = sym_call(m, 'h_fir1', [('i32', n), ('f64', fsym('w1')), ('f64', fsym('w2')), ('i32', ft), ('pf64', win), ('i32', len(win)), ('pf64', [0.0] * cap), ('i32', cap)], 'i32'); st = 'ret'
    except Throw: st = 'throw'
    except UB as e: st = 'ub ' + str(e)[:200]
    res.absorb(m)
    if st != 'ret': cex(f'{label}: {st}', f'fir1:{FT[ft]}:{st.split()[0]}'); return
    if m.taken: res.inc(f'{label}: control flow depends on the cut-off'); return
    if r != L: cex(f'{label}: {r} taps instead of {L}', f'fir1:{FT[ft]}:length'); return
    res.ob(True, 'ground', f'{label}: {L} taps')
    h = outs[1][:L]
    def mirror_same(a, b):
        if a is b: return True
        if not isF(a) and not isF(b): return same_bits(a, b)
        return False
    if all(mirror_same(h[i], h[L - 1 - i]) for i in range(L)): res.ob(True, 'UF', f'{label}: h[i] and h[N-i] are the same term for every cut-off' + (' and every window' if custom else '') + ' (exactly linear phase)')
    else:
        low = m.lower; sol = z3.Solver(); sol.set('timeout', 60000); sol.add(*m.pc)
        # libm fact used for the modulated designs: cos is even (glibc's cos(-x) == cos(x) bit-exactly); instantiated for mirrored taps
        def cos_nodes(t, acc, seen):
            if not isF(t) or id(t) in seen: return
            seen.add(id(t))
            if t.op == 'call' and t.args[0] == 'cos': acc.append(t)
            for a in t.args:
                if isF(a): cos_nodes(a, acc, seen)
        for i in range(L // 2):
            A = []; B = []; cos_nodes(h[i], A, set()); cos_nodes(h[L - 1 - i], B, set())
            for a in A:
                for b in B:
                    if a is not b: sol.add(z3.Implies(low(a.args[1]) == -low(b.args[1]), low(a) == low(b)))
        sol.add(z3.Or([(low(h[i]) if isF(h[i]) else z3.RealVal(Fraction(h[i]))) != (low(h[L - 1 - i]) if isF(h[L - 1 - i]) else z3.RealVal(Fraction(h[L - 1 - i]))) for i in range(L // 2)])); c = timed_check(sol, res, 120000)
        if c == z3.unsat: res.ob(True, 'REAL+UF', f'{label}: h[i] == h[N-i] over the reals for every cut-off' + (' and window' if custom else ''))
        else: cex(f'{label}: impulse response is not symmetric', f'fir1:{FT[ft]}:symmetry:{"even" if n % 2 == 0 else "odd"}-order'); return
    if ft in (0, 1):
        # taps are +-(a_i / S) with one shared normaliser S = sum of the prototype taps: abstract every numerator a_i by a fresh real (the identity does not depend on
        # what the prototype taps are), keep S's own structure, and ask for sum != 1 given S != 0 (a prototype with zero sum cannot be normalised)
        low = Lower('REAL'); S = None; terms = []
        for v in h:
            t = v; sg = 1
            while isF(t) and t.op == 'fneg': t = t.args[0]; sg = -sg
            if not (isF(t) and t.op == 'fdiv' and isF(t.args[1]) and (S is None or t.args[1] is S)): S = None; break
            S = t.args[1]; terms.append((sg, t.args[0]))
        sol = z3.Solver(); sol.set('timeout', 120000)
        if S is None:
            low = m.lower; H = [low(v) if isF(v) else z3.RealVal(Fraction(v)) for v in h]
            tot = z3.Sum(H) if ft == 0 else z3.Sum([(-1) ** i * H[i] for i in range(L)]); sol.add(*m.pc)
            sol.add(z3.And(tot != 1, tot != -1) if ft == 1 else tot != 1)
        else:
            # sum_i c_i * (s_i a_i / S) == +-1  <=>  sum_i c_i s_i a_i == +-S   (S != 0): linear once the numerators are abstracted
            for sg, a in terms:
                if isF(a): low.memo[a.id] = z3.Real(f'A_{a.id}')
            lin = z3.Sum([(1 if ft == 0 else (-1) ** i) * sg * (low(a) if isF(a) else z3.RealVal(Fraction(a))) for i, (sg, a) in enumerate(terms)]); Sl = low(S)
            sol.add(z3.And(lin != Sl, lin != -Sl) if ft == 1 else lin != Sl)
        c = timed_check(sol, res, 120000)
        if c == z3.unsat: res.ob(True, 'LRA', f'{label}: ' + ('sum h == 1 (unit gain at DC)' if ft == 0 else '|sum (-1)^i h_i| == 1 (unit gain at Nyquist)') + ' for every cut-off' + (' and window' if custom else '') + ' (prototype sum non-zero)')
        elif c == z3.sat: cex(f'{label}: ' + ('DC gain is not 1' if ft == 0 else 'gain at Nyquist is not 1'), f'fir1:{FT[ft]}:gain:{"even" if n % 2 == 0 else "odd"}-order')
        else: res.inc(f'{label}: gain identity undecided')

def job_fir_reject(res, n, ft):
    """custom windows of every wrong length in L-2..L+3 must be rejected by an exception (the right length accepted)"""
    mod, so = load(HARNESS); L = exp_len(n, ft); cap = n + 8
    for nw in range(max(1, L - 2), L + 4):
        m = Machine(mod, max_steps=100_000_000); win = [0.5 + 0.4 * math.sin(1.0 + i) for i in range(nw)]
        spec = [('i32', n), ('f64', 0.3), ('f64', 0.6), ('i32', ft), ('pf64', win), ('i32', nw), ('pf64', [0.0] * cap), ('i32', cap)]
        try: r, outs, _ = sym_call(m, 'h_fir1', spec, 'i32'); st = 'ret'
        except Throw: st = 'throw'
        except UB as e: st = 'ub'
        res.absorb(m)
        ok = (st == 'ret' and r == L) if nw == L else st == 'throw'
        sol = z3.Solver(); sol.add(z3.Not(z3.BoolVal(bool(ok))))
        if timed_check(sol, res, 120000) == z3.unsat: res.ob(True, 'PATH', f'fir1(n={n}, {FT[ft]}) with a custom window of length {nw}: ' + ('accepted' if nw == L else f'rejected (required {L})'))
        else: confirm(res, PID, HARNESS, 'h_fir1', spec, 'i32', 'fir', ORACLES, f'fir1:{FT[ft]}:window-length:{"longer" if nw > L else "shorter" if nw < L else "exact"}', f'fir1(n={n}, {FT[ft]}): custom window of length {nw} (required {L}): {st}')

def job_windows(res, kind, ns, params):
    """ground obligations per (length, variant, parameter): closed form within 1e-12 , range [0,1], symmetric variant mirror-exact, periodic(n) == first n points of symmetric(n+1) bit-exactly"""
    mod, so = load(HARNESS)
    def run(n, sym, p):
        m = Machine(mod, max_steps=100_000_000); w = m.alloc_doubles([0.0] * n, 'w'); r = m.call('@h_window', [kind, n, sym, p, w]); res.absorb(m); return r, m.read_doubles(w, n)
    for n in ns:
        for p in params:
            for sym in ((1, 0) if kind not in (6, 7) else (1,)):
                label = f'window::{WK[kind]}({n}' + (f', {p}' if kind in (4, 6, 7) else '') + ('' if sym else ', periodic') + ')'
                try: r, w = run(n, sym, p)
                except (Throw, UB) as e: res.inc(f'{label}: {type(e).__name__} {str(e)[:100]}'); continue
                ref = win_ref(kind, n, sym, p); tol = 1e-12
                ok = r == n and all(abs(w[i] - float(ref[i])) <= tol for i in range(n)) and all(-1e-15 <= v <= 1 + 1e-15 for v in w) and (not sym or all(w[i] == w[n - 1 - i] for i in range(n)))
                if ok and not sym:
                    r2, w2 = run(n + 1, 1, p); ok = all(same_bits(a, b) for a, b in zip(w, w2[:n]))
                sol = z3.Solver(); sol.add(z3.Not(z3.BoolVal(bool(ok))))
                if timed_check(sol, res, 120000) == z3.unsat: res.ob(True, 'ground', f'{label}: closed form (|err| <= {tol}), range [0,1]' + (', mirror-exact' if sym else ', equals the first n points of the symmetric window of length n+1 bit-exactly'))
                else: confirm(res, PID, HARNESS, 'h_window', [('i32', kind), ('i32', n), ('i32', sym), ('f64', p), ('pf64', [0.0] * n)], 'i32', 'window', ORACLES, f'window:{WK[kind]}:{"sym" if sym else "periodic"}', f'{label}: closed form / range / symmetry / periodic-variant clause fails', extra={'tol': tol})

def job_gauss_sym(res, n):
    """gauss with symbolic alpha: symmetric variant h[i] and h[n-1-i] are the same term; every value is exp(y) with y <= 0 for all alpha (axiom: 0 < exp(y) <= 1 for y <= 0)"""
    mod, so = load(HARNESS); m = Machine(mod, max_steps=100_000_000); w = m.alloc_doubles([0.0] * n, 'w')
    try: r = m.call('@h_window', [4, n, 1, fsym('alpha'), w])
    except (Throw, UB) as e: res.absorb(m); res.inc(f'gauss n={n} symbolic alpha: {type(e).__name__}'); return
    res.absorb(m); v = m.read_doubles(w, n)
    ok = all((v[i] is v[n - 1 - i]) for i in range(n)) and all(isF(x) and x.op == 'call' and x.args[0] == 'exp' for x in v)
    sol = z3.Solver(); sol.set('timeout', 60000); sol.add(*m.pc)
    sol.add(z3.Or(z3.Not(z3.BoolVal(bool(ok))), *[m.lower(x.args[1]) > 0 for x in v if isF(x) and x.op == 'call'])); c = timed_check(sol, res, 120000)
    if c == z3.unsat: res.ob(True, 'NRA+UF', f'window::gauss({n}, alpha) for every alpha: mirror-exact (same terms) and every value is exp(y) with y <= 0, hence in (0, 1]')
    else: res.inc(f'gauss n={n} symbolic alpha: {c}')

def mask_ok(h, ft, w1, w2, n):
    """Hamming-design masks on a 4096-point frequency grid; -> (ok, text)"""
    import numpy as np
    H = np.abs(np.fft.rfft(np.array(h), 8192)); f = np.arange(len(H)) / (len(H) - 1); tw = 4.0 / (n + 1)
    edges = [w1] if ft < 2 else [w1, w2]
    band = np.searchsorted(edges, f)            # band index per grid frequency
    passing = {0: [0], 1: [1], 2: [1], 3: [0, 2]}[ft]
    clear = np.ones(len(f), bool)
    for e in edges: clear &= np.abs(f - e) > tw
    for b in range(len(edges) + 1):
        sel = clear & (band == b)
        if not sel.any(): continue
        if b in passing:
            d = np.max(np.abs(H[sel] - 1))
            if d > 0.02: return False, f'pass-band deviates from unity by {d:.4f} at f={f[sel][np.argmax(np.abs(H[sel] - 1))]:.4f}'
        else:
            d = np.max(H[sel])
            if d > 0.02: return False, f'stop-band reaches {d:.4f} at f={f[sel][np.argmax(H[sel])]:.4f}'
    return True, 'ok'

def job_masks(res, n, ft, cuts):
    """default (Hamming) design, concrete cut-offs on a grid with every band wider than 16/(n+1): taps computed by the real code (interpreted IR), response evaluated on 4096 frequencies - ground obligations"""
    mod, so = load(HARNESS); cap = n + 4
    for (w1, w2) in cuts:
        m = Machine(mod, max_steps=100_000_000); spec = [('i32', n), ('f64', w1), ('f64', w2), ('i32', ft), ('pf64', []), ('i32', 0), ('pf64', [0.0] * cap), ('i32', cap)]
        try: r, outs, _ = sym_call(m, 'h_fir1', spec, 'i32')
        except (Throw, UB) as e: res.absorb(m); res.inc(f'fir1 masks n={n} {FT[ft]}: {type(e).__name__}'); continue
        res.absorb(m); ok, txt = mask_ok(outs[1][:r], ft, w1, w2, n)
        label = f'fir1(n={n}, ' + (f'{w1}' if ft < 2 else f'{w1}, {w2}') + f', {FT[ft]}, Hamming)'
        sol = z3.Solver(); sol.add(z3.Not(z3.BoolVal(bool(ok))))
        if timed_check(sol, res) == z3.unsat: res.ob(True, 'ground', f'{label}: pass-bands within 2 % of unity, stop-bands below 0.02 outside the 4/(n+1) transition regions')
        else: confirm(res, PID, HARNESS, 'h_fir1', spec, 'i32', 'fir', ORACLES, f'fir1:{FT[ft]}:mask', f'{label}: {txt}', extra={'mask': True})

def job_window_long(res, kind, n, p):
    """ground obligations at a length beyond 2^16 (index squares reach 2^32): closed form at 64 sampled positions (both ends, the centre, a stride), range [0,1] and mirror symmetry at every position"""
    mod, so = load(HARNESS); m = Machine(mod, max_steps=600_000_000); wbuf = m.alloc_doubles([0.0] * n, 'w')
    label = f'window::{WK[kind]}({n}' + (f', {p}' if kind in (4, 6, 7) else '') + ')'
    try: r = m.call('@h_window', [kind, n, 1, p, wbuf])
    except (Throw, UB, Budget) as e: res.absorb(m); res.inc(f'{label}: {type(e).__name__} {str(e)[:100]}'); return
    res.absorb(m); w = m.read_doubles(wbuf, n)
    pts = sorted(set([0, 1, 2, n // 2 - 1, n // 2, n // 2 + 1, n - 3, n - 2, n - 1] + list(range(0, n, max(n // 55, 1)))))
    ref = win_ref(kind, n, 1, p, pts)
    ok = r == n and all(w[i] == w[i] and abs(w[i] - float(e)) <= 1e-12 for i, e in zip(pts, ref)) and all(-1e-15 <= v <= 1 + 1e-15 for v in w) and all(w[i] == w[n - 1 - i] for i in range(n // 2)) and not m.ub_found
    sol = z3.Solver(); sol.add(z3.Not(z3.BoolVal(bool(ok))))
    if timed_check(sol, res) == z3.unsat: res.ob(True, 'ground', f'{label}: closed form at {len(pts)} positions, range and symmetry at all {n} positions, no UB')
    else: confirm(res, PID, HARNESS, 'h_window', [('i32', kind), ('i32', n), ('i32', 1), ('f64', p), ('pf64', [0.0] * n)], 'i32', 'window', ORACLES, f'window:{WK[kind]}:long', f'{label}: closed form / range / symmetry fails at a length above 2^16', extra={'tol': 1e-12, 'points': pts}, timeout=120)

JOBFNS = {'window_long': job_window_long, 'masks': job_masks, 'fir_sym': job_fir_sym, 'fir_reject': job_fir_reject, 'windows': job_windows, 'gauss_sym': job_gauss_sym}

def selftest(st):
    calls = [('h_fir1', [('i32', n), ('f64', 0.3), ('f64', 0.6), ('i32', ft), ('pf64', []), ('i32', 0), ('pf64', [0.0] * 16), ('i32', 16)], 'i32') for n in (4, 7, 10) for ft in range(4)]
    calls += [('h_window', [('i32', k), ('i32', n), ('i32', s_), ('f64', 2.5 if k != 6 else 0.4), ('pf64', [0.0] * n)], 'i32') for k in range(8) for n in (5, 8) for s_ in (1, 0)]
    selftest_calls(st, HARNESS, calls)

def main(tier, seed):
    q = tier == 'quick'; jobs = []
    orders = (2, 3, 4, 5, 6, 9, 16, 25, 40) if q else tuple(range(2, 41)) + (64, 101, 128)
    for n in orders:
        for ft in range(4):
            jobs.append((f'fir1 n={n} {FT[ft]}', 'fir_sym', dict(n=n, ft=ft, custom=False), 900))
            if n <= (9 if q else 24): jobs.append((f'fir1 n={n} {FT[ft]} custom', 'fir_sym', dict(n=n, ft=ft, custom=True), 900))
    for n in ((4, 7) if q else (3, 4, 7, 10, 15)):
        for ft in range(4): jobs.append((f'fir1 window length n={n} {FT[ft]}', 'fir_reject', dict(n=n, ft=ft), 600))
    ns = (3, 4, 5, 7, 8, 16, 33, 64) if q else tuple(range(3, 65)) + (100, 127, 256, 511, 512)
    for kind in range(8):
        params = {4: (0.5, 2.5, 6.0), 6: (-0.5, 0.0, 0.3, 0.5, 1.0, 1.5), 7: (0.0, 0.5, 5.0, 10.0, 20.0, 40.0)}.get(kind, (0.0,))
        for i in range(0, len(ns), 8): jobs.append((f'{WK[kind]} lengths {ns[i]}..', 'windows', dict(kind=kind, ns=ns[i:i + 8], params=params), 1500))
    for n in ((47, 64) if q else (40, 47, 64, 65, 100, 127)):
        g = 16.0 / (n + 1) * 1.02; K = 4 if q else 9
        for ft in range(4):
            if ft < 2: cuts = [(g + (1 - 2 * g) * k / (K - 1), 0.0) for k in range(K)]
            else: cuts = [(a, b) for a in [g + (1 - 3 * g) * k / (K - 1) for k in range(K)] for b in [a + g + (1 - 2 * g - a) * j / 2 for j in range(3)] if b < 1 - g + 1e-12 and b - a >= g - 1e-12]
            if cuts: jobs.append((f'fir1 masks n={n} {FT[ft]}', 'masks', dict(n=n, ft=ft, cuts=cuts), 900))
    for (kind, n, p) in ([(7, 65537, 0.5), (0, 65537, 0.0)] if q else [(7, 65537, 0.5), (7, 70001, 2.0), (7, 92683, 0.5)] + [(k, 65537, 2.5 if k == 4 else 0.4) for k in range(7)]):
        jobs.append((f'{WK[kind]} length {n}', 'window_long', dict(kind=kind, n=n, p=p), 1500))
    for n in ((3, 8) if q else (3, 4, 8, 17, 64)): jobs.append((f'gauss symbolic alpha n={n}', 'gauss_sym', dict(n=n), 600))
    return run_property(PID, tier, HARNESS, jobs, JOBFNS,
        level_text='PARTIAL. fir1 (low / high / bandpass / bandstop) with the cut-off(s) symbolic and, optionally, a fully symbolic custom window (sin / cos uninterpreted): tap count n+1 / n+2; h[i] and h[N-i] are the same term for every '
                   'cut-off and window (exact linear phase); sum h == 1 (low-pass) and |sum (-1)^i h_i| == 1 (high-pass) as rational identities given a non-zero prototype sum; custom windows of every wrong length in L-2..L+3 end in a throw. '
                   'Windows: per length / variant / parameter the values computed by the real code equal the 40-digit closed form within 1e-12, lie in [0,1], are mirror-exact, and periodic(n) is bit-identical to the first n points of '
                   'symmetric(n+1); gauss for every alpha: mirror-exact and exp of a non-positive argument.',
        assumptions=['cos(-x) == cos(x) (even), instantiated for mirrored taps of band-pass / band-stop designs', 'window values at concrete lengths / parameters are ground facts (no quantified input): they are checked exhaustively over the stated grid, not by a solver', 'axiom 0 < exp(y) <= 1 for y <= 0'],
        bounds={'fir1 orders': str(orders), 'window lengths': f'{ns[0]}..{ns[-1]} ({len(ns)} lengths) + kaiser / hann at 65537 (thorough: all windows at 65537, kaiser 70001, 92683)', 'parameters': 'gauss alpha {0.5, 2.5, 6}, tukey r in [-0.5, 1.5], kaiser beta <= 40'},
        outside=['the Hamming-design magnitude masks for cut-offs between the grid points (transcendental in the cut-off: only ground instances on a cut-off grid are checked, from taps computed by the interpreted real code)', 'window lengths above the grid'],
        seed=seed, selftest=selftest)

def replay(path): return replay_main(path, ORACLES)
