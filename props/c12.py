"""C12 — adaptive filters: a-priori error, output from the coefficients held before the update, lock, update rules, RLS normal equations (P-EQ, P-POLY) — convergence is not decided."""
from common import *
PID = 'C12'; HARNESS = 'C12.cpp'
H_THROW = (-1000000) & 0xffffffff
KN = ['LMS', 'NLMS', 'RLS', 'LMS cmplx', 'NLMS cmplx', 'RLS cmplx']
EPSD = 2.0 ** -52

# ---------------------------------------------------------------- exact reference recursion (Fractions), real-valued kinds
def ref_run(kind, L, p1, p2, x, d, lockmask):
    F_ = Fraction; p1 = F_(p1); p2 = F_(p2); x = [F_(v) for v in x]; d = [F_(v) for v in d]; n = len(x)
    c = [F_(0)] * L; ys = []; es = []; wb = []
    P = [[p2 if i == j else F_(0) for j in range(L)] for i in range(L)]
    for k in range(n):
        u = [x[k - j] if k - j >= 0 else F_(0) for j in range(L)]
        wb.append(list(c)); y = sum(a * b for a, b in zip(c, u)); e = d[k] - y; ys.append(y); es.append(e)
        if (lockmask >> k) & 1: continue
        if kind == 0: c = [c[j] * p2 + p1 * e * u[j] for j in range(L)]
        elif kind == 1:
            nrm = sum(v * v for v in u) + F_(EPSD); c = [c[j] * p2 + p1 * e * u[j] / nrm for j in range(L)]
        else:
            Pu = [sum(P[i][j] * u[j] for j in range(L)) for i in range(L)]; uP = [sum(u[i] * P[i][j] for i in range(L)) for j in range(L)]
            den = p1 + sum(uP[j] * u[j] for j in range(L)); g = [v / den for v in Pu]
            P = [[(P[i][j] - g[i] * uP[j]) / p1 for j in range(L)] for i in range(L)]
            c = [c[j] + g[j] * e for j in range(L)]
    return ys, es, wb, c
class CF:
    """exact complex rational"""
    __slots__ = ('re', 'im')
    def __init__(s, re=0, im=0): s.re = Fraction(re); s.im = Fraction(im)
    def __add__(a, b): b = b if isinstance(b, CF) else CF(b); return CF(a.re + b.re, a.im + b.im)
    def __sub__(a, b): b = b if isinstance(b, CF) else CF(b); return CF(a.re - b.re, a.im - b.im)
    def __mul__(a, b): b = b if isinstance(b, CF) else CF(b); return CF(a.re * b.re - a.im * b.im, a.re * b.im + a.im * b.re)
    def conj(a): return CF(a.re, -a.im)
    def __truediv__(a, b):
        b = b if isinstance(b, CF) else CF(b); q = b.re * b.re + b.im * b.im; t = a * b.conj(); return CF(t.re / q, t.im / q)
def ref_run_c(kind, L, p1, p2, x, d, lockmask):
    """complex kinds 3 LMS, 4 NLMS, 5 RLS with the library's convention y = sum_j w[j] x[k-j] (plain product): steepest descent on |e|^2 moves w along e*conj(u);
    RLS: g = P u / (lam + u^H P u), P <- (P - g u^H P)/lam, w <- w + conj(g) e (the standard recursion for conj(w))."""
    p1 = Fraction(p1); p2 = Fraction(p2); n = len(x) // 2
    xc = [CF(x[2 * i], x[2 * i + 1]) for i in range(n)]; dc = [CF(d[2 * i], d[2 * i + 1]) for i in range(n)]
    c = [CF() for _ in range(L)]; ys = []; es = []; wb = []; P = [[CF(p2) if i == j else CF() for j in range(L)] for i in range(L)]
    csum = lambda it: sum(it, CF())
    for k in range(n):
        u = [xc[k - j] if k - j >= 0 else CF() for j in range(L)]
        wb.append(list(c)); y = csum(a * b for a, b in zip(c, u)); e = dc[k] - y; ys.append(y); es.append(e)
        if (lockmask >> k) & 1: continue
        if kind == 3: c = [c[j] * p2 + e * u[j].conj() * p1 for j in range(L)]
        elif kind == 4:
            nrm = sum(v.re * v.re + v.im * v.im for v in u) + Fraction(EPSD); c = [c[j] * p2 + e * u[j].conj() * (p1 / nrm) for j in range(L)]
        else:
            Pu = [csum(P[i][j] * u[j] for j in range(L)) for i in range(L)]; uP = [csum(u[i].conj() * P[i][j] for i in range(L)) for j in range(L)]
            den = csum(uP[j] * u[j] for j in range(L)) + p1; g = [v / den for v in Pu]
            P = [[(P[i][j] - g[i] * uP[j]) / p1 for j in range(L)] for i in range(L)]
            c = [c[j] + g[j].conj() * e for j in range(L)]
    return ys, es, wb, c
def o_adapt_c(spec, r, desc):
    kind, L = spec[0][1], spec[1][1]; p1, p2 = spec[2][1], spec[3][1]; x = spec[4][1]; d = spec[5][1]; n = spec[6][1]; lm = spec[7][1]
    y, e, wb, wf = r['outs'][2][:2 * n], r['outs'][3][:2 * n], r['outs'][4][:2 * n * L], r['outs'][5][:2 * L]
    try: ys, es, wbr, cf = ref_run_c(kind, L, p1, p2, x, d, lm)
    except ZeroDivisionError: return False, 'reference recursion undefined for this input (division by zero)'
    sc = max([abs(float(v)) for v in x + d] + [1.0])
    def bad(a, b): return abs(a - float(b)) > 1e-8 * max(sc, abs(float(b)))
    fl = lambda z: (float(z.re), float(z.im))
    for k in range(n):
        if not (same_bits(e[2 * k], d[2 * k] - y[2 * k]) and same_bits(e[2 * k + 1], d[2 * k + 1] - y[2 * k + 1])): return True, f"{desc}: e[{k}] = {e[2 * k:2 * k + 2]} is not d[{k}] - y[{k}]"
        if bad(y[2 * k], ys[k].re) or bad(y[2 * k + 1], ys[k].im): return True, f"{desc}: y[{k}] = {y[2 * k:2 * k + 2]}; the coefficient vector held before sample {k} gives {fl(ys[k])}"
        for j in range(L):
            i = 2 * (k * L + j)
            if bad(wb[i], wbr[k][j].re) or bad(wb[i + 1], wbr[k][j].im): return True, f"{desc}: coefficients before sample {k} are {wb[2 * k * L:2 * (k + 1) * L]} (re/im interleaved), the reference recursion has {[fl(v) for v in wbr[k]]}"
    for j in range(L):
        if bad(wf[2 * j], cf[j].re) or bad(wf[2 * j + 1], cf[j].im): return True, f"{desc}: final coefficients {wf} (re/im interleaved), reference recursion {[fl(v) for v in cf]}"
    return False, 'ok'
def o_adapt(spec, r, extra):
    kind, L = spec[0][1], spec[1][1]; p1, p2 = spec[2][1], spec[3][1]; x = spec[4][1]; d = spec[5][1]; n = spec[6][1]; lm = spec[7][1]
    desc = f"{KN[kind]}(len={L}, {p1}, {p2}) lock schedule {lm:0{n}b}"
    if r['status'] != 'ok' or r['ret'] == H_THROW: return True, f"{desc}: {r['status']} / threw"
    if kind >= 3: return o_adapt_c(spec, r, desc)
    y, e, wb, wf = r['outs'][2][:n], r['outs'][3][:n], r['outs'][4][:n * L], r['outs'][5][:L]
    try: ys, es, wbr, cf = ref_run(kind, L, p1, p2, x, d, lm)
    except ZeroDivisionError: return False, 'reference recursion undefined for this input (division by zero)'
    sc = max([abs(float(v)) for v in x + d] + [1.0])
    def bad(a, b): return abs(a - float(b)) > 1e-8 * max(sc, abs(float(b)))
    for k in range(n):
        if not same_bits(e[k], d[k] - y[k]): return True, f"{desc}: e[{k}] = {e[k]!r} but d[{k}] - y[{k}] = {d[k] - y[k]!r}"
        if bad(y[k], ys[k]): return True, f"{desc}: y[{k}] = {y[k]!r}; the coefficient vector held before sample {k} gives {float(ys[k])!r}"
        for j in range(L):
            if bad(wb[k * L + j], wbr[k][j]): return True, f"{desc}: coefficients before sample {k} are {wb[k * L:(k + 1) * L]}, the reference recursion has {[float(v) for v in wbr[k]]}"
    for j in range(L):
        if bad(wf[j], cf[j]): return True, f"{desc}: final coefficients {wf}, reference recursion {[float(v) for v in cf]}"
    return False, 'ok'
ORACLES = {'adapt': o_adapt}

def job_adapt(res, kind, L, n, lockmask, normal_eq=False):
    mod, so = load(HARNESS); cplx = kind >= 3; w = 2 if cplx else 1
    xn = [f'x{i}' for i in range(n * w)]; dn = [f'd{i}' for i in range(n * w)]
    label = f'{KN[kind]} len={L} n={n} locks={lockmask:0{n}b}'
    conc = {0: (0.05, 0.9), 1: (0.5, 1.0), 2: (0.95, 2.0), 3: (0.05, 1.0), 4: (0.5, 0.95), 5: (0.9, 2.0)}[kind]
    def setup(m):
        a = [kind, L, fsym('p1'), fsym('p2'), m.alloc_doubles([fsym(s) for s in xn], 'x'), m.alloc_doubles([fsym(s) for s in dn], 'd'), n, lockmask]
        outs = [m.alloc_doubles([0.0] * (n * w), 'y'), m.alloc_doubles([0.0] * (n * w), 'e'), m.alloc_doubles([0.0] * (n * L * w), 'wb'), m.alloc_doubles([0.0] * (L * w), 'wf')]
        return a + outs, outs
    def mk(mdl):
        f = lambda nm, dflt: model_float(mdl, nm, dflt) if nm in mdl else dflt
        return [('i32', kind), ('i32', L), ('f64', f('p1', conc[0])), ('f64', f('p2', conc[1])), ('pf64', [f(s, 0.3 + 0.2 * i) for i, s in enumerate(xn)]), ('pf64', [f(s, -0.4 + 0.3 * i) for i, s in enumerate(dn)]), ('i32', n), ('i32', lockmask),
                ('pf64', [0.0] * (n * w)), ('pf64', [0.0] * (n * w)), ('pf64', [0.0] * (n * L * w)), ('pf64', [0.0] * (L * w))]
    def cex(mdl, why, key):
        if not confirm(res, PID, HARNESS, 'h_adapt', mk(mdl), 'i32', 'adapt', ORACLES, key, why, suspect_is_inconclusive=False):
            return confirm(res, PID, HARNESS, 'h_adapt', mk({}), 'i32', 'adapt', ORACLES, key, why + ' (generic input)')
        return True
    for p in explore(mod, '@h_adapt', setup, max_paths=24, max_steps=50_000_000):
        if p.out == 'pathbudget': res.inc(f'{label}: more than 24 data-dependent paths'); break
        if p.out != 'ret':
            res.absorb(p.m) if p.m else None; rr, mdl = p.m.check_model(z3.BoolVal(True)) if p.m else (None, {}); cex(mdl, f'{label}: {p.out} {str(p.err)[:200]}', f'adapt:{KN[kind]}:{p.out}'); continue
        res.absorb(p.m); yp, ep, wbp, wfp = p.ctx
        y = p.m.read_doubles(yp, n * w); e = p.m.read_doubles(ep, n * w); wb = p.m.read_doubles(wbp, n * L * w); wf = p.m.read_doubles(wfp, L * w)
        xs = [fsym(s) for s in xn]; ds = [fsym(s) for s in dn]; low = p.m.lower; Lz = lambda v: low(v) if isF(v) else z3.RealVal(Fraction(v))
        forked = len(p.m.taken) > 0
        # (1) e[k] is exactly d[k] - y[k]
        ok1 = all(isF(e[i]) and e[i].op == 'fsub' and e[i].args[0] is ds[i] and (e[i].args[1] is y[i] or (not isF(y[i]) and not isF(e[i].args[1]) and same_bits(e[i].args[1], y[i]))) for i in range(n * w))
        sol = z3.Solver(); sol.add(z3.Not(z3.BoolVal(bool(ok1)))); res.queries += 1
        if sol.check() == z3.unsat: res.ob(True, 'UF', f'{label}: e[k] is the term d[k] - y[k] for every k (bit-exact a-priori error)')
        else: cex({}, f'{label}: e[k] is not d[k] - y[k]', f'adapt:{KN[kind]}:error'); continue
        # (2) y[k] == sum_j coeffs_before_k[j] * x[k-j]  (plain product, real and complex)
        X = [z3.Real(s) for s in xn]; bad2 = []
        for k in range(n):
            if not cplx:
                ref = z3.Sum([Lz(wb[k * L + j]) * X[k - j] for j in range(L) if k - j >= 0] + [z3.RealVal(0)]); bad2.append(Lz(y[k]) != ref)
            else:
                re = z3.RealVal(0); im = z3.RealVal(0)
                for j in range(L):
                    if k - j < 0: continue
                    cr, ci = Lz(wb[2 * (k * L + j)]), Lz(wb[2 * (k * L + j) + 1]); xr, xi = X[2 * (k - j)], X[2 * (k - j) + 1]
                    re = re + cr * xr - ci * xi; im = im + cr * xi + ci * xr
                bad2 += [Lz(y[2 * k]) != re, Lz(y[2 * k + 1]) != im]
        sol = z3.Solver(); sol.set('timeout', 20000 if forked else 120000); sol.add(*p.m.pc); sol.add(z3.Or(bad2)); t0 = time.time(); c = sol.check(); res.queries += 1; res.solver_s += time.time() - t0
        if c == z3.unsat: res.ob(True, 'NRA', f'{label}: forall x, d, step sizes. y[k] == sum_j coeffs()[j] * x[k-j] with the coefficients read BEFORE sample k')
        elif c == z3.sat: cex(model_dict(sol), f'{label}: y[k] is not the output of the coefficient vector held before sample k', f'adapt:{KN[kind]}:apriori'); continue
        elif forked: res.notes.append(f'{label}: a-priori output identity undecided on a data-dependent path (|pc|={len(p.m.pc)}); the path is replayed natively against the reference recursion below')
        else: res.inc(f'{label}: a-priori output identity undecided')
        # (3) locked samples leave coeffs() untouched (same terms)
        nxt = lambda k: wb[(k + 1) * L * w:(k + 2) * L * w] if k + 1 < n else wf
        ok3 = all(all((a is b) or (not isF(a) and not isF(b) and same_bits(a, b)) for a, b in zip(wb[k * L * w:(k + 1) * L * w], nxt(k))) for k in range(n) if (lockmask >> k) & 1)
        sol = z3.Solver(); sol.add(z3.Not(z3.BoolVal(bool(ok3)))); res.queries += 1
        if sol.check() == z3.unsat: res.ob(True, 'UF', f'{label}: on locked samples coeffs() is bit-unchanged')
        else: cex({}, f'{label}: coefficients change while adaptation is locked', f'adapt:{KN[kind]}:lock'); continue
        if cplx:
            # (4c) complex update rule: the steepest-descent direction for y = sum_j w[j] x[k-j] is e * conj(u)
            P1, P2 = z3.Real('p1'), z3.Real('p2'); bad4 = []
            if kind in (3, 4):
                for k in range(n):
                    if (lockmask >> k) & 1: continue
                    ur = [X[2 * (k - j)] if k - j >= 0 else z3.RealVal(0) for j in range(L)]; ui = [X[2 * (k - j) + 1] if k - j >= 0 else z3.RealVal(0) for j in range(L)]
                    er, ei = Lz(e[2 * k]), Lz(e[2 * k + 1]); nw = nxt(k)
                    nrm = z3.Sum([a * a + b * b for a, b in zip(ur, ui)]) + z3.RealVal(Fraction(EPSD)) if kind == 4 else None
                    for j in range(L):
                        gr = P1 * (er * ur[j] + ei * ui[j]); gi = P1 * (ei * ur[j] - er * ui[j])
                        if kind == 4: gr = gr / nrm; gi = gi / nrm
                        bad4 += [Lz(nw[2 * j]) != Lz(wb[2 * (k * L + j)]) * P2 + gr, Lz(nw[2 * j + 1]) != Lz(wb[2 * (k * L + j) + 1]) * P2 + gi]
                desc4 = 'coeffs <- coeffs*leak + mu*e*conj(x)' + ('/(|u|^2+eps)' if kind == 4 else '')
                if bad4:
                    sol = z3.Solver(); sol.set('timeout', 20000 if forked else 90000); sol.add(*p.m.pc); sol.add(P1 > 0, P1 <= 1, P2 > 0); sol.add(z3.Or(bad4)); t0 = time.time(); c = sol.check(); res.queries += 1; res.solver_s += time.time() - t0
                    if c == z3.unsat: res.ob(True, 'NRA', f'{label}: forall inputs and parameters: {desc4}')
                    elif c == z3.sat: cex(model_dict(sol), f'{label}: update rule violated ({desc4})', f'adapt:{KN[kind]}:update')
                    else:
                        res.notes.append(f'{label}: "{desc4}" not decided by z3 within the budget')
                        confirm(res, PID, HARNESS, 'h_adapt', mk({}), 'i32', 'adapt', ORACLES, f'adapt:{KN[kind]}:update', f'{label}: differs from the reference recursion', suspect_is_inconclusive=False)
            else:
                # complex RLS: the trajectory of this path at a point of the path is compared natively with the exact complex reference recursion (ground obligation; the rational identity in 4n+2 variables is beyond z3 here)
                rr, mdl = p.m.check_model(z3.BoolVal(True)) if forked else (None, {})
                spec = mk(mdl or {}); nr = native_call(so, 'h_adapt', spec, 'i32'); isbad, _ = o_adapt(spec, nr, None); res.replays += 1
                if isbad: confirm(res, PID, HARNESS, 'h_adapt', spec, 'i32', 'adapt', ORACLES, f'adapt:{KN[kind]}:update', f'{label}: the trajectory differs from the complex reference recursion (g = P u/(lam + u^H P u), w += conj(g) e)', suspect_is_inconclusive=False)
                else: res.ob(True, 'ground', f'{label}: generic point of the path replayed against the exact complex RLS recursion')
            continue
        # (4) update rule on unlocked samples
        P1, P2 = z3.Real('p1'), z3.Real('p2'); bad4 = []
        if kind in (0, 1):
            for k in range(n):
                if (lockmask >> k) & 1: continue
                u = [X[k - j] if k - j >= 0 else z3.RealVal(0) for j in range(L)]; ek = Lz(e[k]); nw = nxt(k)
                nrm = z3.Sum([v * v for v in u]) + z3.RealVal(Fraction(EPSD)) if kind == 1 else None
                for j in range(L):
                    upd = P1 * ek * u[j]; upd = upd / nrm if kind == 1 else upd
                    bad4.append(Lz(nw[j]) != Lz(wb[k * L + j]) * P2 + upd)
            desc4 = 'coeffs <- coeffs*leak + mu*e*x' + ('/(|u|^2+eps)' if kind == 1 else '')
        else:
            # RLS from rest, all unlocked: exponentially weighted, diagonally regularised normal equations  R_n w_n = p_n,  R = sum lam^(n-1-k) u u^T + lam^n/delta I,  p = sum lam^(n-1-k) u d
            if lockmask == 0 and normal_eq:
                D = [z3.Real(s) for s in dn]; R = [[z3.RealVal(0)] * L for _ in range(L)]; pv = [z3.RealVal(0)] * L
                for k in range(n):
                    u = [X[k - j] if k - j >= 0 else z3.RealVal(0) for j in range(L)]
                    R = [[R[i][j] * P1 + u[i] * u[j] for j in range(L)] for i in range(L)]; pv = [pv[i] * P1 + u[i] * D[k] for i in range(L)]
                lamn = P1
                for _ in range(n - 1): lamn = lamn * P1
                for i in range(L): R[i][i] = R[i][i] + lamn / P2
                W = [Lz(v) for v in wf]
                bad4 = [z3.Sum([R[i][j] * W[j] for j in range(L)]) != pv[i] for i in range(L)]; desc4 = 'final coefficients solve (sum lam^(n-1-k) u u^T + lam^n/delta I) w = sum lam^(n-1-k) u d'
            else: bad4 = []
        if bad4:
            sol = z3.Solver(); sol.set('timeout', 20000 if forked else 90000); sol.add(*p.m.pc); sol.add(P1 > 0, P1 <= 1, P2 > 0); sol.add(z3.Or(bad4)); t0 = time.time(); c = sol.check(); res.queries += 1; res.solver_s += time.time() - t0
            if c == z3.unsat: res.ob(True, 'NRA', f'{label}: forall inputs and parameters: {desc4}')
            elif c == z3.sat: cex(model_dict(sol), f'{label}: update rule violated ({desc4})', f'adapt:{KN[kind]}:update')
            else:
                # undecided by z3: exact rational evaluation at a few points decides at least whether a discrepancy exists there (reported only through native replay)
                res.notes.append(f'{label}: "{desc4}" not decided by z3 within the budget')
                if not cplx: confirm(res, PID, HARNESS, 'h_adapt', mk({}), 'i32', 'adapt', ORACLES, f'adapt:{KN[kind]}:update', f'{label}: differs from the reference recursion', suspect_is_inconclusive=False)
        if forked and kind == 2:
            # a data-dependent path in RLS (e.g. a shortcut for e == 0): the whole trajectory must still be the reference recursion -> replay a point of this path natively
            rr, mdl = p.m.check_model(z3.BoolVal(True))
            if not confirm(res, PID, HARNESS, 'h_adapt', mk(mdl), 'i32', 'adapt', ORACLES, f'adapt:{KN[kind]}:path', f'{label}: on a data-dependent path (|pc|={len(p.m.pc)}) the trajectory differs from the reference recursion', suspect_is_inconclusive=False):
                res.ob(True, 'PATH', f'{label}: data-dependent path (|pc|={len(p.m.pc)}) replayed against the reference recursion')

JOBFNS = {'adapt': job_adapt}

def selftest(st):
    calls = []
    for kind in range(6):
        w = 2 if kind >= 3 else 1; n = 4; L = 2
        p = {0: (0.05, 0.9), 1: (0.5, 1.0), 2: (0.95, 2.0), 3: (0.05, 1.0), 4: (0.5, 0.95), 5: (0.9, 2.0)}[kind]
        calls.append(('h_adapt', [('i32', kind), ('i32', L), ('f64', p[0]), ('f64', p[1]), ('pf64', [math.sin(1.1 * i) + 0.2 for i in range(n * w)]), ('pf64', [math.cos(0.7 * i) for i in range(n * w)]), ('i32', n), ('i32', 0b0100),
                      ('pf64', [0.0] * n * w), ('pf64', [0.0] * n * w), ('pf64', [0.0] * n * L * w), ('pf64', [0.0] * L * w)], 'i32'))
    selftest_calls(st, HARNESS, calls)

def main(tier, seed):
    q = tier == 'quick'; jobs = []
    for kind in range(6):
        rls = kind in (2, 5)
        # (L, n, lock schedules); n > L so that the oldest sample leaves the delay line; complex RLS stays at L <= 4 and, above L = 2, at schedules with a locked sample (otherwise its a-priori identity is undecided by z3)
        n0 = 3 if rls else 4
        cfg = [(2, n0, sorted({0, 1, 2, (1 << n0) - 1, 0b010, 0b0110 & ((1 << n0) - 1), 0b101 & ((1 << n0) - 1)}) if q else range(1 << n0))]
        if kind == 5: cfg += [(3, 4, (2, 6)), (4, 4, (2, 14))]       # schedules without a lock (or with n > 4) leave z3 undecided on the complex RLS a-priori identity
        else: cfg.append((3, 4, (0, 2, 6) if q else range(16)))
        if kind == 5: pass
        else: cfg.append((5, 6, (0, 4, 18) if q else (0, 4, 18, 33, 63)))
        if not q:
            if kind != 5: cfg.append((4, 5, (0, 4, 18, 31)))
            if kind in (0, 1, 2, 4): cfg.append((8, 9, (0, 16)))
        for (L, n, masks) in cfg:
            for lm in masks: jobs.append((f'{KN[kind]} L={L} locks={lm}', 'adapt', dict(kind=kind, L=L, n=n, lockmask=lm, normal_eq=False), 1800))
    jobs.append(('RLS normal equations n=2', 'adapt', dict(kind=2, L=2, n=2, lockmask=0, normal_eq=True), 1800))
    return run_property(PID, tier, HARNESS, jobs, JOBFNS,
        level_text='LMS / NLMS / RLS (real and complex) are fed one sample at a time with x, d, step size, leakage / forgetting factor and diagonal load all symbolic, for every lock schedule: e[k] is the very term d[k] - y[k]; y[k] equals the '
                   'sum over the coefficient vector read before sample k (polynomial identity, z3); locked samples leave coeffs() bit-unchanged; unlocked samples follow the update rule (LMS / NLMS, real and complex: rational identity per coefficient, the complex direction being e*conj(x)); complex RLS: a point of every path is replayed natively against the exact complex recursion (ground); '
                   'real RLS from rest: the final coefficients satisfy the exponentially weighted, diagonally regularised normal equations. Data-dependent paths are enumerated; a discrepancy is replayed against an exact rational reference recursion.',
        assumptions=['REAL arithmetic', 'complex filters use the plain product sum_j c[j]*x[k-j] (no conjugate), as the library does', 'RLS normal-equation identity within a 180 s budget (undecided = noted, not claimed)'],
        bounds={'filter length': '2, 3, 5 (complex RLS 2, 3, 4) quick / 2, 3, 4, 5, 8 thorough', 'samples': 'filter length + 1 (L = 2: 3-4), fed one at a time', 'lock schedules': 'L = 2: 7 (quick) / all 2^n; longer filters: 3 (quick) / all 16 at L = 3, 4-5 at L = 4, 5, 2 at L = 8'},
        outside=['convergence / misalignment below 1e-6 (asymptotic statement with a statistical premise)', 'longer filters and horizons'], seed=seed, selftest=selftest)

def replay(path): return replay_main(path, ORACLES)
