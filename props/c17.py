"""C17 — elementary / reduction / shape functions (P-INT for shapes with symbolic ints, P-EQ for element identity, P-POLY for algebraic reductions); libm accuracy is not decided."""
from common import *
PID = 'C17'; HARNESS = 'C17.cpp'
H_THROW = (-1000000) & 0xffffffff

def py_shape(k, x, n, p1, p2):
    w = 2 if k >= 7 else 1; X = [tuple(x[w * i: w * i + w]) for i in range(n)]; Z = (0.0,) * w
    if k in (0, 7):
        if p1 <= 0 or not (0 <= p2 < p1): return None
        r = [Z] * (n * p1)
        for i in range(n): r[i * p1 + p2] = X[i]
        return r if p1 > 1 else X
    if k == 1:
        if p1 <= 0 or not (0 <= p2 < p1) or p2 >= n: return None      # the statement quantifies over phases below the array length
        return X[p2::p1]
    if k == 2: return None if n > p1 else X + [Z] * (p1 - n)
    if k in (3, 8):
        d = p1; r = [Z] * n
        for i in range(n):
            if 0 <= i - d < n: r[i] = X[i - d]
        return r
    if k in (4, 9): return X[::-1]
    if k == 5: return None if p1 < 0 else [v for v in X for _ in range(p1)]
    if k == 6:
        if p1 <= 0 or not (0 <= p2 < p1): return None
        return X
def o_shape(spec, r, extra):
    k = spec[0][1]; x = spec[1][1]; n = spec[2][1]; p1 = sgn(spec[3][1], 32); p2 = sgn(spec[4][1], 32); w = 2 if k >= 7 else 1
    nm = ['upsample', 'downsample', 'zeropad', 'delayseq', 'flip', 'repelem', 'downsample(upsample)', 'upsample cmplx', 'delayseq cmplx', 'flip cmplx'][k]
    if r['status'] != 'ok': return True, f"{nm}: {r['status']} {r.get('stderr', '')[-200:]}"
    exp = py_shape(k, x, n, p1, p2)
    if exp is None: return False, 'outside the documented parameter range (any rejection is fine)'
    if r['ret'] == H_THROW: return True, f"{nm}(x[{n}], {p1}, {p2}) threw on documented parameters"
    got = r['outs'][1][:len(exp) * w]; flat = [v for t in exp for v in t]
    return (r['ret'] != len(exp) or any(not same_bits(a, b) for a, b in zip(got, flat))), f"{nm}(x={x[:n * w]}, {p1}, {p2}) = {got} (length {sgn(r['ret'], 32)}), expected {flat}"
def o_arange(spec, r, extra):
    a, b, s_ = [sgn(spec[i][1], 32) for i in range(3)]
    if r['status'] != 'ok': return True, f"arange({a},{b},{s_}): {r['status']}"
    exp = list(range(a, b, s_))
    if r['ret'] == H_THROW: return True, f"arange({a}, {b}, {s_}) threw; it should list {exp}"
    got = r['outs'][0][:r['ret']] if 0 <= sgn(r['ret'], 32) <= 64 else None
    return got != [float(v) for v in exp], f"arange({a}, {b}, {s_}) = {got}, start + k*step strictly before stop is {exp}"
def o_arange_f(spec, r, extra):
    a, b, s_ = spec[0][1], spec[1][1], spec[2][1]
    if r['status'] != 'ok' or r['ret'] == H_THROW: return True, f"arange({a},{b},{s_}): {r['status']} / threw"
    n = extra['count']; got = r['outs'][0][:max(sgn(r['ret'], 32), 0)]
    bad = r['ret'] != n or any(abs(got[i] - (a + i * s_)) > 4 * 2.0 ** -52 * max(abs(a), abs(b), 1) for i in range(min(n, len(got))))
    return bad, f"arange({a}, {b}, {s_}): {sgn(r['ret'], 32)} values {got[:5]}.., expected {n} values start + k*step"
def o_reduce(spec, r, extra):
    k = spec[0][1]; x = spec[1][1]; n = spec[2][1]; cplx = extra['cplx']
    if r['status'] != 'ok' or r['ret'] == H_THROW: return True, f"reduction: {r['status']} / threw"
    X = [Fraction(v) for v in x]
    import mpmath; mpmath.mp.dps = 40
    y = r['outs'][1]
    if not cplx:
        a = X[:n]
        name = ['sum', 'mean', 'rms', 'stddev', 'norm1', 'norm2', 'dot', 'max', 'min', 'argmax', 'argmin', 'peak2peak'][k] if k < 12 else 'array'
        if k == 0: exp = sum(a)
        elif k == 1: exp = sum(a) / n
        elif k == 2: exp = mpmath.sqrt(mpmath.mpf(sum(v * v for v in a).numerator) / sum(v * v for v in a).denominator / n) if sum(v * v for v in a) else 0
        elif k == 3:
            m_ = sum(a) / n; q = sum((v - m_) ** 2 for v in a); exp = mpmath.sqrt(mpmath.mpf(q.numerator) / q.denominator / (n - 1)) if n > 1 else None
        elif k == 4: exp = sum(abs(v) for v in a)
        elif k == 5: q = sum(v * v for v in a); exp = mpmath.sqrt(mpmath.mpf(q.numerator) / q.denominator)
        elif k == 6: exp = sum(u * v for u, v in zip(a, X[n:2 * n]))
        elif k == 7: exp = max(a)
        elif k == 8: exp = min(a)
        elif k == 9: return r['ret'] != max(range(n), key=lambda i: (a[i], -i)), f"argmax({x[:n]}) = {r['ret']}"
        elif k == 10: return r['ret'] != min(range(n), key=lambda i: (a[i], i)), f"argmin({x[:n]}) = {r['ret']}"
        elif k == 11: exp = max(a) - min(a)
        elif k in (12, 16):
            for i in range(n):
                sup = a[:i + 1] if k == 12 else a[i:]
                ev = float(sum(sup)); sc = float(sum(abs(v) for v in sup))
                if abs(y[i] - ev) > 8 * n * 2.0 ** -52 * max(sc, 1e-300): return True, f"cumsum({x[:n]}{', reverse' if k == 16 else ''})[{i}] = {y[i]!r}, the sum of its {len(sup)} elements is {ev!r} (scale {sc!r})"
            return False, 'ok'
        else: return False, 'n/a'
        if exp is None: return False, 'undefined'
        ev = float(exp) if not isinstance(exp, Fraction) else float(exp)
        scale = max([abs(float(v)) for v in a] + [1e-300]) * max(n, 1)
        return abs(y[0] - ev) > 8 * 2.0 ** -52 * max(scale, abs(ev)), f"{name}({x[:n]}) = {y[0]!r}, mathematical value {ev!r}"
    if cplx and k in (11, 12):
        for i in range(n):
            for c in (0, 1):
                sup = X[c:2 * (i + 1):2] if k == 11 else X[2 * i + c:2 * n:2]
                ev = float(sum(sup)); sc = float(sum(abs(v) for v in sup))
                if abs(y[2 * i + c] - ev) > 8 * n * 2.0 ** -52 * max(sc, 1e-300): return True, f"complex cumsum{' reverse' if k == 12 else ''} element {i} {'im' if c else 're'} = {y[2 * i + c]!r}, the sum of its elements is {ev!r} (scale {sc!r})"
        return False, 'ok'
    return False, 'n/a'
def power_ref(kind, re, im, nr, ni):
    """principal value |x|^n * exp(i n arg x), arg honouring signed zeros; -> list of (re, im) mpmath pairs or None where undefined (0 to a negative power)"""
    import mpmath; mpmath.mp.dps = 40
    def cp(re_, im_, n_):
        a = mpmath.hypot(re_, im_)
        if a == 0: return None if n_ < 0 else ((mpmath.mpf(1), mpmath.mpf(0)) if n_ == 0 else (mpmath.mpf(0), mpmath.mpf(0)))
        if im_ == 0: ph = (mpmath.pi if math.copysign(1, im_) > 0 else -mpmath.pi) if (re_ < 0 or (re_ == 0 and math.copysign(1, re_) < 0)) else mpmath.mpf(0)
        else: ph = mpmath.atan2(im_, re_)
        r_ = a ** n_; return (r_ * mpmath.cos(ph * n_), r_ * mpmath.sin(ph * n_))
    def rp(x_, n_):
        if x_ == 0: return None if n_ < 0 else ((mpmath.mpf(1), 0) if n_ == 0 else (mpmath.mpf(0), 0))
        if x_ < 0 and n_ != int(n_): return None
        return (mpmath.mpf(x_) ** n_, 0)
    if kind in (0, 12): return [rp(re, nr)]
    if kind == 1: return [cp(re, im, nr)]
    if kind == 2: return [rp(re, ni)]
    if kind == 3: return [cp(re, im, ni)]
    if kind == 4: return [rp(re, nr), rp(1.25, nr)]
    if kind == 5: return [cp(re, im, nr), cp(1.25, -0.5, nr)]
    if kind == 6: return [cp(re, im, nr), cp(re, im, 1.5)]
    if kind == 7: return [rp(re, nr), rp(re, 1.5)]
    if kind == 8: return [rp(re, nr), rp(1.25, 1.5)]
    if kind == 9: return [cp(re, im, nr), cp(1.25, -0.5, 1.5)]
    if kind == 10: return [rp(re, ni), rp(1.25, ni)]
    return [cp(re, im, ni), cp(1.25, -0.5, ni)]
PK = ['power(real, real)', 'power(cmplx, real)', 'power(real, int)', 'power(cmplx, int)', 'power(arr_real, real)', 'power(arr_cmplx, real)', 'power(cmplx, arr_real)', 'power(real, arr_real)', 'power(arr_real, arr_real)',
      'power(arr_cmplx, arr_real)', 'power(arr_real, int)', 'power(arr_cmplx, int)', 'pow(real, real)']
def power_bad(kind, re, im, nr, ni, cnt, out):
    ref = power_ref(kind, re, im, nr, ni)
    if cnt != len(ref): return f'{cnt} results instead of {len(ref)}'
    for i, e in enumerate(ref):
        if e is None: continue
        gr, gi = out[2 * i], out[2 * i + 1]; er, ei = float(e[0]), float(e[1]); sc = max(math.hypot(er, ei), 1e-300)
        if gr != gr or gi != gi or abs(gr - er) > 16 * 2.0 ** -52 * sc or abs(gi - ei) > 16 * 2.0 ** -52 * sc: return f'result {i} = ({gr!r}, {gi!r}), principal value is ({er!r}, {ei!r})'
    return None
def o_power(spec, r, extra):
    kind, re, im, nr, ni = spec[0][1], spec[1][1], spec[2][1], spec[3][1], sgn(spec[4][1], 32)
    desc = f"{PK[kind]} at x = {re!r}" + (f" + {im!r}i" if kind in (1, 3, 5, 6, 9, 11) else '') + f", n = {ni if kind in (2, 3, 10, 11) else nr!r}"
    if r['status'] != 'ok' or r['ret'] == H_THROW: return True, f"{desc}: {r['status']} / threw"
    b = power_bad(kind, re, im, nr, ni, r['ret'], r['outs'][0]); return (b is not None), f"{desc}: {b}"
def c_round(v):
    """C round(): nearest integer, halves away from zero (a - floor(a) is exact below 2^52, so no double rounding as in floor(a + 0.5))"""
    a = abs(v)
    if a >= 2.0 ** 52 or a != a: return v
    f = math.floor(a); return math.copysign(f + 1.0 if a - f >= 0.5 else float(f), v)
def o_round(spec, r, extra):
    kind, re, im = spec[0][1], spec[1][1], spec[2][1]
    if r['status'] != 'ok' or r['ret'] == H_THROW: return True, f"round: {r['status']} / threw"
    o = r['outs'][0]; exp = [c_round(re), c_round(im) if kind in (1, 3) else 0.0]
    return (o[0] != exp[0] or o[1] != exp[1]), f"round({re!r}" + (f" + {im!r}i" if kind in (1, 3) else '') + f") [{['scalar', 'complex scalar', 'array', 'complex array'][kind]}] = {o[:2]}, nearest integers (halves away from zero) are {exp}"
def o_linspace(spec, r, extra):
    a, b, n = spec[0][1], spec[1][1], spec[2][1]
    if r['status'] != 'ok' or r['ret'] == H_THROW: return True, f"linspace({a}, {b}, {n}): {r['status']} / threw"
    y = r['outs'][0][:n]; sc = max(abs(a), abs(b), 1e-300)
    if r['ret'] != n: return True, f"linspace({a}, {b}, {n}) returned {sgn(r['ret'], 32)} values"
    for i in range(n):
        e = float(Fraction(a) + (Fraction(b) - Fraction(a)) * i / (n - 1)) if n > 1 else b
        if not (abs(y[i] - e) <= 8 * 2.0 ** -52 * sc): return True, f"linspace({a}, {b}, {n})[{i}] = {y[i]!r}, expected {e!r}"
    return False, 'ok'
def o_normp(spec, r, extra):
    cplx, p, x, n = spec[0][1], spec[1][1], spec[2][1], spec[3][1]
    if r['status'] != 'ok': return True, f"norm: {r['status']}"
    mags = [abs(complex(x[2 * i], x[2 * i + 1])) if cplx else abs(x[i]) for i in range(n)]; e = sum(v ** p for v in mags) ** (1.0 / p)
    return not (abs(r['ret'] - e) <= 64 * 2.0 ** -52 * max(e, 1e-300)), f"norm({'complex ' if cplx else ''}{x[:(2 if cplx else 1) * n]}, {p}) = {r['ret']!r}, (sum |x|^p)^(1/p) = {e!r}"
def o_angle(spec, r, extra):
    re, im = spec[0][1], spec[1][1]
    if r['status'] != 'ok': return True, f"angle: {r['status']}"
    exp = math.atan2(im, re)
    bad = (r['ret'] != r['ret']) or abs(r['ret'] - exp) > 4 * 2.0 ** -52 * 4 or (exp != 0 and math.copysign(1, r['ret']) != math.copysign(1, exp) and abs(exp) > 1e-300)
    return bad, f"angle({re!r} + {im!r}i) = {r['ret']!r}, arg of that number is {exp!r}"
ORACLES = {'shape': o_shape, 'arange': o_arange, 'arange_f': o_arange_f, 'reduce': o_reduce, 'angle': o_angle, 'power': o_power, 'round': o_round, 'linspace': o_linspace, 'normp': o_normp}

def job_arange_i(res, combos):
    """start and step enumerated (concrete), stop symbolic in [-12, 12]: on every path count and values == python range(start, stop, step)"""
    mod, so = load(HARNESS)
    for (start, step) in combos:
        def setup(m):
            b = bvsym('stop', 32); s_ = BV(z3.BitVecVal(step, 32), 32); m.assume(z3.And(b.e >= -12, b.e <= 12))
            y = m.alloc_doubles([0.0] * 32, 'y'); return [start & 0xffffffff, b, step & 0xffffffff, y, 32], (b, s_, y)
        mk = lambda mdl: [('i32', start & 0xffffffff), ('i32', model_int(mdl, 'stop')), ('i32', step & 0xffffffff), ('pf64', [0.0] * 32), ('i32', 32)]
        for p in explore(mod, '@h_arange_i', setup, max_paths=400):
            if p.out not in ('ret', 'throw', 'ub'): res.inc(f'arange int start={start}: path {p.out} {p.err}'); continue
            res.absorb(p.m); b, s_, y = p.ctx; B = z3.SignExt(32, b.e); S = z3.SignExt(32, s_.e); A = z3.BitVecVal(start, 64)
            # count of python's range(start, stop, step): ceil((stop-start)/step) if positive else 0   (64-bit, |values| <= 24)
            d = z3.If(S > 0, B - A, A - B); t = z3.If(S > 0, S, -S); cnt = z3.If(d > 0, (d + t - 1) / t, z3.BitVecVal(0, 64))
            sol = z3.Solver(); sol.set('timeout', 60000); sol.add(*p.m.pc)
            if p.out in ('throw', 'ub'):
                c = sol.check(); res.queries += 1
                if c == z3.sat: confirm(res, PID, HARNESS, 'h_arange_i', mk(model_dict(sol)), 'i32', 'arange', ORACLES, f'arange:int:{p.out}', f'integer arange(start={start}) ends in {p.out} for in-range arguments')
                continue
            r = pinned_int(p.m, p.ret)
            if r is None: res.inc('arange: count not determined by the path'); continue
            r = sgn(r, 32)
            vals = p.m.read_doubles(y, max(min(r, 32), 0)); bad = [cnt != r]
            for i, v in enumerate(vals):
                if isF(v) and v.op == 'sitofp': bad.append(z3.SignExt(32, symir._cond_tab[v.args[0]]) != A + i * S)
                elif not isF(v): bad.append(z3.BitVecVal(int(v), 64) != A + i * S) if float(v) == int(v) else bad.append(z3.BoolVal(True))
                else: bad.append(z3.BoolVal(True))
            sol.add(z3.Or(bad)); c = sol.check(); res.queries += 1
            if c == z3.unsat: res.ob(True, 'BV+REAL', f'arange({start}, stop, {step}) path count={r}: forall stop in [-12,12] on the path: count and every value equal python range')
            elif c == z3.sat: confirm(res, PID, HARNESS, 'h_arange_i', mk(model_dict(sol)), 'i32', 'arange', ORACLES, 'arange:int:count', f'integer arange(start={start}) differs from start + k*step strictly before stop')
            else: res.inc('arange query unknown')

def job_arange_f(res):
    """fractional arange whose count (stop-start)/step is integral: concrete grid (no quantified input left beyond the grid) - count and values"""
    mod, so = load(HARNESS)
    grid = [(a, a + n * s_, s_, n) for (a, s_, n) in [(-1.0, 0.1, 10), (-1.0, 0.5, 4), (0.0, 0.25, 12), (2.0, -0.5, 8), (0.5, 1.5, 5), (-3.0, 0.125, 24), (10.0, -2.5, 4), (0.0, 0.3, 10), (1.0, 0.7, 7)]]
    # stops written as decimal literals: the quotient (stop - start) / step then lands an ulp above or below the integral count
    for s_ in (0.1, 0.2, 0.3, 0.4, 0.6, 0.7, 0.9, 1.1, 1.3):
        for n in range(1, 13):
            for a in (0.0, 1.0, -2.0):
                grid.append((a, float(repr(round(a + n * s_, 9))), s_, n))
    for (a, b, s_, n) in grid:
        m = Machine(mod); y = m.alloc_doubles([0.0] * 64, 'y')
        try: r = m.call('@h_arange_f', [a, b, s_, y, 64])
        except (Throw, UB): r = None
        res.absorb(m); vals = m.read_doubles(y, n) if r == n else []
        ok = r == n and all(abs(vals[i] - (a + i * s_)) <= 4 * 2.0 ** -52 * max(abs(a), abs(b), 1) for i in range(n))
        sol = z3.Solver(); sol.add(z3.Not(z3.BoolVal(bool(ok)))); res.queries += 1
        if sol.check() == z3.unsat: res.ob(True, 'ground', f'arange({a}, {b}, {s_}): {n} values start + k*step')
        else: confirm(res, PID, HARNESS, 'h_arange_f', [('f64', a), ('f64', b), ('f64', s_), ('pf64', [0.0] * 64), ('i32', 64)], 'i32', 'arange_f', ORACLES, 'arange:float', f'fractional arange({a},{b},{s_}) wrong', extra={'count': n})

def job_shape(res, k, n):
    """shape functions with symbolic integer parameters (factor / phase / length / delay) and symbolic elements: exactly the designated elements (same terms), zeros elsewhere, documented length"""
    mod, so = load(HARNESS); w = 2 if k >= 7 else 1; xs = [fsym(f'x{i}') for i in range(n * w)]
    nm = ['upsample', 'downsample', 'zeropad', 'delayseq', 'flip', 'repelem', 'downsample(upsample)', 'upsample cmplx', 'delayseq cmplx', 'flip cmplx'][k]
    two = k in (0, 1, 6, 7); none = k in (4, 9)
    def setup(m):
        p1 = bvsym('p1', 32) if not none else 0; p2 = bvsym('p2', 32) if two else 0
        if not none: m.assume(z3.And(p1.e >= -3, p1.e <= n + 4))
        if two: m.assume(z3.And(p2.e >= -2, p2.e <= n + 4))
        y = m.alloc_doubles([0.0] * (w * (n + 6) * (n + 6)), 'y'); return [k, m.alloc_doubles(xs, 'x'), n, p1, p2, y], (p1, p2, y)
    def mk(mdl): return [('i32', k), ('pf64', [1.0 + i for i in range(n * w)]), ('i32', n), ('i32', model_int(mdl, 'p1')), ('i32', model_int(mdl, 'p2')), ('pf64', [0.0] * (w * (n + 6) * (n + 6)))]
    for p in explore(mod, '@h_shape', setup, max_paths=600):
        if p.out not in ('ret', 'throw', 'ub'): res.inc(f'{nm} n={n}: path {p.out} {p.err}'); continue
        res.absorb(p.m); p1, p2, y = p.ctx
        sol = z3.Solver(); sol.set('timeout', 60000); sol.add(*p.m.pc)
        P1 = p1.e if isBV(p1) else z3.BitVecVal(p1, 32); P2 = p2.e if isBV(p2) else z3.BitVecVal(p2, 32)
        valid = {0: z3.And(P1 >= 1, P2 >= 0, P2 < P1), 1: z3.And(P1 >= 1, P2 >= 0, P2 < P1, P2 < n), 2: P1 >= n, 3: z3.BoolVal(True), 4: z3.BoolVal(True), 5: P1 >= 0, 6: z3.And(P1 >= 1, P2 >= 0, P2 < P1), 7: z3.And(P1 >= 1, P2 >= 0, P2 < P1), 8: z3.BoolVal(True), 9: z3.BoolVal(True)}[k]
        if p.out in ('throw', 'ub'):
            sol.add(valid if p.out == 'throw' else z3.BoolVal(True)); c = sol.check(); res.queries += 1
            if c == z3.unsat: res.ob(True, 'BV', f'{nm} n={n}: throws only outside the documented parameter range')
            elif c == z3.sat: confirm(res, PID, HARNESS, 'h_shape', mk(model_dict(sol)), 'i32', 'shape', ORACLES, f'shape:{nm}:{p.out}', f'{nm} n={n}: {p.out} for documented parameters')
            continue
        # on a returning path the parameters are pinned enough for the loop bounds to be concrete: read the result and compare with the reference for EVERY parameter value on the path
        r = p.ret
        if not isinstance(r, int):
            # the length is an expression of the parameters but pinned by the path (the result array was allocated with a concretised size)
            c = sol.check(); res.queries += 1
            if c != z3.sat: continue
            rv = sol.model().eval(bve(r, 32), model_completion=True).as_long()
            chk = z3.Solver(); chk.add(*p.m.pc); chk.add(bve(r, 32) != rv); res.queries += 1
            if chk.check() != z3.unsat: res.inc(f'{nm}: length not determined by the path'); continue
            r = sgn(rv, 32)
        got = p.m.read_doubles(y, r * w); lowp = p.m.low
        # enumerate the (few) parameter values consistent with the path and check each exactly
        okall = True; cnt = 0; bad_model = None
        while cnt < 40:
            c = sol.check(); res.queries += 1
            if c != z3.sat: break
            mdl = model_dict(sol); v1 = sgn(model_int(mdl, 'p1'), 32); v2 = sgn(model_int(mdl, 'p2'), 32); cnt += 1
            exp = py_shape(k, [('x', i) for i in range(n * w)], n, v1, v2)
            if exp is not None:
                flat = [t for e in exp for t in e]
                same = r == len(exp) and all((g is xs[f[1]]) if isinstance(f, tuple) else (not isF(g) and g == 0.0) for g, f in zip(got, flat))
                if not same and r == len(exp):
                    # elements reached through symbolic offsets are ITE terms: decide equality under these parameter values
                    q2 = z3.Solver(); q2.set('timeout', 60000); q2.add(*p.m.pc); q2.add(P1 == v1);
                    if two: q2.add(P2 == v2)
                    L = lambda g: lowp(g) if isF(g) else z3.RealVal(Fraction(g))
                    q2.add(z3.Or([L(g) != (z3.Real(f'x{f[1]}') if isinstance(f, tuple) else z3.RealVal(0)) for g, f in zip(got, flat)])); res.queries += 1
                    same = q2.check() == z3.unsat
                if not same: okall = False; bad_model = mdl; break
            sol.add(z3.Or(P1 != v1, P2 != v2) if two else (P1 != v1))
        if okall: res.ob(True, 'BV+UF', f'{nm} n={n}: path |pc|={len(p.m.pc)} ({cnt} parameter values): result is exactly the designated elements (same terms) / zeros, documented length {r}')
        else: confirm(res, PID, HARNESS, 'h_shape', mk(bad_model), 'i32', 'shape', ORACLES, f'shape:{nm}', f'{nm} n={n}: wrong elements / length')

def job_reduce(res, n):
    """algebraic reductions on symbolic arrays: REAL identities decided by z3"""
    mod, so = load(HARNESS); X = [z3.Real(f'x{i}') for i in range(2 * n)]
    def run(k, cplx=False):
        m = Machine(mod); xs = [fsym(f'x{i}') for i in range((4 if cplx else 2) * n)]
        r, outs, _ = sym_call(m, 'h_reduce_c' if cplx else 'h_reduce', [('i32', k), ('pf64', xs), ('i32', n), ('pf64', [0.0] * (2 * n + 2))], 'i32'); res.absorb(m)
        return m, r, outs[1]
    def decide(m, claim, desc, key, k, cplx=False):
        sol = z3.Solver(); sol.set('timeout', 60000); sol.add(*m.pc); sol.add(z3.Not(claim)); c = sol.check(); res.queries += 1
        if c == z3.unsat: res.ob(True, 'NRA', f'n={n}: forall x. {desc}')
        elif c == z3.sat:
            mdl = model_dict(sol); xv = [model_float(mdl, f'x{i}', 0.5 + i) for i in range((4 if cplx else 2) * n)]
            confirm(res, PID, HARNESS, 'h_reduce_c' if cplx else 'h_reduce', [('i32', k), ('pf64', xv), ('i32', n), ('pf64', [0.0] * (2 * n + 2))], 'i32', 'reduce', ORACLES, key, f'n={n}: {desc} fails', extra={'cplx': cplx})
        else: res.inc(f'n={n}: {desc} undecided')
    S = z3.Sum(X[:n]); Q = z3.Sum([v * v for v in X[:n]])
    m, r, y = run(0); decide(m, m.lower(y[0]) == S, 'sum(x) == x0 + ... + x(n-1)', 'reduce:sum', 0)
    m, r, y = run(1); decide(m, m.lower(y[0]) * n == S, 'mean(x) * n == sum', 'reduce:mean', 1)
    m, r, y = run(2); v = m.lower(y[0]); decide(m, z3.And(v >= 0, v * v * n == Q), 'rms(x)^2 * n == sum x^2 (root of the MEAN square)', 'reduce:rms', 2)
    if n >= 2:
        m, r, y = run(3); v = m.lower(y[0]); mu = S / n; qq = z3.Sum([(a - mu) * (a - mu) for a in X[:n]]); decide(m, z3.And(v >= 0, v * v * (n - 1) - qq <= qq * z3.RealVal('1/1000000000000'), qq - v * v * (n - 1) <= qq * z3.RealVal('1/1000000000000')), 'stddev(x)^2 * (n-1) == sum (x - mean)^2 (relative 1e-12)', 'reduce:stddev', 3)
    m, r, y = run(4); decide(m, m.lower(y[0]) == z3.Sum([z3.If(a >= 0, a, -a) for a in X[:n]]), 'norm(x, 1) == sum |x|', 'reduce:norm1', 4)
    m, r, y = run(5); v = m.lower(y[0]); decide(m, z3.And(v >= 0, v * v == Q), 'norm(x, 2)^2 == sum x^2', 'reduce:norm2', 5)
    m, r, y = run(6); decide(m, m.lower(y[0]) == z3.Sum([X[i] * X[n + i] for i in range(n)]), 'dot(x, y) == sum x*y', 'reduce:dot', 6)
    m, r, y = run(12); decide(m, z3.And(*[m.lower(y[i]) == z3.Sum(X[:i + 1]) for i in range(n)]), 'cumsum(x)[i] == x0 + ... + xi', 'reduce:cumsum', 12)
    m, r, y = run(13); decide(m, z3.And(*[m.lower(y[i]) == X[i] * X[i] for i in range(n)]), 'abs2(x)[i] == x_i^2', 'reduce:abs2', 13)
    # min / max / argmin / argmax / peak2peak: all comparison paths
    for k, nm in ((7, 'max'), (8, 'min'), (11, 'peak2peak'), (9, 'argmax'), (10, 'argmin')):
        def setup(m):
            xs = [fsym(f'x{i}') for i in range(2 * n)]; y = m.alloc_doubles([0.0] * (2 * n + 2), 'y'); return [k, m.alloc_doubles(xs, 'x'), n, y], y
        for p in explore(mod, '@h_reduce', setup, max_paths=800):
            if p.out != 'ret': res.inc(f'{nm} n={n}: path {p.out}'); continue
            res.absorb(p.m); yv = p.m.read_doubles(p.ctx, 1)[0]; Y = p.m.lower(yv) if isF(yv) else z3.RealVal(Fraction(yv))
            mx = X[0]; mn = X[0]
            for a in X[1:n]: mx = z3.If(a > mx, a, mx); mn = z3.If(a < mn, a, mn)
            if k == 7: claim = Y == mx
            elif k == 8: claim = Y == mn
            elif k == 11: claim = Y == mx - mn
            else:
                if not isinstance(p.ret, int): res.inc(f'{nm}: symbolic index'); continue
                i0 = sgn(p.ret, 32); claim = z3.And(z3.BoolVal(0 <= i0 < n), X[i0 if 0 <= i0 < n else 0] == (mx if k == 9 else mn))
            sol = z3.Solver(); sol.set('timeout', 60000); sol.add(*p.m.pc); sol.add(z3.Not(claim)); c = sol.check(); res.queries += 1
            if c == z3.unsat: res.ob(True, 'LRA', f'{nm} n={n} path |pc|={len(p.m.pc)}: equals the definition on every ordering of the path')
            elif c == z3.sat:
                mdl = model_dict(sol); xv = [model_float(mdl, f'x{i}', 0.0) for i in range(2 * n)]
                confirm(res, PID, HARNESS, 'h_reduce', [('i32', k), ('pf64', xv), ('i32', n), ('pf64', [0.0] * (2 * n + 2))], 'i32', 'reduce', ORACLES, f'reduce:{nm}', f'{nm} n={n} wrong', extra={'cplx': False}); break
            else: res.inc(f'{nm}: undecided')
    # complex: sum, mean, rms, abs2, real / imag / conj / complex(real, imag) round trip, dot
    XC = [z3.Real(f'x{i}') for i in range(4 * n)]
    m, r, y = run(0, True); decide(m, z3.And(m.lower(y[0]) == z3.Sum(XC[0:2 * n:2]), m.lower(y[1]) == z3.Sum(XC[1:2 * n:2])), 'complex sum == (sum re, sum im)', 'reduce:csum', 0, True)
    m, r, y = run(2, True); v = m.lower(y[0]); decide(m, z3.And(v >= 0, v * v * n == z3.Sum([a * a for a in XC[:2 * n]])), 'complex rms^2 * n == sum |x|^2', 'reduce:crms', 2, True)
    m, r, y = run(3, True); decide(m, z3.And(*[m.lower(y[i]) == XC[2 * i] * XC[2 * i] + XC[2 * i + 1] * XC[2 * i + 1] for i in range(n)]), 'abs2(z) == re^2 + im^2', 'reduce:cabs2', 3, True)
    m, r, y = run(7, True); xs = [fsym(f'x{i}') for i in range(4 * n)]
    sol = z3.Solver(); sol.add(z3.Not(z3.BoolVal(all(y[i] is xs[i] for i in range(2 * n))))); res.queries += 1
    if sol.check() == z3.unsat: res.ob(True, 'UF', f'n={n}: complex(real(z), imag(z)) returns the very same terms (round trip)')
    else: res.inc('complex(real, imag) round trip: different terms')
    m, r, y = run(6, True); sol = z3.Solver(); sol.add(z3.Not(z3.BoolVal(all((y[2 * i] is xs[2 * i]) and isF(y[2 * i + 1]) and y[2 * i + 1].op == 'fneg' and y[2 * i + 1].args[0] is xs[2 * i + 1] for i in range(n))))); res.queries += 1
    if sol.check() == z3.unsat: res.ob(True, 'UF', f'n={n}: conj(z) == (re, -im) exactly')
    else: res.inc('conj: unexpected terms')

def job_linspace(res, n):
    mod, so = load(HARNESS); m = Machine(mod); a, b = fsym('a'), fsym('b'); y = m.alloc_doubles([0.0] * max(n, 1), 'y')
    try: r = m.call('@h_linspace', [a, b, n, y])
    except (Throw, UB) as e: res.absorb(m); res.inc(f'linspace n={n}: {type(e).__name__}'); return
    res.absorb(m); v = m.read_doubles(y, n); A, B = z3.Real('a'), z3.Real('b')
    claims = [z3.BoolVal(r == n)] + [m.lower(v[i]) == A + (B - A) * i / (n - 1) for i in range(n)] if n > 1 else [m.lower(v[0]) == B if isF(v[0]) else z3.BoolVal(True)]
    sol = z3.Solver(); sol.set('timeout', 60000); sol.add(z3.Not(z3.And(*claims))); c = sol.check(); res.queries += 1
    if c == z3.unsat: res.ob(True, 'LRA', f'linspace(a, b, {n}): forall a, b. value i == a + (b-a) i/(n-1); end points exact')
    elif c == z3.sat:
        mdl = model_dict(sol); av = model_float(mdl, 'a', 0.25); bv = model_float(mdl, 'b', 10.5)
        if not confirm(res, PID, HARNESS, 'h_linspace', [('f64', av), ('f64', bv), ('i32', n), ('pf64', [0.0] * max(n, 1))], 'i32', 'linspace', ORACLES, 'linspace:values', f'linspace(a, b, {n}): some value is not a + (b-a) i/(n-1)', suspect_is_inconclusive=False):
            confirm(res, PID, HARNESS, 'h_linspace', [('f64', 0.25), ('f64', 10.5), ('i32', n), ('pf64', [0.0] * max(n, 1))], 'i32', 'linspace', ORACLES, 'linspace:values', f'linspace(a, b, {n}): some value is not a + (b-a) i/(n-1)')
    else: res.inc(f'linspace n={n}: {c}')

def job_angle(res):
    """axes and signed zeros: ground special points of the quantifier (no symbolic input: arctangent accuracy elsewhere is not decided)"""
    mod, so = load(HARNESS)
    for (re, im) in [(1.0, 0.0), (0.0, 1.0), (-1.0, 0.0), (0.0, -1.0), (1.0, 1.0), (-1.0, 1.0), (-1.0, -1.0), (1.0, -1.0), (-2.5, 0.0), (-1.0, -0.0), (3.0, -0.0), (0.0, 0.0)]:
        m = Machine(mod); r = m.call('@h_angle', [re, im]); res.absorb(m); exp = math.atan2(im, re)
        ok = r == r and abs(r - exp) <= 16 * 2.0 ** -52 and (exp == 0 or math.copysign(1, r) == math.copysign(1, exp))
        sol = z3.Solver(); sol.add(z3.Not(z3.BoolVal(bool(ok)))); res.queries += 1
        if sol.check() == z3.unsat: res.ob(True, 'ground', f'angle({re} + {im}i) == {exp}')
        else: confirm(res, PID, HARNESS, 'h_angle', [('f64', re), ('f64', im)], 'f64', 'angle', ORACLES, f'angle:{"negative-real-axis" if re < 0 and im == 0 else "origin" if re == 0 and im == 0 else "other"}', f'angle({re} + {im}i) = {r!r}, expected {exp!r}')

def sum_leaves(t):
    """leaves of a pure floating-point summation tree (fadd only, +0.0 start values allowed) or None"""
    out = []; st = [t]
    while st:
        u = st.pop()
        if isF(u) and u.op == 'fadd': st.extend(u.args)
        elif isF(u) and u.op == 'sym': out.append(u.args[0])
        elif not isF(u) and u == 0.0: pass
        else: return None
    return sorted(out)
def job_cumsum(res, n):
    """cumsum forward / reverse, real / complex: every output is a pure summation tree (fadd only) over exactly the elements of its prefix / suffix, each once - so its rounding error is bounded by
    (n-1) eps times the sum of magnitudes of ITS OWN elements (the result's scale), and it does not depend on any other element - and equals the defined sum over the reals."""
    mod, so = load(HARNESS)
    for cplx, k, rev in ((False, 12, False), (False, 16, True), (True, 11, False), (True, 12, True)):
        w = 2 if cplx else 1; m = Machine(mod); xs = [fsym(f'x{i}') for i in range(2 * w * n)]
        nm = ('complex ' if cplx else '') + 'cumsum' + (' reverse' if rev else '')
        try: r, outs, _ = sym_call(m, 'h_reduce_c' if cplx else 'h_reduce', [('i32', k), ('pf64', xs), ('i32', n), ('pf64', [0.0] * (2 * w * n + 2))], 'i32')
        except (Throw, UB) as e: res.absorb(m); res.inc(f'{nm} n={n}: {type(e).__name__}'); continue
        res.absorb(m); y = outs[1]; bad = None
        if r != n or m.taken: bad = f'length {r} / data-dependent control flow'
        for i in range(n if bad is None else 0):
            for c in range(w):
                want = sorted(f'x{w * j + c}' for j in (range(i, n) if rev else range(0, i + 1)))
                t = y[w * i + c]; got = [t.args[0]] if (isF(t) and t.op == 'sym') else sum_leaves(t)
                if got != want: bad = f'element {i}: ' + ('not a plain sum of its elements' if got is None else f'sums {got} instead of {want}'); break
            if bad: break
        sol = z3.Solver(); sol.add(z3.Not(z3.BoolVal(bad is None)))
        if timed_check(sol, res) == z3.unsat: res.ob(True, 'UF', f'{nm} n={n}: every element is a pure summation tree over exactly its {"suffix" if rev else "prefix"} (rounding error bounded by the scale of the element itself)')
        else:
            # inputs that expose a dependence on foreign elements / cancellation: magnitudes falling (reverse) or rising (forward) by 1e3 per element
            xv = [(0.1 + 0.01 * i) * 10.0 ** (3 * ((n - 1 - i // w) if rev else (i // w))) * (-1) ** (i // w) for i in range(w * n)] + [0.0] * (w * n)
            confirm(res, PID, HARNESS, 'h_reduce_c' if cplx else 'h_reduce', [('i32', k), ('pf64', xv), ('i32', n), ('pf64', [0.0] * (2 * w * n + 2))], 'i32', 'reduce', ORACLES, f'reduce:{nm.replace(" ", "-")}', f'{nm} n={n}: {bad}', extra={'cplx': cplx})

SPECIAL = [(-2.0, -0.0), (-2.0, 0.0), (-1.0, -0.0), (-0.5, 0.0), (0.0, 0.0), (-0.0, 0.0), (0.0, -0.0), (-0.0, -0.0), (2.0, 0.0), (2.0, -0.0), (0.0, 1.5), (0.0, -1.5), (-0.0, 1.5), (1.0, 1.0), (-1.0, 1.0), (-1.0, -1.0), (1.0, -1.0),
           (-3.5, 1e-300), (-3.5, -1e-300), (1e-160, 1e-160), (1e150, -1e150), (0.7, -2.2)]
def job_power_points(res, kinds):
    """ground special points of the quantifier (zeros, signed zeros, both sides of the negative real axis, tiny / huge magnitudes) for every power overload: principal value |x|^n exp(i n arg x) within 16 eps of the result's scale"""
    mod, so = load(HARNESS)
    for kind in kinds:
        isint = kind in (2, 3, 10, 11); cplx = kind in (1, 3, 5, 6, 9, 11)
        for (re, im) in SPECIAL:
            if not cplx and im != 0.0: continue
            if not cplx and math.copysign(1, im) < 0: continue
            for nv in ((-3, -2, -1, 0, 1, 2, 3, 5) if isint else (0.5, -0.5, 1.5, 2.0, 3.0, -1.0, 0.0, 1.0 / 3, 2.5)):
                nr = 0.0 if isint else nv; ni = nv if isint else 0
                if power_ref(kind, re, im, nr, ni)[0] is None: continue
                a = math.hypot(re, im)
                if a != 0 and abs(math.log10(a) * nv) > 290: continue
                m = Machine(mod); out = m.alloc_doubles([0.0] * 4, 'out')
                try: cnt = m.call('@h_power', [kind, re, im, nr, ni & 0xffffffff, out])
                except (Throw, UB) as e: res.absorb(m); res.inc(f'{PK[kind]}: {type(e).__name__}'); continue
                res.absorb(m); b = power_bad(kind, re, im, nr, ni, cnt, m.read_doubles(out, 4))
                sol = z3.Solver(); sol.add(z3.Not(z3.BoolVal(b is None)))
                if timed_check(sol, res) == z3.unsat: res.ob(True, 'ground', f'{PK[kind]} at ({re!r}, {im!r}) ^ {nv}: principal value within 16 eps of its scale')
                else: confirm(res, PID, HARNESS, 'h_power', [('i32', kind), ('f64', re), ('f64', im), ('f64', nr), ('i32', ni & 0xffffffff), ('pf64', [0.0] * 4)], 'i32', 'power', ORACLES,
                              f'power:{kind}:' + ('negative-real-axis' if re < 0 and im == 0 else 'origin' if re == 0 and im == 0 else 'magnitude-outside-1e-154..1e154' if not (1e-154 < math.hypot(re, im) < 1e154) else 'other') + (f':n={nv}' if isint else ''), f'{PK[kind]} at ({re!r}, {im!r}) ^ {nv}: {b}')

def job_power_sym(res):
    """symbolic base and exponent: (1) every array overload returns, element-wise, the very term of the scalar overload on that element; (2) the scalar complex power is pow(|x|, n) * (cos, sin)(n * atan2(im, re)) over the
    reals with the library functions uninterpreted; (3) integer powers 2, -1, 0, 1 of a real base are x*x, 1/x, 1, x"""
    mod, so = load(HARNESS)
    def run(kind, nr=None, ni=0):
        m = Machine(mod); out = m.alloc_doubles([0.0] * 4, 'out'); cnt = m.call('@h_power', [kind, fsym('re'), fsym('im'), fsym('nr') if nr is None else nr, ni & 0xffffffff, out]); res.absorb(m)
        return m, cnt, m.read_doubles(out, 4)
    def same(a, b): return (a is b) if (isF(a) or isF(b)) else same_bits(a, b)
    def ob(ok, desc, key, kind, ni=0):
        sol = z3.Solver(); sol.add(z3.Not(z3.BoolVal(bool(ok))))
        if timed_check(sol, res) == z3.unsat: res.ob(True, 'UF', desc)
        else:
            hit = False
            for (re, im) in ((-2.0, -0.0), (-2.0, 0.0), (0.7, -2.2), (0.0, 0.0), (3.0, 0.0)):
                for nr in (0.5, 2.5, -1.5):
                    hit = confirm(res, PID, HARNESS, 'h_power', [('i32', kind), ('f64', re), ('f64', im), ('f64', nr), ('i32', ni & 0xffffffff), ('pf64', [0.0] * 4)], 'i32', 'power', ORACLES, key, desc + ' fails', suspect_is_inconclusive=False)
                    if hit: break
                if hit: break
            if not hit: res.inc(f'{desc}: structural obligation fails but the probe points agree natively')
    try:
        m0, c0, s_rr = run(0); m1, c1, s_cr = run(1)
        for kind, ref, w in ((4, s_rr, 1), (7, s_rr, 1), (8, s_rr, 1), (12, s_rr, 1), (5, s_cr, 2), (6, s_cr, 2), (9, s_cr, 2)):
            m, c, o = run(kind); ok = (c == (1 if kind == 12 else 2)) and not m.taken and all(same(o[i], ref[i]) for i in range(w))
            ob(ok, f'{PK[kind]}: element 0 is the very term of the scalar overload for every base and exponent', f'power:{kind}:elementwise', kind)
        # scalar complex power: one path, polar form
        L = Lower('UF'); re, im, nr = fsym('re'), fsym('im'), fsym('nr')
        ok = not m1.taken and isF(s_cr[0]) and isF(s_cr[1])
        if ok:
            low = m1.lower
            # find the modulus / phase sub-terms by their calls
            calls = {}
            for t in topo([s_cr[0], s_cr[1]]):
                if t.op == 'call': calls.setdefault(t.args[0], []).append(t)
            need = all(k in calls for k in ('pow', 'atan2')) and (('cos' in calls and 'sin' in calls) or 'sincos' in calls)
            ok = need and len(calls['pow']) == 1 and len(calls['atan2']) == 1
            if ok:
                P = calls['pow'][0]; A = calls['atan2'][0]
                ok = (A.args[1] is im and A.args[2] is re and P.args[2] is nr)
                mod2 = low(P.args[1]); lre = low(re); lim = low(im); sol = z3.Solver(); sol.add(*m1.pc); sol.add(z3.Not(z3.And(mod2 >= 0, mod2 * mod2 == low(re) * low(re) + low(im) * low(im))))
                ok = ok and timed_check(sol, res) == z3.unsat
                if ok:
                    cosn = [t for t in calls.get('cos', []) ]; sinn = [t for t in calls.get('sin', [])]
                    ok = len(cosn) == 1 and len(sinn) == 1 and cosn[0].args[1] is sinn[0].args[1]
                    if ok:
                        arg = cosn[0].args[1]; claim = z3.Or(low(arg) != low(A) * low(nr), low(s_cr[0]) != low(P) * low(cosn[0]), low(s_cr[1]) != low(P) * low(sinn[0])); q = z3.Solver(); q.add(*m1.pc); q.add(claim)
                        ok = timed_check(q, res) == z3.unsat
        ob(ok, 'power(cmplx, real): (re, im) == pow(|x|, n) * (cos, sin)(n * atan2(im, re)) with |x|^2 == re^2 + im^2, on a single path (no special-casing of the base)', 'power:1:polar', 1)
        for ni, want in ((2, 'x*x'), (-1, '1/x'), (0, '1'), (1, 'x')):
            m, c, o = run(2, nr=0.0, ni=ni); v = o[0]; X = z3.Real('re'); lv = m.lower(v) if isF(v) else z3.RealVal(Fraction(v))
            q = z3.Solver(); q.add(*m.pc); q.add(X != 0); q.add(lv != {2: X * X, -1: 1 / X, 0: z3.RealVal(1), 1: X}[ni])
            ob(c == 1 and timed_check(q, res) == z3.unsat, f'power(real x, int {ni}) == {want} for every x != 0', f'power:2:int{ni}', 2, ni)
    except (Throw, UB, Unsupported) as e: res.inc(f'power symbolic: {type(e).__name__} {str(e)[:200]}')

def job_round(res):
    """round (scalar / complex / arrays) with symbolic arguments: the result must be the nearest integer with halves away from zero for every x (z3 over the reals with integer-part semantics),
    plus the ground points that separate the usual wrong implementations (negative ties, the value just below 0.5, odd integers above 2^52)"""
    mod, so = load(HARNESS)
    for kind in range(4):
        m = Machine(mod); out = m.alloc_doubles([0.0] * 4, 'out')
        try: cnt = m.call('@h_round', [kind, fsym('re'), fsym('im'), out])
        except (Throw, UB, Unsupported) as e: res.absorb(m); res.inc(f'round kind {kind}: {type(e).__name__} {str(e)[:100]}'); continue
        res.absorb(m); o = m.read_doubles(out, 2); X = z3.Real('re'); Y = z3.Real('im')
        fl = lambda e: z3.ToReal(z3.ToInt(e)); rnd = lambda e: z3.If(e >= 0, fl(e + z3.RealVal('1/2')), -fl(-e + z3.RealVal('1/2')))
        lo = [m.lower(v) if isF(v) else z3.RealVal(Fraction(v)) for v in o]
        sol = z3.Solver(); sol.add(*m.pc); sol.add(X >= -1000, X <= 1000, Y >= -1000, Y <= 1000)
        sol.add(z3.Or(lo[0] != rnd(X), lo[1] != (rnd(Y) if kind in (1, 3) else z3.RealVal(0)))); c = timed_check(sol, res)
        nm = ['round(real)', 'round(cmplx)', 'round(arr_real)', 'round(arr_cmplx)'][kind]
        if c == z3.unsat: res.ob(True, 'LIRA', f'{nm}: forall |x| <= 1000: nearest integer, halves away from zero')
        elif c == z3.sat:
            mdl = model_dict(sol); confirm(res, PID, HARNESS, 'h_round', [('i32', kind), ('f64', model_float(mdl, 're', -0.5)), ('f64', model_float(mdl, 'im', -2.5)), ('pf64', [0.0] * 4)], 'i32', 'round', ORACLES, f'round:{kind}', f'{nm}: not the nearest integer with halves away from zero')
        else: res.inc(f'{nm}: query unknown')
        for (re, im) in [(-0.5, 2.5), (-2.5, -0.5), (0.49999999999999994, -0.49999999999999994), (4503599627370497.0, -4503599627370499.0), (2.5, 3.5), (-0.0, 0.0), (1e300, -7.25)]:
            m = Machine(mod); out = m.alloc_doubles([0.0] * 4, 'out'); m.call('@h_round', [kind, re, im, out]); res.absorb(m); o = m.read_doubles(out, 2)
            ok = o[0] == c_round(re) and o[1] == (c_round(im) if kind in (1, 3) else 0.0)
            sol = z3.Solver(); sol.add(z3.Not(z3.BoolVal(bool(ok))))
            if timed_check(sol, res) == z3.unsat: res.ob(True, 'ground', f'{nm} at ({re!r}, {im!r})')
            else: confirm(res, PID, HARNESS, 'h_round', [('i32', kind), ('f64', re), ('f64', im), ('pf64', [0.0] * 4)], 'i32', 'round', ORACLES, f'round:{kind}', f'{nm} at ({re!r}, {im!r}) = {o}')

def job_normp(res, n):
    """norm(x, p) for p = 3, 4, 5 (general branch), real and complex, elements symbolic: the result is pow(S, 1/p) with S a summation tree whose leaves are pow(|x_i|, p) of the element magnitudes
    (structure over the library functions; |.| must be there: fabs / hypot), then ground points with negative elements"""
    mod, so = load(HARNESS)
    def mag_ok(t, i, cplx):
        # t must be the magnitude of element i: fabs(x_i) for real data, hypot(re_i, im_i) for complex data
        if not (isF(t) and t.op == 'call'): return False
        if not cplx: return t.args[0] == 'fabs' and isF(t.args[1]) and t.args[1].op == 'sym' and t.args[1].args[0] == f'x{i}'
        return t.args[0] == 'hypot' and all(isF(a) and a.op == 'sym' for a in t.args[1:3]) and {t.args[1].args[0], t.args[2].args[0]} == {f'x{2 * i}', f'x{2 * i + 1}'}
    for cplx in (0, 1):
        for p in (3, 4, 5):
            m = Machine(mod); w = 2 if cplx else 1; xs = [fsym(f'x{i}') for i in range(w * n)]
            try: r = m.call('@h_normp', [cplx, p, m.alloc_doubles(xs, 'x'), n])
            except (Throw, UB, Unsupported) as e: res.absorb(m); res.inc(f'norm p={p}: {type(e).__name__} {str(e)[:100]}'); continue
            res.absorb(m); ok = isF(r) and r.op == 'call' and r.args[0] == 'pow' and not m.taken
            if ok:
                st = [r.args[1]]; leaves = []
                while st:
                    u = st.pop()
                    if isF(u) and u.op == 'fadd': st.extend(u.args)
                    elif not isF(u) and u == 0.0: pass
                    else: leaves.append(u)
                ok = len(leaves) == n and all(isF(u) and u.op == 'call' and u.args[0] == 'pow' and not isF(u.args[2]) and u.args[2] == float(p) for u in leaves)
                if ok:
                    idx = sorted(i for u in leaves for i in range(n) if mag_ok(u.args[1], i, cplx)); ok = idx == list(range(n)) and not isF(r.args[2]) and abs(r.args[2] - 1.0 / p) < 1e-15
            label = f"norm({'complex ' if cplx else ''}x[{n}], {p})"
            sol = z3.Solver(); sol.add(z3.Not(z3.BoolVal(bool(ok))))
            if timed_check(sol, res) == z3.unsat: res.ob(True, 'UF', f'{label}: pow(sum_i pow(|x_i|, {p}), 1/{p}) over the element magnitudes, for every x')
            else:
                xv = [(-1.0) ** (i + 1) * (1.0 + 0.5 * i) for i in range(w * n)]
                confirm(res, PID, HARNESS, 'h_normp', [('i32', cplx), ('i32', p), ('pf64', xv), ('i32', n)], 'f64', 'normp', ORACLES, f'norm:p={p}:{"cmplx" if cplx else "real"}', f'{label}: not the p-norm of the element magnitudes')
            for xv in ([(-1.0) ** (i + 1) * (1.0 + 0.75 * (i % 5)) for i in range(w * n)], [0.0] * (w * n), [-2.0] * (w * n)):
                mm = Machine(mod); rr = mm.call('@h_normp', [cplx, p, mm.alloc_doubles(xv, 'x'), n]); res.absorb(mm)
                bad, why = o_normp([('i32', cplx), ('i32', p), ('pf64', xv), ('i32', n)], {'status': 'ok', 'ret': rr}, None)
                sol = z3.Solver(); sol.add(z3.BoolVal(bool(bad)))
                if timed_check(sol, res) == z3.unsat: res.ob(True, 'ground', f'{label} at {xv}')
                else: confirm(res, PID, HARNESS, 'h_normp', [('i32', cplx), ('i32', p), ('pf64', xv), ('i32', n)], 'f64', 'normp', ORACLES, f'norm:p={p}:{"cmplx" if cplx else "real"}', f'{label}: {why}')

JOBFNS = {'normp': job_normp, 'round': job_round, 'cumsum': job_cumsum, 'power_points': job_power_points, 'power_sym': job_power_sym, 'arange_i': job_arange_i, 'arange_f': job_arange_f, 'shape': job_shape, 'reduce': job_reduce, 'linspace': job_linspace, 'angle': job_angle}

def selftest(st):
    calls = [('h_arange_i', [('i32', a & 0xffffffff), ('i32', b & 0xffffffff), ('i32', s_ & 0xffffffff), ('pf64', [0.0] * 32), ('i32', 32)], 'i32') for a, b, s_ in [(0, 10, 1), (0, 10, 2), (1, 100 // 10, 3), (5, -5, -2), (-12, 12, 5)]]
    x = [0.5, -1.25, 3.0, 2.5, -0.75, 4.0, 1.0, 8.0, 0.1, 0.2, 0.3, 0.4]
    calls += [('h_shape', [('i32', k), ('pf64', x), ('i32', 4), ('i32', p1), ('i32', p2), ('pf64', [0.0] * 200)], 'i32') for k, p1, p2 in [(0, 3, 1), (1, 2, 1), (2, 7, 0), (3, 2, 0), (3, 0xfffffffe, 0), (4, 0, 0), (5, 3, 0), (6, 3, 2), (7, 2, 0), (8, 1, 0)]]
    calls += [('h_reduce', [('i32', k), ('pf64', x), ('i32', 5), ('pf64', [0.0] * 12)], 'i32') for k in range(16)]
    calls += [('h_reduce_c', [('i32', k), ('pf64', x), ('i32', 3), ('pf64', [0.0] * 8)], 'i32') for k in range(11)]
    calls += [('h_reduce', [('i32', 16), ('pf64', x), ('i32', 5), ('pf64', [0.0] * 12)], 'i32'), ('h_reduce_c', [('i32', 11), ('pf64', x), ('i32', 3), ('pf64', [0.0] * 8)], 'i32'), ('h_reduce_c', [('i32', 12), ('pf64', x), ('i32', 3), ('pf64', [0.0] * 8)], 'i32')]
    calls += [('h_power', [('i32', k), ('f64', re), ('f64', im), ('f64', 1.5), ('i32', 3), ('pf64', [0.0] * 4)], 'i32') for k in range(13) for re, im in ((2.0, 0.5), (-2.0, -0.0))if not (k in (0, 4, 7, 8, 12) and re < 0)]
    calls += [('h_linspace', [('f64', -1.0), ('f64', 2.0), ('i32', 7), ('pf64', [0.0] * 7)], 'i32'), ('h_angle', [('f64', -1.0), ('f64', 0.5)], 'f64')]
    selftest_calls(st, HARNESS, calls)

def main(tier, seed):
    q = tier == 'quick'; jobs = []
    starts = (-12, -5, 0, 3, 12) if q else range(-12, 13); steps = (1, -1, 2, -2, 3, -3, 5, -7, 12, -12) if q else [s_ for s_ in range(-12, 13) if s_]
    combos = [(a, s_) for a in starts for s_ in steps]
    for i in range(0, len(combos), 4): jobs.append((f'arange int {combos[i]}..', 'arange_i', dict(combos=combos[i:i + 4]), 3000))
    jobs.append(('arange fractional grid', 'arange_f', {}, 600))
    for k in range(10):
        for n in ((1, 3, 5) if q else (1, 2, 3, 5, 8, 12)):
            if k in (0, 6, 7) and n > 5: continue
            jobs.append((f'shape k={k} n={n}', 'shape', dict(k=k, n=n), 3000))
    for n in ((1, 2, 3, 4, 5, 7) if q else (1, 2, 3, 4, 5, 6, 7)): jobs.append((f'reductions n={n}', 'reduce', dict(n=n), 3000))
    for n in ((1, 2, 5) if q else (1, 2, 3, 4, 5, 8, 16, 33)): jobs.append((f'cumsum n={n}', 'cumsum', dict(n=n), 600))
    for kind in range(13): jobs.append((f'power special points kind={kind}', 'power_points', dict(kinds=[kind]), 900))
    jobs.append(('power symbolic', 'power_sym', {}, 600)); jobs.append(('round', 'round', {}, 600))
    for n in ((1, 3) if q else (1, 2, 3, 5)): jobs.append((f'norm p n={n}', 'normp', dict(n=n), 600))
    for n in ((1, 2, 3, 5, 8) if q else (1, 2, 3, 4, 5, 7, 10, 33, 100)): jobs.append((f'linspace n={n}', 'linspace', dict(n=n), 600))
    jobs.append(('angle special points', 'angle', {}, 300))
    return run_property(PID, tier, HARNESS, jobs, JOBFNS,
        level_text='Shapes and index arithmetic with symbolic ints: integer arange (stop and step symbolic in [-12,12], start enumerated; the round/convert chain is modelled with integer-part semantics) and '
                   'upsample / downsample / zeropad / delayseq / flip / repelem with symbolic factor, phase, length or delay and symbolic elements: every path must return exactly the designated elements (same terms), zeros '
                   'elsewhere and the documented length, and throw only outside the documented range. Algebraic reductions (sum, mean, rms, stddev, norm 1/2, dot, cumsum, abs2, complex sum / rms / abs2 / conj / round trips) '
                   'as real-arithmetic identities on symbolic arrays; min / max / argmin / argmax / peak2peak on every comparison path; linspace affine with exact end points; angle at the axes / signed-zero special points.',
        assumptions=['REAL arithmetic for the reductions (rounding outside)', 'sqrt modelled as the non-negative root'],
        bounds={'arange': 'stop symbolic in [-12, 12]; (start, step) enumerated: 5 x 10 combinations quick, all 25 x 24 thorough', 'arrays': 'length 1..5 (quick) / 12', 'parameters': 'factor / phase / length / delay symbolic in [-3, n+4]'},
        outside=['every statement of the form "libm value within a few ulp" (exp, log*, pow, tanh, expj, dB conversions, angle away from the special points): transcendental functions at arbitrary arguments are not decidable with the tools present',
                 'inverse pairs through pow/log10'], seed=seed, selftest=selftest)

def replay(path): return replay_main(path, ORACLES)
