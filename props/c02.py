"""C02 — inverse transforms (P-LIN against the exact inverse / identity; odd-n rejection; stft/istft round trip)."""
from common import *
from plin import *
PID = 'C02'; HARNESS = 'C02.cpp'
H_THROW = (-1000000) & 0xffffffff

# ---------------------------------------------------------------- oracles (native replay, 50-digit reference)
def mp_idft(X, n):
    w = [mpmath.expjpi(mpmath.mpf(2 * q) / n) for q in range(n)]
    return [mpmath.fsum(X[k] * w[(j * k) % n] for k in range(n)) / n for j in range(n)]
def l2(v): return mpmath.sqrt(mpmath.fsum(abs(a) ** 2 for a in v))
def o_inv(spec, r, extra):
    fn = extra['fn']; n = extra['n']
    if r['status'] != 'ok': return True, f"{fn} n={n}: {r['status']} {r.get('stderr', '')[-300:]}"
    if r['ret'] == H_THROW: return True, f"{fn} n={n}: threw on a valid length"
    x = spec[0][1]
    if extra['what'] == 'ifft':
        X = [mpmath.mpc(x[2 * i], x[2 * i + 1]) for i in range(n)]; exp = mp_idft(X, n)
        got = [mpmath.mpc(r['outs'][-1][2 * i], r['outs'][-1][2 * i + 1]) for i in range(n)]
    elif extra['what'] == 'rt':
        exp = [mpmath.mpc(x[2 * i], x[2 * i + 1]) for i in range(n)]; got = [mpmath.mpc(r['outs'][-1][2 * i], r['outs'][-1][2 * i + 1]) for i in range(n)]
    elif extra['what'] == 'irfft':
        nb = extra['nb']; X = [mpmath.mpc(x[2 * i], x[2 * i + 1]) for i in range(nb)]
        full = [X[k] if k <= n // 2 else mpmath.conj(X[n - k]) for k in range(n)]
        exp = [mpmath.re(v) for v in mp_idft(full, n)]; got = [mpmath.mpf(v) for v in r['outs'][-1][:n]]
    else:   # irfft(rfft(x))
        exp = [mpmath.mpf(v) for v in x[:n]]; got = [mpmath.mpf(v) for v in r['outs'][-1][:n]]
    if r['ret'] != n: return True, f"{fn} n={n}: returned length {sgn(r['ret'], 32)}"
    if any(not mpmath.isfinite(g) for g in got): return True, f"{fn} n={n}: non-finite output"
    den = l2(exp); e = l2([g - q for g, q in zip(got, exp)]) / (den if den != 0 else 1); tol = 64 * n * EPS
    return e > tol, f"{fn} n={n}: relative l2 error {mpmath.nstr(e, 5)} vs tolerance 64*n*eps = {tol:.3g}; got {[float(mpmath.re(g)) for g in got[:6]]} expected {[float(mpmath.re(q)) for q in exp[:6]]}"
def o_odd(spec, r, extra):
    n = extra['n']
    if r['status'] == 'crash':
        ls = [l for l in r['stderr'].split('\n') if 'runtime error' in l or 'ERROR: AddressSanitizer' in l]
        return True, f"irfft with odd n={n}: " + (ls[0] if ls else 'crash ' + r['stderr'][-200:])
    if r['status'] != 'ok': return True, f"irfft odd n={n}: {r['status']}"
    return r['ret'] != H_THROW, f"irfft with odd n={n} must be rejected with an exception, returned {sgn(r['ret'], 32)}"
def o_stft(spec, r, extra):
    if r['status'] != 'ok': return True, f"istft(stft(x)) {extra['cfg']}: {r['status']} {r.get('stderr', '')[-200:]}"
    if r['ret'] == H_THROW: return True, f"istft(stft(x)) {extra['cfg']}: threw"
    x = spec[0][1]; y = r['outs'][-1]; xlen = r['ret']; wt = extra['weight']
    if xlen != extra['xlen']: return True, f"istft(stft(x)) {extra['cfg']}: length {xlen}, expected {extra['xlen']}"
    scale = max(abs(v) for v in x) or 1.0
    for k in range(xlen):
        if y[k] != y[k] or abs(y[k]) == float('inf'): return True, f"istft(stft(x)) {extra['cfg']}: sample {k} is {y[k]} (accumulated window weight {wt[k]:.3g})"
        if wt[k] > extra['wthr'] and abs(y[k] - x[k]) > 1e-9 * scale: return True, f"istft(stft(x)) {extra['cfg']}: sample {k} = {y[k]!r}, input {x[k]!r} (weight {wt[k]:.3g})"
    return False, 'round trip ok'
def o_stft_default(spec, r, extra):
    x = spec[0][1]; nx = spec[1][1]; nfft = spec[2][1]
    if r['status'] != 'ok' or r['ret'] == H_THROW: return True, f"istft(stft(x, {nfft}), {nfft}): {r['status']} / threw"
    y = r['outs'][-1]; n = r['ret']; scale = max(abs(v) for v in x) or 1.0
    for k in range(1, n):
        if y[k] != y[k] or abs(y[k] - x[k]) > 1e-9 * scale: return True, f"istft(stft(x, {nfft}), {nfft}) (default window / overlap on both sides): sample {k} = {y[k]!r}, input {x[k]!r}"
    return False, 'round trip ok'
ORACLES = {'inv': o_inv, 'odd': o_odd, 'stft': o_stft, 'stft_default': o_stft_default}

def run_once(res, fn, spec, label, max_steps=200_000_000):
    mod, so = load(HARNESS); m = Machine(mod, max_steps=max_steps)
    try: r, outs, ptrs = sym_call(m, fn, spec, 'i32'); st = 'ret'
    except Throw: r = outs = None; st = 'throw'
    except UB as e: r = outs = None; st = 'ub: ' + str(e)[:300]
    res.absorb(m)
    if st == 'ret' and (m.pending or m.taken): st = 'fork'
    return m, r, outs, st

def check_matrix(res, m, ys, insyms, ref, budget, label, cex, half_embed=False):
    rows = plin_matrix(res, m, ys, insyms, label)
    if rows is None: return
    f2 = fro2(rows, ref, insyms)
    if half_embed: f2 = f2 / 2
    ok = ground_le(res, f2, budget * budget, 'fro')
    ratio = float(mpmath.sqrt(mpmath.mpf(f2.numerator) / f2.denominator) / (mpmath.mpf(budget.numerator) / budget.denominator)) if f2 else 0.0
    if ok: res.ob(True, 'LRA-ground', f'{label}: ||C - R||_F within budget (ratio {ratio:.3g})'); res.notes.append(f'{label}: ratio {ratio:.3g}')
    else:
        xv = worst_input(rows, ref, insyms)
        if not cex(xv, f'{label}: transfer matrix differs from the reference (||C-R||_F = {ratio:.3g} x budget)'):
            col = max(range(len(insyms)), key=lambda j: sum(float(row.get(insyms[j], 0) - rr[j]) ** 2 for row, rr in zip(rows, ref)))
            cex([1.0 if j == col else 0.0 for j in range(len(insyms))], f'{label}: transfer matrix differs from the reference in column {col} (ratio {ratio:.3g})')

def job_inv(res, fn, n):
    """ifft / IfftPlan / ifft(fft(x)): complex in, complex out"""
    insyms = [f'x{i}' for i in range(2 * n)]
    spec = [('pf64', [fsym(s) for s in insyms]), ('i32', n), ('pf64', [0.0] * (2 * n))]
    label = f'{fn} n={n}'; what = 'rt' if fn == 'h_ifft_fft' else 'ifft'
    ex = {'fn': fn, 'n': n, 'what': what}
    def cex(xv, why): return confirm(res, PID, HARNESS, fn, [('pf64', xv), ('i32', n), ('pf64', [0.0] * (2 * n))], 'i32', 'inv', ORACLES, f'{what}:{fn}:n={n}', why, extra=ex, timeout=120)
    m, r, outs, st = run_once(res, fn, spec, label)
    if what == 'rt':
        ref = [[Fraction(int(i == j)) for j in range(2 * n)] for i in range(2 * n)]; budget = Fraction(1, 2) * 64 * n * Fraction(EPS)
    else:
        ref = dft_ref_complex_in(n, n, sign=+1, scale=Fraction(1, n)); budget = Fraction(1, 2) * 64 * n * Fraction(EPS) / to_frac(mpmath.sqrt(n))
    if st == 'fork':
        region_check(res, HARNESS, fn, spec, insyms, 1, 2 * n, ref, 2 * budget * to_frac(mpmath.sqrt(2 * n)), label, cex); return
    if st != 'ret':
        cex([((i * 7919 + 13) % 1000) / 1000.0 - 0.5 for i in range(2 * n)], f'{label}: {st}')
        return
    if r != n: cex([1.0] * (2 * n), f'{label}: returned length {r}'); return
    check_matrix(res, m, outs[-1][:2 * n], insyms, ref, budget, label, cex, half_embed=True)

def irfft_inputs(n, nb):
    """symbolic spectrum of a real signal: X0, X_{n/2} real; bins 1..n/2-1 complex; upper bins (if nb == n) = conjugate mirror"""
    h = n // 2; insyms = ['X0r'] + [f'X{k}{c}' for k in range(1, h) for c in 'ri'] + (['XNr'] if n >= 2 else [])
    def bin_(k):
        if k == 0: return [fsym('X0r'), 0.0]
        if k == h: return [fsym('XNr'), 0.0]
        if k < h: return [fsym(f'X{k}r'), fsym(f'X{k}i')]
        return [fsym(f'X{n - k}r'), F('fneg', fsym(f'X{n - k}i'))]
    arr = []
    for k in range(nb): arr += bin_(k)
    return insyms, arr
def irfft_ref(n, insyms):
    cs = dft_cs(n); h = n // 2; rows = []
    for m_ in range(n):
        row = []
        for s in insyms:
            if s == 'X0r': row.append(Fraction(1, n))
            elif s == 'XNr': row.append(Fraction((-1) ** m_, n))
            else:
                k = int(s[1:-1]); c, sn = cs[(k * m_) % n]      # cs holds cos/sin of -2 pi q / n
                row.append(Fraction(2, n) * c if s[-1] == 'r' else Fraction(2, n) * sn)   # Re(Xk e^{+i a}) = Xr cos a - Xi sin a ; sin(-t) = -sin t
        rows.append(row)
    return rows

def job_irfft(res, fn, n, nb):
    insyms, arr = irfft_inputs(n, nb)
    spec = [('pf64', arr), ('i32', nb), ('i32', n), ('pf64', [0.0] * n)]
    label = f'{fn} n={n} bins={nb}'; ex = {'fn': fn, 'n': n, 'what': 'irfft', 'nb': nb}
    def conc(xv):
        env = dict(zip(insyms, xv)); out = []
        for v in arr:
            if isF(v): out.append(env[v.args[0]] if v.op == 'sym' else -env[v.args[0].args[0]])
            else: out.append(v)
        return out
    def cex(xv, why): return confirm(res, PID, HARNESS, fn, [('pf64', conc(xv)), ('i32', nb), ('i32', n), ('pf64', [0.0] * n)], 'i32', 'inv', ORACLES, f'irfft:{fn}:n%4={n % 4}' + (':n=2' if n == 2 else ''), why, extra=ex, timeout=120)
    m, r, outs, st = run_once(res, fn, spec, label)
    budget = Fraction(1, 2) * 64 * n * Fraction(EPS) / to_frac(mpmath.sqrt(n))
    if st == 'fork':
        region_check(res, HARNESS, fn, spec, insyms, 1, n, irfft_ref(n, insyms), 2 * budget * to_frac(mpmath.sqrt(n)), label, cex); return
    if st != 'ret':
        cex([0.5 + 0.1 * i for i in range(len(insyms))], f'{label}: {st}')
        return
    if r != n: cex([1.0] * len(insyms), f'{label}: returned length {r}'); return
    check_matrix(res, m, outs[-1][:n], insyms, irfft_ref(n, insyms), budget, label, cex)

def job_irfft_rt(res, n, half):
    insyms = [f'x{i}' for i in range(n)]; fn = 'h_irfft_rfft'
    spec = [('pf64', [fsym(s) for s in insyms]), ('i32', n), ('i32', half), ('pf64', [0.0] * n)]
    label = f'irfft(rfft(x)) n={n} {"n/2+1 bins" if half else "all bins"}'; ex = {'fn': fn, 'n': n, 'what': 'irt'}
    def cex(xv, why): return confirm(res, PID, HARNESS, fn, [('pf64', xv), ('i32', n), ('i32', half), ('pf64', [0.0] * n)], 'i32', 'inv', ORACLES, f'irfft_rt:n%4={n % 4}' + (':n=2' if n == 2 else ''), why, extra=ex, timeout=120)
    m, r, outs, st = run_once(res, fn, spec, label)
    ref = [[Fraction(int(i == j)) for j in range(n)] for i in range(n)]
    if st == 'fork':
        region_check(res, HARNESS, fn, spec, insyms, 1, n, ref, 64 * n * Fraction(EPS) * to_frac(mpmath.sqrt(n)), label, cex); return
    if st != 'ret':
        cex([0.5 + 0.1 * i for i in range(n)], f'{label}: {st}')
        return
    if r != n: cex([1.0] * n, f'{label}: returned length {r}'); return
    check_matrix(res, m, outs[-1][:n], insyms, ref, Fraction(1, 2) * 64 * n * Fraction(EPS), label, cex)

def job_odd(res, fn, n):
    """odd n must be rejected by an exception, with no UB before the throw"""
    nb = n; arr = [fsym(f'X{i}') for i in range(2 * nb)]
    spec = [('pf64', arr), ('i32', nb), ('i32', n), ('pf64', [0.0] * (2 * n + 4))]      # room for a wrongly accepted request of up to 2n samples
    m, r, outs, st = run_once(res, fn, spec, f'{fn} odd n={n}')
    conc = [('pf64', [0.25 * (i + 1) for i in range(2 * nb)]), ('i32', nb), ('i32', n), ('pf64', [0.0] * (2 * n + 4))]
    if st == 'throw' and not m.ub_found: res.ob(True, 'PATH', f'{fn} odd n={n}: ends in a throw with all memory obligations met'); return
    if st == 'fork': res.inc(f'{fn} odd n={n}: data-dependent control flow'); return
    why = f'{fn} with odd n={n}: ' + ('accepted (returned normally)' if st == 'ret' else f'undefined behaviour before the rejection: {st} {[u[1] for u in m.ub_found][:2]}')
    confirm(res, PID, HARNESS, fn, conc, 'i32', 'odd', ORACLES, f'irfft:odd:{"ret" if st == "ret" else "ub"}', why, extra={'n': n}, san=(st != 'ret'))

def job_irfft_after_odd(res, n):
    """irfft(X, n+1) (odd, rejected) and then irfft(X, n) in the same thread: the second call must still be the inverse transform"""
    mod, so = load(HARNESS); nb = n; insyms, arr = irfft_inputs(n, nb); label = f'irfft n={n} after the rejected irfft n={n + 1}'
    m = Machine(mod, max_steps=200_000_000); threw = False
    try: sym_call(m, 'h_irfft', [('pf64', arr), ('i32', nb), ('i32', n + 1), ('pf64', [0.0] * (n + 1))], 'i32')
    except Throw: threw = True
    except UB as e: res.absorb(m); res.inc(f'{label}: UB in the rejected call'); return
    if not threw: res.absorb(m); res.inc(f'{label}: odd length was not rejected'); return
    m.pending = []
    def conc(xv):
        env = dict(zip(insyms, xv)); out = []
        for v in arr:
            if isF(v): out.append(env[v.args[0]] if v.op == 'sym' else -env[v.args[0].args[0]])
            else: out.append(v)
        return out
    ex = {'fn': 'h_irfft_after_odd', 'n': n, 'what': 'irfft', 'nb': nb}
    def cex(xv, why): return confirm(res, PID, HARNESS, 'h_irfft_after_odd', [('pf64', conc(xv)), ('i32', nb), ('i32', n), ('pf64', [0.0] * n)], 'i32', 'inv', ORACLES, 'irfft:after-odd', why, extra=ex, timeout=120)
    try: r, outs, _ = sym_call(m, 'h_irfft', [('pf64', arr), ('i32', nb), ('i32', n), ('pf64', [0.0] * n)], 'i32')
    except (Throw, UB) as e: res.absorb(m); cex([0.5 + 0.1 * i for i in range(len(insyms))], f'{label}: {type(e).__name__}'); return
    res.absorb(m)
    if m.taken: res.inc(f'{label}: data-dependent control flow'); return
    check_matrix(res, m, outs[-1][:n], insyms, irfft_ref(n, insyms), Fraction(1, 2) * 64 * n * Fraction(EPS) / to_frac(mpmath.sqrt(n)), label, cex)

WIN = ['hann', 'hamming', 'rect', 'cosine', 'blackman', 'kaiser']
def job_stft(res, kind, nwin, sym, overlap, nfft, rng, method, nx):
    mod, so = load(HARNESS)
    cfg = f'win={WIN[kind]}({nwin},{"sym" if sym else "periodic"}) overlap={overlap} nfft={nfft} range={["onesided", "twosided", "centered"][rng]} method={"wola" if method else "ola"} nx={nx}'
    # window + iscola verdict from the real code (concrete execution)
    mc = Machine(mod); w = mc.alloc_doubles([0.0] * nwin, 'w'); mc.call('@h_window', [kind, nwin, sym, w]); win = mc.read_doubles(w, nwin)
    mc2 = Machine(mod)
    try: cola = mc2.call('@h_iscola', [kind, nwin, sym, overlap, method])
    except (Throw, UB) as e: res.notes.append(f'{cfg}: iscola itself failed: {e}'); return
    if cola != 1: res.notes.append(f'{cfg}: not COLA, skipped'); return
    hop = nwin - overlap; nseg = (nx - overlap) // hop
    if nseg < 1: return
    xlen = nwin + (nseg - 1) * hop; a = 1 if method else 0
    wt = [0.0] * xlen
    for i in range(nseg):
        for k in range(nwin): wt[i * hop + k] += win[k] ** (a + 1)
    wthr = 1e-6 * max(wt)
    insyms = [f'x{i}' for i in range(nx)]
    spec = [('pf64', [fsym(s) for s in insyms]), ('i32', nx), ('i32', kind), ('i32', nwin), ('i32', sym), ('i32', overlap), ('i32', nfft), ('i32', rng), ('i32', method), ('pf64', [0.0] * nx)]
    ex = {'cfg': cfg, 'weight': wt, 'xlen': xlen, 'wthr': wthr}
    zero_w = [k for k in range(xlen) if wt[k] <= wthr]
    def cex(xv, why, key):
        return confirm(res, PID, HARNESS, 'h_stft_rt', [('pf64', xv)] + spec[1:9] + [('pf64', [0.0] * nx)], 'i32', 'stft', ORACLES, key, why, extra=ex, timeout=60)
    m, r, outs, st = run_once(res, 'h_stft_rt', spec, cfg)
    xv0 = [math.sin(0.7 * i) + 0.3 for i in range(nx)]
    if st == 'fork': res.inc(f'{cfg}: data-dependent control flow'); return
    if st != 'ret':
        cex(xv0, f'{cfg}: {st}', 'stft:throw' if st == 'throw' else 'stft:ub')
        return
    if r != xlen: cex(xv0, f'{cfg}: reconstructed length {r} instead of {xlen}', 'stft:length'); return
    ys = outs[-1][:xlen]
    # finite-values clause: no output may be a division by an exactly-zero weight
    try:
        rows = linear_forms(ys); nonfinite = None
    except ZeroDivisionError: nonfinite = 'division by an exactly zero accumulated weight'
    except (NonLinear, ValueError, OverflowError) as e: nonfinite = str(e)
    if nonfinite is None and any(not isF(y) and (y != y or abs(y) == float('inf')) for y in ys): nonfinite = 'constant non-finite output'
    if nonfinite:
        where = 'trailing sample' if zero_w and zero_w[-1] >= nseg else 'sample'
        cex(xv0, f'{cfg}: output contains a non-finite value ({nonfinite}); zero-weight samples {zero_w}', f'stft:nonfinite:{where}'); return
    res.ob(True, 'ground', f'{cfg}: no output cell divides by a zero constant')
    rows = plin_matrix(res, m, ys, insyms, cfg)
    if rows is None: return
    worst = Fraction(0); wk = None
    for k in range(xlen):
        if wt[k] <= wthr: continue
        dev = sum(abs(rows[k].get(s, 0) - (1 if j == k else 0)) for j, s in enumerate(insyms)) + abs(rows[k].get(1, 0))
        if dev > worst: worst = dev; wk = k
    tol = Fraction(1, 10 ** 10)
    if ground_le(res, worst, tol, 'row'): res.ob(True, 'LRA-ground', f'{cfg}: every reconstructed sample with non-zero weight equals the input sample (max row deviation {float(worst):.2g})')
    else:
        j = max(range(nx), key=lambda j: abs(float(rows[wk].get(insyms[j], 0) - (1 if j == wk else 0))))
        xv = [0.0] * nx; xv[j] = 1.0
        if not cex(xv, f'{cfg}: reconstructed sample {wk} is not the input sample (row deviation {float(worst):.3g}, input {j} leaks)', 'stft:value'):
            cex(xv0, f'{cfg}: reconstructed sample {wk} deviates (row deviation {float(worst):.3g})', 'stft:value')

def job_stft_default(res, nfft, nx):
    insyms = [f'x{i}' for i in range(nx)]
    spec = [('pf64', [fsym(s) for s in insyms]), ('i32', nx), ('i32', nfft), ('pf64', [0.0] * nx)]
    m, r, outs, st = run_once(res, 'h_stft_rt_default', spec, f'default stft nfft={nfft}')
    if st != 'ret': res.inc(f'default stft/istft nfft={nfft}: {st}'); return
    rows = plin_matrix(res, m, outs[-1][:r], insyms, f'default stft nfft={nfft}')
    if rows is None: return
    # periodic hann, 50% overlap, wola: weight zero only at sample 0
    worst = max(sum(abs(rows[k].get(s, 0) - (1 if j == k else 0)) for j, s in enumerate(insyms)) for k in range(1, r))
    if ground_le(res, worst, Fraction(1, 10 ** 10), 'row'): res.ob(True, 'LRA-ground', f'default stft/istft nfft={nfft} nx={nx}: samples 1.. reproduce the input')
    else:
        k = max(range(1, r), key=lambda k_: sum(abs(rows[k_].get(s_, 0) - (1 if j == k_ else 0)) for j, s_ in enumerate(insyms)))
        xv = [0.5 + 0.25 * math.sin(1.0 + 2.1 * i) for i in range(nx)]
        confirm(res, PID, HARNESS, 'h_stft_rt_default', [('pf64', xv), ('i32', nx), ('i32', nfft), ('pf64', [0.0] * nx)], 'i32', 'stft_default', ORACLES, 'stft:default-overloads',
                f'istft(stft(x, {nfft}), {nfft}) with the default window / overlap of both overloads: sample {k} is not the input sample (row deviation {float(worst):.3g})')

JOBFNS = {'irfft_after_odd': job_irfft_after_odd, 'inv': job_inv, 'irfft': job_irfft, 'irfft_rt': job_irfft_rt, 'odd': job_odd, 'stft': job_stft, 'stft_default': job_stft_default}

def selftest(st):
    mod, so = load(HARNESS); calls = []
    for n in (1, 2, 3, 4, 6, 8, 12, 16, 20, 30):
        x = [((i * 7919 + 13) % 1000) / 1000.0 - 0.5 for i in range(2 * n)]
        calls.append(('h_ifft', [('pf64', x), ('i32', n), ('pf64', [0.0] * 2 * n)]))
        if n % 2 == 0:
            calls.append(('h_irfft_rfft', [('pf64', x[:n]), ('i32', n), ('i32', 1), ('pf64', [0.0] * n)]))
            calls.append(('h_irfft', [('pf64', x), ('i32', n), ('i32', n), ('pf64', [0.0] * n)]))
    calls.append(('h_stft_rt', [('pf64', [math.sin(i) for i in range(30)]), ('i32', 30), ('i32', 0), ('i32', 8), ('i32', 0), ('i32', 4), ('i32', 8), ('i32', 0), ('i32', 1), ('pf64', [0.0] * 30)]))
    calls.append(('h_stft_rt', [('pf64', [math.sin(i) for i in range(30)]), ('i32', 30), ('i32', 1), ('i32', 8), ('i32', 0), ('i32', 6), ('i32', 12), ('i32', 2), ('i32', 0), ('pf64', [0.0] * 30)]))
    nat = native_batch(so, [(fn, spec, 'i32') for fn, spec in calls])
    for (fn, spec), nres in zip(calls, nat):
        m = Machine(mod, max_steps=100_000_000)
        try: r, outs, _ = sym_call(m, fn, spec, 'i32')
        except Throw: r, outs = H_THROW, None
        st.selftests += 1
        ok = nres['status'] == 'ok' and r == nres['ret'] and (outs is None or all(same_bits(a, b) for a, b in zip(outs[-1], nres['outs'][-1])))
        if not ok: st.viol('selftest', f'{fn} {spec[1:4]}: symir and native differ')
        else: st.ob(True, 'concrete')

def main(tier, seed):
    q = tier == 'quick'; jobs = []
    inv_sizes = (list(range(1, 33)) + [36, 40, 48]) if q else (list(range(1, 43)) + [43, 47] + [n for n in range(44, 97) if _lpf(n) < 43] + [128])      # thorough: lengths with a prime factor >= 43 other than 43, 47 need > 1 h of exact rationals each
    for n in inv_sizes:
        jobs.append((f'ifft n={n}', 'inv', dict(fn='h_ifft', n=n), 3000))
        if n <= (32 if q else 48): jobs.append((f'ifft(fft) n={n}', 'inv', dict(fn='h_ifft_fft', n=n), 3000))
        if n <= (16 if q else 64): jobs.append((f'IfftPlan n={n}', 'inv', dict(fn='h_ifftplan', n=n), 3000))
    ev = list(range(2, 49, 2)) if q else [n for n in range(2, 97, 2) if _lpf(n) < 43] + [128]
    for n in ev[:(8 if q else 24)]: jobs.append((f'irfft(X) one-argument n={n}', 'irfft', dict(fn='h_irfft1', n=n, nb=n), 3000))
    for n in ev:
        for nb in (n, n // 2 + 1):
            jobs.append((f'irfft n={n} nb={nb}', 'irfft', dict(fn='h_irfft', n=n, nb=nb), 3000))
        if n <= (24 if q else 64): jobs.append((f'IfftPlanR n={n}', 'irfft', dict(fn='h_irfftplan', n=n, nb=n // 2 + 1), 3000))
        for half in (0, 1): jobs.append((f'irfft(rfft) n={n} half={half}', 'irfft_rt', dict(n=n, half=half), 3000))
    for n in ((1, 3, 5, 7) if q else (1, 3, 5, 7, 9, 15, 21, 33)):
        jobs.append((f'irfft odd n={n}', 'odd', dict(fn='h_irfft', n=n), 600))
        if n > 1: jobs.append((f'irfft n={n - 1} after odd', 'irfft_after_odd', dict(n=n - 1), 600))
        jobs.append((f'IfftPlanR odd n={n}', 'odd', dict(fn='h_irfftplan', n=n), 600)); jobs.append((f'irfft(X) one-argument odd n={n}', 'odd', dict(fn='h_irfft1', n=n), 600))
    # stft grid: every overlap (filtered by the real iscola), nwin <= nfft
    grid = []
    nffts = [8, 12, 16] if q else [8, 12, 16, 20, 32]
    kinds = [0, 1, 2, 3] if q else [0, 1, 2, 3, 4, 5]
    for nfft in nffts:
        for nwin in sorted({nfft, nfft - 1, nfft // 2 + 1} if not q else {nfft, nfft - 3}):
            for kind in kinds:
                for sym in ((0, 1) if kind not in (2, 5) else (1,)):
                    for overlap in range(0, nwin):
                        for method in (0, 1):
                            grid.append((kind, nwin, sym, overlap, nfft, method))
    for i, (kind, nwin, sym, overlap, nfft, method) in enumerate(grid):
        rng = i % 3; hop = nwin - overlap
        nx = nwin + 2 * hop + (i % max(hop, 1)) + (1 if hop > 1 else 0)
        jobs.append((f'stft #{i}', 'stft', dict(kind=kind, nwin=nwin, sym=sym, overlap=overlap, nfft=nfft, rng=rng, method=method, nx=nx), 900))
        if not q:
            jobs.append((f'stft #{i}b', 'stft', dict(kind=kind, nwin=nwin, sym=sym, overlap=overlap, nfft=nfft, rng=(rng + 1) % 3, method=method, nx=nx + hop), 900))
    for nfft in ((8, 16) if q else (8, 16, 32)): jobs.append((f'stft default nfft={nfft}', 'stft_default', dict(nfft=nfft, nx=3 * nfft + 3), 900))
    jobs.sort(key=lambda j: -j[2].get('n', 0))
    return run_property(PID, tier, HARNESS, jobs, JOBFNS,
        level_text='Each inverse transform is executed once per length with all inputs symbolic; z3 (QF_LRA) certifies per output that the code is a fixed rational matrix, which is compared '
                   'exactly with the inverse DFT / identity (Frobenius norm within half of 64*n*eps). Odd n: the single path must end in a throw with every memory obligation met. '
                   'stft->istft: for each (window, overlap, nfft, range, method) accepted by the real iscola, the composite map is certified linear and every row with non-zero '
                   'accumulated weight equals the unit row; no output divides by a zero constant.',
        assumptions=['REAL theory (data-path rounding outside; tables inside)', 'irfft input is the spectrum of a real signal: Im X[0] = Im X[n/2] = 0 and, in the n-bin form, the upper half is the conjugate mirror',
                     '"non-zero accumulated weight" is taken as > 1e-6 of the maximum weight (weights of 1e-17 at Blackman ends amplify rounding and are excluded)'],
        bounds={'ifft / ifft(fft)': f'{len(inv_sizes)} lengths up to {inv_sizes[-1]}', 'irfft': f'even n up to {ev[-1]}, both input forms; odd n rejection', 'stft': f'{len(grid)} candidate (window,overlap,nfft,method) tuples, those with iscola true are checked; 3 frames + unaligned tail'},
        outside=['lengths / nfft above the bound', 'rounding of the data path'], seed=seed, selftest=selftest)

def _lpf(n):
    f = 2; m_ = n; big = 1
    while f * f <= m_:
        while m_ % f == 0: big = max(big, f); m_ //= f
        f += 1
    return max(big, m_) if m_ > 1 else big
def _is_prime(n): return n >= 2 and all(n % d for d in range(2, int(n ** 0.5) + 1))
def replay(path): return replay_main(path, ORACLES)
