"""C20 — dynamics processors: gain range, static curves, knee continuity / monotonicity, limiter ceiling, smoothing, gate and AGC invariants (P-STEP, P-POLY with listed axioms)."""
from common import *
TOL = z3.RealVal(Fraction(1, 10 ** 9))      # coefficients such as 1/ratio and 1 - w are rounded doubles inside the code: claims hold up to this absolute slack (dB / linear gain)
def zabs(e): return z3.If(e >= 0, e, -e)
PID = 'C20'; HARNESS = 'C20.cpp'
H_THROW = (-1000000) & 0xffffffff
EPS = 2.0 ** -52

# ---------------------------------------------------------------- documented static characteristics (dB domain), python side
def py_curve(kind, T, R, W, L):
    """output level for input level L"""
    if L >= T + W / 2 or (W == 0 and L >= T): return T + (L - T) / R if kind == 'comp' else T
    if W > 0 and L > T - W / 2:
        return L + (1.0 / R - 1.0) * (L - T + W / 2) ** 2 / (2 * W) if kind == 'comp' else L - (L - T + W / 2) ** 2 / (2 * W)
    return L
def z_curve(kind, T, R, W, L):
    slope = (L - T) / R if kind == 'comp' else z3.RealVal(0)
    knee = (z3.RealVal(Fraction(1, R)) - 1) * (L - T + W / 2) * (L - T + W / 2) / (2 * W) if kind == 'comp' else -(L - T + W / 2) * (L - T + W / 2) / (2 * W)
    return z3.If(L >= T + W / 2, T + slope, z3.If(z3.And(L > T - W / 2, L < T + W / 2), L + knee, L))

def level(x): return 20 * math.log10(abs(x) + EPS)
def o_curve(spec, r, extra):
    kind = extra['kind']
    if kind == 'comp': T, R, W, x = spec[0][1], spec[1][1], spec[2][1], spec[3][1]
    else: T, W, x = spec[0][1], spec[1][1], spec[2][1]; R = 1
    if r['status'] != 'ok': return True, f"{kind}: {r['status']}"
    L = level(x); exp = py_curve(kind, T, R, W, L) - L
    return abs(r['ret'] - exp) > 1e-9 * max(1.0, abs(L)), f"{'Compressor' if kind == 'comp' else 'Limiter'}(threshold={T}, ratio={R}, knee={W}): input level {L:.6f} dB gets gain {r['ret']:.6f} dB, the documented static curve gives {exp:.6f} dB (output level {L + r['ret']:.6f} vs {L + exp:.6f})"
def o_cont(spec, r, extra):
    """continuity: gains just below and just above the knee edge must agree"""
    return o_curve(spec, r, extra)
def o_step(spec, r, extra):
    if r['status'] != 'ok' or r['ret'] == H_THROW: return True, f"step: {r['status']} / threw"
    o = r['outs'][0]; return (not extra['check'](spec, o)), f"{extra['desc']}: gain={o[0]!r} out={o[1]!r} state={o[2]!r}"
def o_cstep(spec, r, extra):
    kind = extra['kind']
    if kind == 'comp': fs, T, R, W, ta, tr, gs0, x = [spec[i][1] for i in range(8)]
    else: fs, T, W, ta, tr, gs0, x = [spec[i][1] for i in range(7)]; R = 1
    if r['status'] != 'ok' or r['ret'] == H_THROW: return True, f"step: {r['status']} / threw"
    o = r['outs'][0]; L = level(x); gc = py_curve(kind, T, R, W, L) - L
    wa = math.exp(-math.log(9) / (fs * ta)) if ta > 0 else 0.0; wr = math.exp(-math.log(9) / (fs * tr)) if tr > 0 else 0.0
    w = wa if gc <= gs0 else wr; gs1 = w * gs0 + (1 - w) * gc; gain = 10 ** (gs1 / 20)
    bad = abs(o[2] - gs1) > 1e-9 * max(1, abs(gs1)) or abs(o[0] - gain) > 1e-9 or abs(o[1] - x * gain) > 1e-9 * max(1, abs(x))
    return bad, f"{'Compressor' if kind == 'comp' else 'Limiter'}(T={T}, R={R}, W={W}, attack={ta}, release={tr}) one sample x={x!r} from smoothed gain {gs0} dB: new state {o[2]!r} dB gain {o[0]!r}; the smoothing recursion towards the static curve gives {gs1!r} dB gain {gain!r}"
def o_agc(spec, r, extra):
    if r['status'] != 'ok' or r['ret'] == H_THROW: return True, f"agc: {r['status']} / threw"
    g = r['outs'][2][:spec[6][1]]; lim = 10 ** (spec[1][1] / 20)
    return max(g) > lim * (1 + 1e-9), f"Agc(max_gain={spec[1][1]} dB): applied gains {g} exceed the limit {lim!r}"
def o_gstep(spec, r, extra):
    fs, T, ta, tr, th, lg0, cA0, x = [spec[i][1] for i in range(8)]
    if r['status'] != 'ok' or r['ret'] == H_THROW: return True, f"gate step: {r['status']} / threw"
    o = r['outs'][0]; tlin = 10 ** (T / 20); gc = 1.0 if abs(x) >= tlin else 0.0; tH = int(math.floor(th * fs)); cA0 = sgn(cA0, 32)
    wa = math.exp(-math.log(9) / (fs * ta)) if ta > 0 else 0.0; wr = math.exp(-math.log(9) / (fs * tr)) if tr > 0 else 0.0
    if gc == lg0: exp = lg0
    elif gc < lg0: exp = lg0 if cA0 < tH else wa * lg0 + (1 - wa) * gc
    else: exp = wr * lg0 + (1 - wr) * gc
    return abs(o[2] - exp) > 1e-9, f"NoiseGate(fs={fs}, attack={ta}, release={tr}, hold={th}) one sample x={x!r} from gain {lg0} (hold counter {cA0}): new gain {o[2]!r}; the one-pole step with a = exp(-ln 9/(fs*time)) gives {exp!r}"
ORACLES = {'curve': o_curve, 'cstep': o_cstep, 'agc': o_agc, 'gstep': o_gstep}

def Lx(m, x): return m.lower(x)

def job_curve(res, kind, R, Wmode):
    """static gain computer with T, W, x symbolic (R enumerated): every path: gain == documented curve; gain <= 0; limiter: output level <= T"""
    mod, so = load(HARNESS); fn = 'h_comp_curve' if kind == 'comp' else 'h_lim_curve'
    T = z3.Real('T'); W = z3.Real('W')
    def setup(m):
        Ts, Ws, xs = fsym('T'), (fsym('W') if Wmode == 'sym' else 0.0), fsym('x')
        m.assume(z3.And(T >= -50, T <= 0));
        if Wmode == 'sym': m.assume(z3.And(W > 0, W <= 20))
        return ([Ts, R, Ws, xs] if kind == 'comp' else [Ts, Ws, xs]), None
    Wz = W if Wmode == 'sym' else z3.RealVal(0)
    name = 'Compressor' if kind == 'comp' else 'Limiter'
    label = f'{name} ratio={R} knee={"symbolic in (0,20]" if Wmode == "sym" else "0 (hard knee)"}'
    def mk(mdl):
        Tv = model_float(mdl, 'T', -10.0); Wv = model_float(mdl, 'W', 6.0) if Wmode == 'sym' else 0.0; xv = model_float(mdl, 'x', 0.5)
        return [('f64', Tv), ('i32', R), ('f64', Wv), ('f64', xv)] if kind == 'comp' else [('f64', Tv), ('f64', Wv), ('f64', xv)]
    paths = []
    for p in explore(mod, '@' + fn, setup, max_paths=64):
        if p.out != 'ret': res.inc(f'{label}: path {p.out} {p.err}'); continue
        res.absorb(p.m); gc = p.m.lower(p.ret) if isF(p.ret) else z3.RealVal(Fraction(p.ret))
        # the level L is whatever term the code compares with the threshold: 20*log10(|x|+eps) as an uninterpreted function value -> free real
        xs = fsym('x'); Lnode = fbin('fmul', F('call', 'log10', fbin('fadd', F('call', 'fabs', xs), EPS)), 20.0); L = p.m.lower(Lnode); lax = level_axioms(p.m, xs, L)
        paths.append((p, gc, L))
        for claim, desc, key in ((zabs(gc - (z_curve(kind, T, R, Wz, L) - L)) <= TOL, 'gain == documented static curve (unity below threshold, slope 1/ratio or flat ceiling above, quadratic knee)', 'curve'),
                                 (gc <= TOL, 'gain <= 0 dB (never amplifies)', 'range'),
                                 (L + gc <= z3.If(L > T, L, T) + TOL if kind == 'comp' else L + gc <= T + TOL, 'output level never above max(input level, threshold)' if kind == 'comp' else 'limiter output level never above the threshold', 'ceiling')):
            sol = z3.Solver(); sol.set('timeout', 60000); sol.add(*p.m.pc); sol.add(*lax); sol.add(z3.Not(claim)); t0 = time.time(); c = sol.check(); res.queries += 1; res.solver_s += time.time() - t0
            if c == z3.unsat: res.ob(True, 'NRA+UF', f'{label}: path |pc|={len(p.m.pc)}: forall T, W, x. {desc}')
            elif c == z3.sat:
                mdl = model_dict(sol)
                # the level is an uninterpreted value in the model: pick x with that level for the replay
                Lv = None
                try: Lv = z3_to_float(sol.model().eval(L, model_completion=True))
                except Exception: pass
                sp = mk(mdl)
                if Lv is not None and -300 < Lv < 300: sp[-1] = ('f64', 10 ** (Lv / 20))
                confirm(res, PID, HARNESS, fn, sp, 'f64', 'curve', ORACLES, f'{name.lower()}:{key}:{"soft" if Wmode == "sym" else "hard"}-knee', f'{label}: {desc} fails', extra={'kind': kind})
                break
            else: res.inc(f'{label}: {desc}: undecided')


def level_axioms(m, xs, Lz):
    """sound links between the dB-domain level L = 20*log10(|x|+eps) (an uninterpreted value) and every linear-domain constant P = pow(10, E) the code formed on this path
    (e.g. a cached db2mag(threshold) a fast path compares |x| with): log10 is strictly increasing, so  |x|+eps < P  <=>  L < 20*E, and P > 0."""
    ax = []; a = m.lower(fbin('fadd', F('call', 'fabs', xs), EPS))
    for node in list(F._tab.values()):
        if node.op == 'call' and node.args[0] == 'pow' and len(node.args) == 3 and not isF(node.args[1]) and node.args[1] == 10.0 and isF(node.args[2]):
            P = m.lower(node); E = m.lower(node.args[2]); ax += [P > 0, (a < P) == (Lz < 20 * E), (a == P) == (Lz == 20 * E)]
            # stated bound: inputs in the 2.2e-16 wide sliver P - eps <= |x| < P (where a comparison of |x| and of |x|+eps with P disagree) are outside the claim
            ax.append(z3.Or(a < P, m.lower(F('call', 'fabs', xs)) >= P))
    return ax

def job_monotone(res, kind, R):
    """two input levels L1 <= L2 through the real gain computer (all region pairs): output level non-decreasing"""
    mod, so = load(HARNESS); fn = 'h_comp_curve' if kind == 'comp' else 'h_lim_curve'
    T = z3.Real('T'); W = z3.Real('W'); name = 'Compressor' if kind == 'comp' else 'Limiter'
    def run(xname):
        out = []
        def setup(m):
            m.assume(z3.And(T >= -50, T <= 0, W > 0, W <= 20)); return ([fsym('T'), R, fsym('W'), fsym(xname)] if kind == 'comp' else [fsym('T'), fsym('W'), fsym(xname)]), None
        for p in explore(mod, '@' + fn, setup, max_paths=64):
            if p.out != 'ret': continue
            res.absorb(p.m); xs = fsym(xname); L = p.m.lower(fbin('fmul', F('call', 'log10', fbin('fadd', F('call', 'fabs', xs), EPS)), 20.0)); lax = level_axioms(p.m, xs, L)
            out.append((list(p.m.pc) + lax, p.m.lower(p.ret) if isF(p.ret) else z3.RealVal(Fraction(p.ret)), L))
        return out
    A = run('x'); B = run('y')
    for (pc1, g1, L1) in A:
        for (pc2, g2, L2) in B:
            # monotone and 1-Lipschitz: 0 <= out(L2) - out(L1) <= L2 - L1  (implies continuity at the knee edges and a slope in [0, 1] everywhere)
            sol = z3.Solver(); sol.set('timeout', 60000); sol.add(*pc1); sol.add(*pc2); sol.add(L1 <= L2, z3.Or(L1 + g1 > L2 + g2 + TOL, (L2 + g2) - (L1 + g1) > L2 - L1 + TOL)); c = sol.check(); res.queries += 1
            if c == z3.unsat: res.ob(True, 'NRA+UF', f'{name} ratio={R}: output level is monotone and 1-Lipschitz (hence continuous) in the input level across this pair of regions (all T, W)')
            elif c == z3.sat:
                m_ = sol.model(); Tv = z3_to_float(m_.eval(T, True)); Wv = z3_to_float(m_.eval(W, True)); Lv = z3_to_float(m_.eval(L2, True))
                sp = ([('f64', Tv), ('i32', R), ('f64', Wv), ('f64', 10 ** (Lv / 20))] if kind == 'comp' else [('f64', Tv), ('f64', Wv), ('f64', 10 ** (Lv / 20))])
                confirm(res, PID, HARNESS, fn, sp, 'f64', 'curve', ORACLES, f'{name.lower()}:monotone', f'{name} ratio={R}: output level is not monotone / jumps between input levels L1={z3_to_float(m_.eval(L1, True)):.6f} and L2={Lv:.6f} (threshold {Tv}, knee {Wv})', extra={'kind': kind}); return
            else: res.inc(f'{name} ratio={R}: monotonicity undecided for a region pair')

def job_smooth(res, kind, R, W, ta, tr):
    """one sample from an arbitrary smoothed-gain state gs0 <= 0: new state between old state and target, moves toward the target, stays <= 0; zero attack/release => state == target"""
    mod, so = load(HARNESS); name = 'Compressor' if kind == 'comp' else 'Limiter'; fs = 100
    fn = 'h_comp_step' if kind == 'comp' else 'h_lim_step'; G0 = z3.Real('gs0'); T = z3.Real('T')
    def setup(m):
        m.assume(z3.And(T >= -50, T <= 0, G0 <= 0)); o = m.alloc_doubles([0.0] * 3, 'o')
        a = [fs, fsym('T')] + ([R] if kind == 'comp' else []) + [W, ta, tr, fsym('gs0'), fsym('x'), o]; return a, o
    curve_fn = 'h_comp_curve' if kind == 'comp' else 'h_lim_curve'
    label = f'{name} ratio={R} knee={W} attack={ta} release={tr}'
    for p in explore(mod, '@' + fn, setup, max_paths=200):
        if p.out != 'ret': res.inc(f'{label}: path {p.out} {p.err}'); continue
        res.absorb(p.m); o = p.m.read_doubles(p.ctx, 3); gs1 = p.m.lower(o[2]) if isF(o[2]) else z3.RealVal(Fraction(o[2]))
        xs = fsym('x'); L = p.m.lower(fbin('fmul', F('call', 'log10', fbin('fadd', F('call', 'fabs', xs), EPS)), 20.0)); lax = level_axioms(p.m, xs, L)
        gc = z_curve(kind, T, R, z3.RealVal(Fraction(W)), L) - L if W > 0 else (z3.If(L >= T, (T + ((L - T) / R if kind == 'comp' else 0)) - L, z3.RealVal(0)))
        claims = [(z3.And(gs1 <= z3.If(G0 >= gc, G0, gc) + TOL, gs1 >= z3.If(G0 <= gc, G0, gc) - TOL), 'smoothed gain stays between the previous value and the target'), (gs1 <= TOL, 'smoothed gain stays <= 0 dB, so the linear gain 10^(g/20) is in (0, 1]')]
        if (ta == 0.0 and tr == 0.0): claims.append((zabs(gs1 - gc) <= TOL, 'zero attack and release: the applied gain is the static curve'))
        # configured time constants: one-pole step new = a*old + (1-a)*target with a = exp(-ln 9 / (fs * time)) (10-90 % rise in `time` seconds), attack when the gain falls, release when it rises
        wq = lambda t_: z3.RealVal(Fraction(math.exp(-math.log(9) / (fs * t_)))) if t_ > 0 else z3.RealVal(0)
        claims.append((z3.And(z3.Implies(gc < G0, zabs(gs1 - (wq(ta) * G0 + (1 - wq(ta)) * gc)) <= TOL), z3.Implies(gc > G0, zabs(gs1 - (wq(tr) * G0 + (1 - wq(tr)) * gc)) <= TOL)),
                       f'the state moves by the one-pole step of the configured attack ({ta} s) / release ({tr} s) time at fs = {fs}'))
        # structure of the outputs: gain = pow(10, gs/20) and out = x * gain (same terms)
        struct_ok = isF(o[0]) and o[0].op == 'call' and o[0].args[0] == 'pow' and isF(o[1]) and o[1].op == 'fmul' and (o[1].args[0] is o[0] or o[1].args[1] is o[0])
        claims.append((z3.BoolVal(bool(struct_ok)), 'gain output is pow(10, g/20) of the smoothed gain and out = x * gain'))
        for claim, desc in claims:
            sol = z3.Solver(); sol.set('timeout', 60000); sol.add(*p.m.pc); sol.add(*lax); sol.add(z3.Not(claim)); c = sol.check(); res.queries += 1
            if c == z3.unsat: res.ob(True, 'NRA+UF', f'{label}: path |pc|={len(p.m.pc)}: forall T, gs0 <= 0, x. {desc}')
            elif c == z3.sat:
                mdl = model_dict(sol); Tv = model_float(mdl, 'T', -10.0); g0 = model_float(mdl, 'gs0', -1.0)
                try: Lv = z3_to_float(sol.model().eval(L, model_completion=True)); xv = 10 ** (Lv / 20) if -300 < Lv < 300 else model_float(mdl, 'x', 0.5)
                except Exception: xv = model_float(mdl, 'x', 0.5)
                sp = [('i32', fs), ('f64', Tv)] + ([('i32', R)] if kind == 'comp' else []) + [('f64', W), ('f64', ta), ('f64', tr), ('f64', g0), ('f64', xv), ('pf64', [0.0] * 3)]
                if not confirm(res, PID, HARNESS, fn, sp, 'i32', 'cstep', ORACLES, f'{name.lower()}:step', f'{label}: "{desc}" fails', extra={'kind': kind}, suspect_is_inconclusive=False):
                    # second candidate: a sample well below the threshold from a compressed state (release phase)
                    sp2 = list(sp); sp2[-2] = ('f64', 10 ** ((Tv - 30) / 20)); sp2[-3] = ('f64', -6.0)
                    confirm(res, PID, HARNESS, fn, sp2, 'i32', 'cstep', ORACLES, f'{name.lower()}:step', f'{label}: "{desc}" fails (release-phase candidate)', extra={'kind': kind})
                break
            else: res.inc(f'{label}: "{desc}" undecided')

def job_gate(res, th, ta, tr):
    """NoiseGate one step from arbitrary state (gain lg0 in [0,1], hold counter cA0 >= 0): gain stays in [0,1], between old gain and target, hold counter semantics"""
    mod, so = load(HARNESS); fs = 10; LG = z3.Real('lg0')
    def setup(m):
        cA = bvsym('cA', 32); m.assume(z3.And(LG >= 0, LG <= 1, cA.e >= 0, cA.e < 1000)); o = m.alloc_doubles([0.0] * 4, 'o')
        return [fs, -20.0, ta, tr, th, fsym('lg0'), cA, fsym('x'), o], (o, cA)
    label = f'NoiseGate hold={th}s attack={ta} release={tr}'
    WQ = lambda t_: z3.RealVal(Fraction(math.exp(-math.log(9) / (fs * t_)))) if t_ > 0 else z3.RealVal(0)
    for p in explore(mod, '@h_gate_step', setup, max_paths=200):
        if p.out != 'ret': res.inc(f'{label}: path {p.out} {p.err}'); continue
        res.absorb(p.m); op, cA = p.ctx; o = p.m.read_doubles(op, 4); L1 = p.m.lower(o[2]) if isF(o[2]) else z3.RealVal(Fraction(o[2])); g = p.m.lower(o[0]) if isF(o[0]) else z3.RealVal(Fraction(o[0]))
        tH = int(o[3]); cA1 = z3.BV2Int(bve(p.ret, 32), True); cA0 = z3.BV2Int(cA.e, True)
        x = z3.Real('x'); tlin = z3.RealVal(Fraction(10 ** (-20 / 20)))
        gcv = z3.If(z3.If(x >= 0, x, -x) >= z3.RealVal(Fraction(float.fromhex((10 ** (-20.0 / 20)).hex()))), 1, 0)
        claims = [(z3.And(L1 >= -TOL, L1 <= 1 + TOL, g == L1), 'gain stays in [0, 1] and the reported gain is the new state'),
                  (z3.And(L1 <= z3.If(LG >= gcv, LG, gcv) + TOL, L1 >= z3.If(LG <= gcv, LG, gcv) - TOL), 'gain stays between the previous gain and the target (open = 1 / closed = 0)'),
                  (z3.Implies(z3.And(gcv < LG, cA0 < tH), z3.And(L1 == LG, cA1 == cA0 + 1)), 'closing is held for hold_time samples: gain unchanged, hold counter advances'),
                  (z3.Implies(gcv > LG, cA1 == 0), 'opening resets the hold counter'),
                  (z3.Implies(gcv == LG, z3.And(L1 == LG, cA1 == cA0)), 'a gain that already sits at its target leaves gain and hold counter untouched'),
                  (z3.And(z3.Implies(z3.And(gcv < LG, cA0 >= tH), zabs(L1 - (WQ(ta) * LG + (1 - WQ(ta)) * gcv)) <= TOL), z3.Implies(gcv > LG, zabs(L1 - (WQ(tr) * LG + (1 - WQ(tr)) * gcv)) <= TOL)),
                   f'the gain moves by the one-pole step of the configured attack ({ta} s) / release ({tr} s) time at fs = {fs}')]
        for claim, desc in claims:
            sol = z3.Solver(); sol.set('timeout', 60000); sol.add(*p.m.pc); sol.add(z3.Not(claim)); c = sol.check(); res.queries += 1
            if c == z3.unsat: res.ob(True, 'NRA+BV', f'{label}: path |pc|={len(p.m.pc)}: forall state, x. {desc}')
            elif c == z3.sat:
                mdl = model_dict(sol); sp = [('i32', fs), ('f64', -20.0), ('f64', ta), ('f64', tr), ('f64', th), ('f64', model_float(mdl, 'lg0', 0.5)), ('i32', model_int(mdl, 'cA')), ('f64', model_float(mdl, 'x', 0.0)), ('pf64', [0.0] * 4)]
                if not confirm(res, PID, HARNESS, 'h_gate_step', sp, 'i32', 'gstep', ORACLES, 'gate:step', f'{label}: "{desc}" fails', suspect_is_inconclusive=False):
                    for (lg0, ca, xv) in ((1.0, 1000, 0.0), (0.0, 0, 1.0), (0.4, 1000, 0.0), (0.6, 0, 1.0)):
                        sp2 = list(sp); sp2[5] = ('f64', lg0); sp2[6] = ('i32', ca); sp2[7] = ('f64', xv)
                        if confirm(res, PID, HARNESS, 'h_gate_step', sp2, 'i32', 'gstep', ORACLES, 'gate:step', f'{label}: "{desc}" fails (probe state)', suspect_is_inconclusive=(lg0 == 0.6)): break
                break
            else: res.inc(f'{label}: "{desc}" undecided')

def job_agc(res, n):
    """Agc: after every step the applied gain is exp(g) with g <= log(10^(max_gain/20)) on every path (the clamp); gain output and out = x*gain are the same terms"""
    mod, so = load(HARNESS); maxg = 20.0; lim = math.log(10 ** (maxg / 20))
    def setup(m):
        xs = [fsym(f'x{i}') for i in range(n)]; out = m.alloc_doubles([0.0] * n, 'out'); g = m.alloc_doubles([0.0] * n, 'gain')
        return [1.0, maxg, 2, 0.3, 0.2, m.alloc_doubles(xs, 'x'), n, out, g], (xs, out, g)
    for p in explore(mod, '@h_agc_run', setup, max_paths=300):
        if p.out != 'ret': res.inc(f'Agc: path {p.out} {p.err}'); continue
        res.absorb(p.m); xs, outp, gp = p.ctx; gains = p.m.read_doubles(gp, n); outs = p.m.read_doubles(outp, n)
        ok = True; bad = None
        for i in range(n):
            gi = gains[i]
            if not isF(gi): arg_ok = gi <= math.exp(lim) * (1 + 1e-12); continue
            if not (gi.op == 'call' and gi.args[0] == 'exp'): ok = False; bad = f'gain[{i}] is not exp(.)'; break
            a = gi.args[1]; az = p.m.lower(a) if isF(a) else z3.RealVal(Fraction(a))
            sol = z3.Solver(); sol.set('timeout', 60000); sol.add(*p.m.pc); sol.add(az > z3.RealVal(Fraction(lim))); c = sol.check(); res.queries += 1
            if c != z3.unsat:
                ok = False; bad = f'log-gain at step {i} can exceed log(10^(max_gain/20)) ({c})'
                if c == z3.sat:
                    mdl = model_dict(sol); xv = [model_float(mdl, f'x{j}', 0.01) for j in range(n)]
                    if confirm(res, PID, HARNESS, 'h_agc_run', [('f64', 1.0), ('f64', maxg), ('i32', 2), ('f64', 0.3), ('f64', 0.2), ('pf64', xv), ('i32', n), ('pf64', [0.0] * n), ('pf64', [0.0] * n)], 'i32', 'agc', ORACLES, 'agc:max-gain',
                               f'Agc: the applied gain can exceed max_gain (step {i})', suspect_is_inconclusive=False): bad = None
                    else:
                        # the model's log() values are uninterpreted; replay the structural finding with steady inputs whose required gain lies just above the limit
                        for over in (1.0, 2.0, 4.0):
                            xs_ = [10 ** (-(maxg + over) / 20)] * 400
                            if confirm(res, PID, HARNESS, 'h_agc_run', [('f64', 1.0), ('f64', maxg), ('i32', 2), ('f64', 0.3), ('f64', 0.2), ('pf64', xs_), ('i32', 400), ('pf64', [0.0] * 400), ('pf64', [0.0] * 400)], 'i32', 'agc', ORACLES, 'agc:max-gain',
                                       f'Agc: the applied gain can exceed max_gain (steady input needing {over} dB more than max_gain)', suspect_is_inconclusive=False): bad = None; break
                break
            if not (isF(outs[i]) and outs[i].op == 'fmul' and (outs[i].args[0] is gi or outs[i].args[1] is gi)): ok = False; bad = f'out[{i}] is not x*gain'; break
        if ok: res.ob(True, 'NRA+UF', f'Agc {n} samples path |pc|={len(p.m.pc)}: every applied gain is exp(g) with g <= log(10^(max_gain/20)) (axiom: exp monotone => gain <= max_gain), out = x * gain')
        elif bad: res.inc(f'Agc: {bad}')

JOBFNS = {'curve': job_curve, 'monotone': job_monotone, 'smooth': job_smooth, 'gate': job_gate, 'agc': job_agc}

def selftest(st):
    calls = [('h_comp_curve', [('f64', -10.0), ('i32', 5), ('f64', W), ('f64', x)], 'f64') for W in (0.0, 10.0) for x in (0.01, 0.2, 0.3, 0.5, 1.5)]
    calls += [('h_lim_curve', [('f64', -6.0), ('f64', W), ('f64', x)], 'f64') for W in (0.0, 4.0) for x in (0.01, 0.4, 0.5, 2.0)]
    calls += [('h_comp_step', [('i32', 100), ('f64', -10.0), ('i32', 3), ('f64', 6.0), ('f64', 0.01), ('f64', 0.05), ('f64', -2.0), ('f64', 0.7), ('pf64', [0.0] * 3)], 'i32')]
    calls += [('h_gate_step', [('i32', 10), ('f64', -20.0), ('f64', 0.3), ('f64', 0.2), ('f64', 0.2), ('f64', 0.6), ('i32', 1), ('f64', 0.01), ('pf64', [0.0] * 4)], 'i32')]
    calls += [('h_agc_run', [('f64', 1.0), ('f64', 20.0), ('i32', 2), ('f64', 0.3), ('f64', 0.2), ('pf64', [0.5, -0.25, 0.8, 0.1]), ('i32', 4), ('pf64', [0.0] * 4), ('pf64', [0.0] * 4)], 'i32')]
    selftest_calls(st, HARNESS, calls)

def main(tier, seed):
    q = tier == 'quick'; jobs = []
    Rs = (1, 2, 5, 50) if q else (1, 2, 3, 5, 10, 50)
    for R in Rs:
        for wm in ('sym', 'zero'): jobs.append((f'compressor curve R={R} {wm}', 'curve', dict(kind='comp', R=R, Wmode=wm), 1500))
        jobs.append((f'compressor monotone R={R}', 'monotone', dict(kind='comp', R=R), 1500))
    for wm in ('sym', 'zero'): jobs.append((f'limiter curve {wm}', 'curve', dict(kind='lim', R=1, Wmode=wm), 1500))
    jobs.append(('limiter monotone', 'monotone', dict(kind='lim', R=1), 1500))
    for (R, W, ta, tr) in ([(5, 0.0, 0.0, 0.0), (3, 6.0, 0.0, 0.0), (5, 4.0, 0.01, 0.05), (4, 2.0, 0.0144, 0.0237), (2, 0.0, 0.0, 0.1), (2, 3.0, 0.02, 0.0)] if q else [(5, 0.0, 0.0, 0.0), (3, 6.0, 0.0, 0.0), (5, 4.0, 0.01, 0.05), (4, 2.0, 0.0144, 0.0237), (2, 0.0, 0.02, 0.0), (10, 10.0, 0.0, 0.1), (2, 0.0, 0.0, 0.1), (2, 3.0, 0.02, 0.0), (3, 1.0, 0.004, 2.0)]):
        jobs.append((f'compressor smoothing R={R} W={W}', 'smooth', dict(kind='comp', R=R, W=W, ta=ta, tr=tr), 1500))
    for (W, ta, tr) in [(0.0, 0.0, 0.0), (4.0, 0.0, 0.05), (2.0, 0.01, 0.02), (3.0, 0.0144, 0.0237), (1.0, 0.02, 0.0)]: jobs.append((f'limiter smoothing W={W}', 'smooth', dict(kind='lim', R=1, W=W, ta=ta, tr=tr), 1500))
    for th in (0.0, 0.1, 0.2): jobs.append((f'gate hold={th}', 'gate', dict(th=th, ta=0.3, tr=0.2), 1500))
    jobs.append(('gate fractional-sample times', 'gate', dict(th=0.1, ta=0.144, tr=0.237), 1500)); jobs.append(('gate sub-sample times', 'gate', dict(th=0.0, ta=0.05, tr=0.07), 1500))
    jobs.append(('gate zero attack', 'gate', dict(th=0.1, ta=0.0, tr=0.2), 1500)); jobs.append(('gate zero release', 'gate', dict(th=0.0, ta=0.3, tr=0.0), 1500))
    jobs.append(('agc clamp', 'agc', dict(n=3 if q else 4), 1500))
    return run_property(PID, tier, HARNESS, jobs, JOBFNS,
        level_text='The gain computers of Compressor and Limiter run with threshold, knee width and the input sample symbolic (integer ratio enumerated; the level 20*log10(|x|+eps) is an uninterpreted function value, i.e. an '
                   'arbitrary real): on every path z3 decides gain == documented piecewise characteristic, gain <= 0 dB, ceiling, monotonicity across every pair of regions and continuity at both knee edges. One processing step from '
                   'an arbitrary smoothed-gain state: new state between old state and target, <= 0 dB, equal to the static curve for zero attack/release, outputs are pow(10, g/20) and x*gain. NoiseGate: one step from an arbitrary '
                   '(gain in [0,1], hold counter) state. Agc: on every path the applied log-gain is <= log(10^(max_gain/20)).',
        assumptions=['axiom (log10 strictly increasing): for every constant P = pow(10, E) the code forms, |x|+eps < P <=> 20*log10(|x|+eps) < 20*E', 'axioms: pow(10, g/20) in (0, 1] for g <= 0 and exp monotone (used to translate the dB / log-domain invariants into the linear-gain statements)', 'private state is set through a harness-only "#define private public"',
                     'sample rate and time constants concrete (the smoothing coefficients are then concrete doubles in [0, 1])'],
        bounds={'ratios': str(Rs), 'threshold': '[-50, 0] dB symbolic', 'knee': '(0, 20] dB symbolic and 0', 'steps': 'one step from an arbitrary state (Agc: 3-4 samples from the constructed state)'},
        outside=['inputs with P - eps <= |x| < P for a linear-domain constant P = 10^(E/20) formed by the code (a sliver 2.2e-16 wide)', 'Agc convergence to the target level', 'time-constant calibration (10-90 % rise)', 'linear-domain ceiling |out| <= 10^(T/20) follows from the dB-domain claim by pow10(log10 v) = v and is not re-derived'], seed=seed, selftest=selftest)

def replay(path): return replay_main(path, ORACLES)
