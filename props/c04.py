"""C04 — slices select and assign exactly the numpy-designated elements (P-INT, P-MEM, P-EQ)."""
from common import *
PID = 'C04'; HARNESS = 'C04.cpp'
H_THROW = (-1000000) & 0xffffffff

# ---------------------------------------------------------------- python reference (oracle side)
def py_slice(n, i1, i2, m):
    """-> list of indices, or None when the statement says the call throws"""
    if n == 0 or m == 0: return None
    ra = n + i1 if i1 < 0 else i1; rb = n + i2 if i2 < 0 else i2
    if ra < 0 or ra >= n or rb < 0 or rb > n: return None
    if (m < 0 and ra < rb) or (m > 0 and ra > rb): return None
    return list(range(ra, rb, m))

# ---------------------------------------------------------------- z3 spec (64-bit arithmetic over sign-extended 32-bit ints)
class Spec:
    def __init__(s, n, i1, i2, m):
        E = lambda b: z3.SignExt(32, b) if isinstance(b, z3.BitVecRef) else z3.BitVecVal(b, 64)
        s.N = E(n) if not isinstance(n, int) else z3.BitVecVal(n, 64)
        A = E(i1); B = E(i2); s.S = E(m)
        s.ra = z3.If(A < 0, A + s.N, A); s.rb = z3.If(B < 0, B + s.N, B)
        S = s.S; ra = s.ra; rb = s.rb; N = s.N
        s.must_throw = z3.Or(N == 0, S == 0, ra < 0, ra >= N, rb < 0, rb > N, z3.And(S < 0, ra < rb), z3.And(S > 0, ra > rb))
        d = z3.If(rb >= ra, rb - ra, ra - rb); t = z3.If(S < 0, -S, S)
        # element count ceil(|rb-ra| / |step|).  In the valid region 0 <= ra,rb <= N < 2^31 and 1 <= |step| <= 2^31, so the quotient is computed in
        # 32-bit unsigned arithmetic (a 64-bit symbolic divider stalls the bit-blaster); outside the valid region cnt is irrelevant (must_throw).
        s.d = d; s.t = t
        d32 = z3.Extract(31, 0, d); t32 = z3.Extract(31, 0, t)
        s.cnt = z3.ZeroExt(32, z3.If(t32 == 0, z3.BitVecVal(0, 32), z3.UDiv(d32 + t32 - 1, z3.If(t32 == 0, z3.BitVecVal(1, 32), t32))))
    def idx(s, j): return s.ra + z3.BitVecVal(j, 64) * s.S
    def sel(s, i):
        """cell i is designated (only meaningful when not must_throw)"""
        I = z3.BitVecVal(i, 64); S = s.S
        return z3.Or(z3.And(S > 0, s.ra <= I, I < s.rb, z3.SRem(I - s.ra, S) == 0), z3.And(S < 0, s.rb < I, I <= s.ra, z3.SRem(s.ra - I, -S) == 0))
    def is_pos(s, i, j):
        """cell i is the j-th designated element"""
        return z3.BitVecVal(i, 64) == s.idx(j)

def syms3(pfx=''):
    return [bvsym(pfx + x, 32) for x in ('i1', 'i2', 'm')]
def mvals(mdl, names): return [sgn(model_int(mdl, nm), 32) for nm in names]
def xsyms(n, pfx='x'): return [fsym(f'{pfx}{i}') for i in range(n)]
def xvals(mdl, n, pfx='x', dflt=None):
    out = []
    for i in range(n):
        v = mdl.get(f'{pfx}{i}')
        out.append(z3_to_float(v) if v is not None else (dflt(i) if dflt else float(i + 1)))
    return out
def distinctify(vals, base=1.0):
    """replay vectors: make elements pairwise distinct so that element identity is observable"""
    seen = set(); out = []
    for i, v in enumerate(vals):
        while v in seen or v != v: v = v + base + i * 0.25
        seen.add(v); out.append(v)
    return out

# ---------------------------------------------------------------- oracles
def _expect_read(x, n, i1, i2, m, width):
    idx = py_slice(n, i1, i2, m)
    if idx is None: return None
    return [x[width * i + k] for i in idx for k in range(width)]
def o_read(spec, r, extra):
    w = extra['width']; x = spec[0][1]; n = spec[1][1]; kind = spec[2][1]; i1, i2, m = [sgn(spec[k][1], 32) for k in (3, 4, 5)]
    exp = _expect_read(x, n, i1, i2, m, w)
    if r['status'] != 'ok': return True, f"slice read n={n} ({i1},{i2},{m}) kind={kind}: {r['status']} {r.get('stderr', '')[-300:]}"
    if exp is None:
        return r['ret'] != H_THROW, f"slice({i1},{i2},{m}) on n={n} must throw but returned count {sgn(r['ret'], 32)}"
    if r['ret'] == H_THROW: return True, f"slice({i1},{i2},{m}) on n={n} kind={kind}: reading a valid slice of {len(exp) // w} elements threw"
    got = r['outs'][1][:len(exp)] if r['ret'] * w == len(exp) else None
    bad = got is None or any(not same_bits(a, b) for a, b in zip(got, exp)) or any(not same_bits(a, b) for a, b in zip(r['outs'][2][:n * w], x))
    return bad, f"slice({i1},{i2},{m}) on n={n} kind={kind}: count {sgn(r['ret'], 32)} values {r['outs'][1][:6]} expected count {len(exp) // w} values {exp[:6]}"
def o_read_end(spec, r, extra):
    x = spec[0][1]; n = spec[1][1]; i1 = sgn(spec[2][1], 32); m = sgn(spec[3][1], 32)
    exp = _expect_read(x, n, i1, n, m, 1)
    if r['status'] != 'ok': return True, f"slice(i1,end) {r['status']}"
    if exp is None: return r['ret'] != H_THROW, f"slice({i1},end,{m}) on n={n} must throw, returned {sgn(r['ret'], 32)}"
    if r['ret'] == H_THROW: return True, f"slice({i1},end,{m}) on n={n} threw but designates {len(exp)} elements"
    return (r['ret'] != len(exp) or any(not same_bits(a, b) for a, b in zip(r['outs'][1], exp))), f"slice({i1},end,{m}) n={n}: got {r['ret']} {r['outs'][1][:6]} expected {exp[:6]}"
def _apply_assign(x, n, w, idx, src):
    y = list(x)
    for j, i in enumerate(idx):
        for k in range(w): y[w * i + k] = src[w * j + k]
    return y
def o_assign(spec, r, extra):
    """extra: kind in fill/arr/list/other/same, width"""
    kind = extra['kind']; w = extra['width']; x = spec[0][1]; n = spec[1][1]; i1, i2, m = [sgn(spec[k][1], 32) for k in (2, 3, 4)]
    idx = py_slice(n, i1, i2, m)
    desc = f"{kind} assign through slice({i1},{i2},{m}) on n={n}"
    if r['status'] != 'ok': return True, f"{desc}: {r['status']} {r.get('stderr', '')[-400:]}"
    src = None
    if idx is not None:
        if kind == 'fill': src = [spec[5 + k][1] for k in range(w)] * len(idx)
        elif kind in ('arr', 'list'):
            v = spec[5][1]; nv = spec[6][1]; src = v[:nv * w] if nv == len(idx) else None; desc += f' rhs length {nv}'
        elif kind == 'other':
            y = spec[5][1]; ny = spec[6][1]; j1, j2, k = [sgn(spec[q][1], 32) for q in (7, 8, 9)]; sidx = py_slice(ny, j1, j2, k)
            src = [y[i] for i in sidx] if sidx is not None and len(sidx) == len(idx) else None; desc += f' from other.slice({j1},{j2},{k}) n2={ny}'
        elif kind == 'same':
            j1, j2, k = [sgn(spec[q][1], 32) for q in (5, 6, 7)]; sidx = py_slice(n, j1, j2, k)
            src = [x[w * i + q] for i in sidx for q in range(w)] if sidx is not None and len(sidx) == len(idx) else None; desc += f' from same.slice({j1},{j2},{k})'
    if idx is None or src is None:
        return r['ret'] != H_THROW, f"{desc}: must throw (invalid slice or element counts differ) but returned normally with array {r['outs'][0][:8]}"
    if r['ret'] == H_THROW: return True, f"{desc}: threw although counts match ({len(idx)})"
    exp = _apply_assign(x, n, w, idx, src)
    return any(not same_bits(a, b) for a, b in zip(r['outs'][0], exp)), f"{desc}: array after = {r['outs'][0][:10]}, expected {exp[:10]}"
def o_ub(spec, r, extra):
    if r['status'] == 'crash' and ('runtime error' in r['stderr'] or 'AddressSanitizer' in r['stderr']):
        ls = [l for l in r['stderr'].split('\n') if 'runtime error' in l or 'ERROR: AddressSanitizer' in l]
        return True, (ls[0] if ls else r['stderr'][-300:])
    if r['status'] == 'timeout': return True, 'hang'
    return False, f"sanitizer build ran clean ({r['status']})"
def o_ctor(spec, r, extra):
    n, i1, i2, m = [sgn(spec[k][1], 32) for k in range(4)]
    idx = py_slice(n, i1, i2, m)
    if r['status'] != 'ok': return True, f'slice ctor {r["status"]}'
    if idx is None: return r['ret'] != H_THROW, f'base_slice_t({n},{i1},{i2},{m}) must throw, returned {sgn(r["ret"], 32)}'
    if r['ret'] == H_THROW: return True, f'base_slice_t({n},{i1},{i2},{m}) threw but designates {len(idx)} elements'
    o = [sgn(v, 32) for v in r['outs'][0]]
    return (o[4] != len(idx) or (len(idx) and o[0] != idx[0]) or o[2] != m), f'base_slice_t({n},{i1},{i2},{m}) resolved to start {o[0]} step {o[2]} count {o[4]}, python: {idx[:3]}.. count {len(idx)}'
ORACLES = {'read': o_read, 'read_end': o_read_end, 'assign': o_assign, 'ub': o_ub, 'ctor': o_ctor}

_ub_seen = set()
def report_ub(res, m, fn, mkspec, ret, keypfx, extra=None):
    seen = _ub_seen      # one native confirmation per (harness fn, kind, site) and process
    for kind, msg, model, where in m.ub_found:
        k = (fn, kind, where.split(':')[0])
        if k in seen: continue
        seen.add(k)
        site = where.split(':')[0].replace('@', '')[:80]
        confirm(res, PID, HARNESS, fn, mkspec(model), ret, 'ub', ORACLES, f'ub:{kind}:{site}', f'undefined behaviour: {msg} at {where[:160]}', san=True,
                suspect_is_inconclusive=False, extra=extra)

# ---------------------------------------------------------------- jobs
def job_ctor(res, step=None):
    """step=None: all four ints symbolic, decides throw-iff-stated and start/step/n (no divider in the query);
    step=k: step fixed to k, (n,i1,i2) symbolic: additionally decides the element count (division by a constant)."""
    mod, so = load(HARNESS)
    names = ['n', 'i1', 'i2', 'm']
    def setup(m):
        vs = [bvsym(x, 32) for x in names]; m.assume(vs[0].e >= 0)
        if step is not None: vs[3] = BV(z3.BitVecVal(step, 32), 32)
        o = m.alloc_ints([0] * 5, 32, 'o'); return vs[:3] + [vs[3] if step is None else step & 0xffffffff, o], (vs, o)
    mk = lambda mdl: [('i32', model_int(mdl, x, default=(step or 0) & 0xffffffff if x == 'm' else 0)) for x in names] + [('pi32', [0] * 5)]
    for p in explore(mod, '@h_slice_ctor', setup, max_paths=200):
        if p.out not in ('ret', 'throw'): res.inc(f'ctor path {p.out}: {p.err}'); continue
        res.absorb(p.m); vs, o = p.ctx; sp = Spec(*[v.e for v in vs])
        report_ub(res, p.m, 'h_slice_ctor', mk, 'i32', 'ctor')
        sol = z3.Solver(); sol.add(*p.m.pc)
        if p.out == 'throw': sol.add(z3.Not(sp.must_throw)); desc = 'throws => statement says throw'
        else:
            out = [z3.SignExt(32, bve(v, 32)) for v in p.m.read_ints(o, 5, 32)]
            # count characterised without a divider: c == ceil(d/t)  <=>  (c-1)*t < d <= c*t   (c, d < 2^31, t <= 2^31: 64-bit products cannot wrap)
            c4 = out[4]; okc = z3.And(c4 >= 0, c4 * sp.t >= sp.d, z3.Or(c4 == 0, (c4 - 1) * sp.t < sp.d)) if step is not None else z3.BoolVal(True)
            sol.add(z3.Or(sp.must_throw, z3.Not(okc), z3.And(c4 != 0, out[0] != sp.ra), out[2] != sp.S, out[3] != sp.N)); desc = 'returns => valid, start/step/count == python'
        c = timed_check(sol, res)
        if c == z3.unsat: res.ob(True, 'BV', f'slice ctor step={step if step is not None else "symbolic"} path ({p.out}, |pc|={len(p.m.pc)}): {desc}')
        elif c == z3.sat: confirm(res, PID, HARNESS, 'h_slice_ctor', mk(model_dict(sol)), 'i32', 'ctor', ORACLES, f'ctor:{p.out}', 'slice constructor index resolution differs from python')
        else: res.inc('ctor query unknown')

def _eq_real(m, a, b):
    return m.lower(a) == m.lower(b) if (isF(a) or isF(b)) else z3.BoolVal(same_bits(a, b))

def job_read(res, n, kind, cplx):
    mod, so = load(HARNESS); w = 2 if cplx else 1; fn = 'h_slice_read_c' if cplx else 'h_slice_read'
    def setup(m):
        i1, i2, st = syms3(); xs = xsyms(n * w)
        x = m.alloc_doubles(xs, 'x'); y = m.alloc_doubles([0.0] * (w * max(n, 1)), 'y'); xo = m.alloc_doubles([0.0] * (w * max(n, 1)), 'xo')
        return [x, n, kind, i1, i2, st, y, xo], (i1, i2, st, xs, y, xo)
    def mk(mdl):
        return [('pf64', distinctify(xvals(mdl, n * w))), ('i32', n), ('i32', kind)] + [('i32', model_int(mdl, q)) for q in ('i1', 'i2', 'm')] + \
               [('pf64', [0.0] * (w * max(n, 1))), ('pf64', [0.0] * (w * max(n, 1)))]
    ex = {'width': w}
    for p in explore(mod, '@' + fn, setup, max_paths=400):
        if p.out not in ('ret', 'throw', 'ub'): res.inc(f'read n={n} kind={kind} path {p.out}: {p.err}'); continue
        res.absorb(p.m); i1, i2, st, xs, y, xo = p.ctx; sp = Spec(n, i1.e, i2.e, st.e)
        report_ub(res, p.m, fn, mk, 'i32', f'read{kind}', ex)
        if p.out == 'ub':
            r, mdl = p.m.check_model(z3.BoolVal(True))
            confirm(res, PID, HARNESS, fn, mk(mdl), 'i32', 'ub', ORACLES, f'read{kind}:ub', f'undefined behaviour while reading a slice: {p.err[:200]}', san=True, extra=ex); continue
        sol = z3.Solver(); sol.add(*p.m.pc)
        if p.out == 'throw': sol.add(z3.Not(sp.must_throw)); desc = 'throws => statement says throw'
        else:
            c = p.ret
            bad = [sp.must_throw, z3.SignExt(32, bve(c, 32)) != sp.cnt]
            ys = p.m.read_doubles(y, w * n); xo_ = p.m.read_doubles(xo, w * n)
            for j in range(n):
                for i in range(n):
                    for k in range(w):
                        bad.append(z3.And(z3.ULT(z3.BitVecVal(j, 64), sp.cnt), sp.is_pos(i, j), z3.Not(_eq_real(p.m, ys[w * j + k], xs[w * i + k]))))
            for i in range(n * w): bad.append(z3.Not(_eq_real(p.m, xo_[i], xs[i])))
            sol.add(*p.m.pc[len(sol.assertions()):]); sol.add(z3.Or(bad)); desc = 'returns => valid, count == python, y[j] == x[start+j*step], source unchanged'
        r = timed_check(sol, res)
        if r == z3.unsat: res.ob(True, 'BV+REAL', f'read kind={kind} n={n} {"cmplx" if cplx else "real"} path {p.out}: {desc}')
        elif r == z3.sat:
            confirm(res, PID, HARNESS, fn, mk(model_dict(sol)), 'i32', 'read', ORACLES, f'read:kind{kind}:{p.out}', f'reading slice (kind {kind}) differs from python semantics', extra=ex)
        else: res.inc(f'read n={n} kind={kind} query unknown')

def job_read_end(res, n, cst=0):
    mod, so = load(HARNESS)
    def setup(m):
        i1 = bvsym('i1', 32); st = bvsym('m', 32); xs = xsyms(n)
        x = m.alloc_doubles(xs, 'x'); y = m.alloc_doubles([0.0] * max(n, 1), 'y'); return [x, n, i1, st, y, cst], (i1, st, xs, y)
    mk = lambda mdl: [('pf64', distinctify(xvals(mdl, n))), ('i32', n), ('i32', model_int(mdl, 'i1')), ('i32', model_int(mdl, 'm')), ('pf64', [0.0] * max(n, 1)), ('i32', cst)]
    for p in explore(mod, '@h_slice_read_end', setup, max_paths=300):
        if p.out not in ('ret', 'throw'): res.inc(f'read_end n={n} path {p.out}: {p.err}'); continue
        res.absorb(p.m); i1, st, xs, y = p.ctx; sp = Spec(n, i1.e, z3.BitVecVal(n, 32), st.e)
        report_ub(res, p.m, 'h_slice_read_end', mk, 'i32', 'read_end')
        sol = z3.Solver(); sol.add(*p.m.pc)
        if p.out == 'throw': sol.add(z3.Not(sp.must_throw))
        else:
            bad = [sp.must_throw, z3.SignExt(32, bve(p.ret, 32)) != sp.cnt]; ys = p.m.read_doubles(y, n)
            for j in range(n):
                for i in range(n): bad.append(z3.And(z3.ULT(z3.BitVecVal(j, 64), sp.cnt), sp.is_pos(i, j), z3.Not(_eq_real(p.m, ys[j], xs[i]))))
            sol.add(*p.m.pc[len(sol.assertions()):]); sol.add(z3.Or(bad))
        r = timed_check(sol, res)
        if r == z3.unsat: res.ob(True, 'BV+REAL', f'{"const " if cst else ""}slice(i1,end,m) n={n} path {p.out}')
        elif r == z3.sat: confirm(res, PID, HARNESS, 'h_slice_read_end', mk(model_dict(sol)), 'i32', 'read_end', ORACLES, f'read_end:{"const:" if cst else ""}{p.out}', ('const ' if cst else '') + 'x.slice(i1,end,m) differs from python')
        else: res.inc('read_end query unknown')

def job_assign(res, kind, n, cplx=False, nv=None, n2=None, constsrc=0, signs=None):
    """kind: fill | arr | list | other | same"""
    mod, so = load(HARNESS); w = 2 if cplx else 1
    fn = {'fill': 'h_slice_fill_c' if cplx else 'h_slice_fill', 'arr': 'h_slice_assign_arr', 'list': 'h_slice_assign_list', 'other': 'h_slice_assign_other',
          'same': 'h_slice_assign_same_c' if cplx else 'h_slice_assign_same'}[kind]
    ex = {'kind': kind, 'width': w}
    def setup(m):
        i1, i2, st = syms3(); xs = xsyms(n * w); x = m.alloc_doubles(xs, 'x'); a = [x, n, i1, i2, st]; c = dict(i=(i1, i2, st), xs=xs, x=x)
        if kind == 'fill':
            v = [fsym('v0')] + ([fsym('v1')] if cplx else []); a += v; c['v'] = v
        elif kind in ('arr', 'list'):
            v = xsyms(nv, 'v'); a += [m.alloc_doubles(v, 'v'), nv]; c['v'] = v
        elif kind == 'other':
            ys = xsyms(n2, 'y'); j = syms3('j'); a += [m.alloc_doubles(ys, 'y'), n2] + j + [constsrc]; c['ys'] = ys; c['j'] = j
        else:
            j = syms3('j'); a += j; c['j'] = j
        if signs is not None:     # partition of the (step, source step) sign space across jobs: together the four parts cover all values
            m.assume(st.e >= 0 if signs[0] else st.e < 0); m.assume(c['j'][2].e >= 0 if signs[1] else c['j'][2].e < 0)
        return a, c
    def mk(mdl):
        sp = [('pf64', distinctify(xvals(mdl, n * w))), ('i32', n)] + [('i32', model_int(mdl, q)) for q in ('i1', 'i2', 'm')]
        if kind == 'fill': sp += [('f64', model_float(mdl, 'v0', 77.0) or 77.0)] + ([('f64', model_float(mdl, 'v1', 78.0) or 78.0)] if cplx else [])
        elif kind in ('arr', 'list'): sp += [('pf64', distinctify(xvals(mdl, max(nv, 1) if kind == 'arr' else 4, 'v', lambda i: 100.0 + i), 100.0)), ('i32', nv)]
        elif kind == 'other': sp += [('pf64', distinctify(xvals(mdl, max(n2, 1), 'y', lambda i: 200.0 + i), 200.0)), ('i32', n2)] + [('i32', model_int(mdl, q)) for q in ('ji1', 'ji2', 'jm')] + [('i32', constsrc)]
        else: sp += [('i32', model_int(mdl, q)) for q in ('ji1', 'ji2', 'jm')]
        return sp
    tag = f'{kind} n={n}' + (f' nv={nv}' if nv is not None else '') + (f' n2={n2}' if n2 is not None else '') + (' cmplx' if cplx else '')
    for p in explore(mod, '@' + fn, setup, max_paths=3000):
        if p.out not in ('ret', 'throw', 'ub'): res.inc(f'assign {tag} path {p.out}: {p.err}'); continue
        res.absorb(p.m); c = p.ctx; i1, i2, st = c['i']; xs = c['xs']; sp = Spec(n, i1.e, i2.e, st.e)
        report_ub(res, p.m, fn, mk, 'i32', f'assign:{kind}', ex)
        if p.out == 'ub':
            r, mdl = p.m.check_model(z3.BoolVal(True))
            confirm(res, PID, HARNESS, fn, mk(mdl), 'i32', 'ub', ORACLES, f'assign:{kind}:ub', f'undefined behaviour in {kind} assignment: {p.err[:200]}', san=True, extra=ex); continue
        # when must the call throw?  invalid destination, invalid source, or element counts differ
        thr = [sp.must_throw]; src_at = None
        if kind == 'fill': src_at = lambda j, k: c['v'][k]
        elif kind in ('arr', 'list'):
            thr.append(sp.cnt != nv); src_at = lambda j, k: c['v'][j]
            if kind == 'arr' and nv == 0: thr.append(z3.BoolVal(True))   # an empty array cannot be sliced: rejection is what the statement's "empty array" clause says
        else:
            j1, j2, jk = c['j']; s2 = Spec(n2 if kind == 'other' else n, j1.e, j2.e, jk.e); thr += [s2.must_throw, sp.cnt != s2.cnt]
        must = z3.Or(*thr)
        sol = z3.Solver(); sol.add(*p.m.pc)
        if p.out == 'throw':
            sol.add(z3.Not(must)); desc = 'throws => invalid slice or counts differ'
        else:
            post = p.m.read_doubles(c['x'], n * w); bad = [must]
            for i in range(n):
                for k in range(w):
                    pi = p.m.lower(post[w * i + k]) if isF(post[w * i + k]) else z3.RealVal(Fraction(post[w * i + k]))
                    bad.append(z3.And(z3.Not(sp.sel(i)), pi != p.m.lower(xs[w * i + k])))
                    cnt_hi = n if kind != 'other' else n
                    for j in range(n):
                        if kind in ('fill', 'arr', 'list'):
                            if kind != 'fill' and j >= nv: continue
                            src = c['v'][k] if kind == 'fill' else c['v'][j]
                            bad.append(z3.And(z3.ULT(z3.BitVecVal(j, 64), sp.cnt), sp.is_pos(i, j), pi != p.m.lower(src)))
                        else:
                            srcs = c['ys'] if kind == 'other' else xs; ns = n2 if kind == 'other' else n; ws = 1 if kind == 'other' else w
                            for q in range(ns):
                                bad.append(z3.And(z3.ULT(z3.BitVecVal(j, 64), sp.cnt), sp.is_pos(i, j), s2.is_pos(q, j), pi != p.m.lower(srcs[ws * q + (k if ws > 1 else 0)])))
            sol.add(*p.m.pc[len(sol.assertions()):]); sol.add(z3.Or(bad)); desc = 'returns => counts equal, designated cells = source (copied first), all other cells unchanged'
        r = timed_check(sol, res, 120000)
        if r == z3.unsat: res.ob(True, 'BV+REAL', f'assign {tag} path {p.out}: {desc}')
        elif r == z3.sat:
            confirm(res, PID, HARNESS, fn, mk(model_dict(sol)), 'i32', 'assign', ORACLES, f'assign:{kind}:{p.out}', f'{kind} assignment through a slice differs from the statement', extra=ex)
        else: res.inc(f'assign {tag} query unknown')

JOBFNS = {'ctor': job_ctor, 'read': job_read, 'read_end': job_read_end, 'assign': job_assign}

def selftest(st):
    import random
    mod, so = load(HARNESS); rnd = random.Random(1)
    cases = []
    for n in (1, 3, 5):
        x = [rnd.uniform(-1, 1) for _ in range(2 * n)]
        for (i1, i2, m) in [(0, n, 1), (n - 1, 0, -1), (-n, n, 2), (0, n + 1, 1), (1, 0, 1), (0, -1, 1)]:
            for kind in range(7):
                cases.append(('h_slice_read', [('pf64', x[:n]), ('i32', n), ('i32', kind), ('i32', i1 & 0xffffffff), ('i32', i2 & 0xffffffff), ('i32', m & 0xffffffff), ('pf64', [0.0] * n), ('pf64', [0.0] * n)]))
            cases.append(('h_slice_read_c', [('pf64', x), ('i32', n), ('i32', 0), ('i32', i1 & 0xffffffff), ('i32', i2 & 0xffffffff), ('i32', m & 0xffffffff), ('pf64', [0.0] * 2 * n), ('pf64', [0.0] * 2 * n)]))
            cases.append(('h_slice_fill', [('pf64', x[:n]), ('i32', n), ('i32', i1 & 0xffffffff), ('i32', i2 & 0xffffffff), ('i32', m & 0xffffffff), ('f64', 9.5)]))
            cases.append(('h_slice_assign_same', [('pf64', x[:n]), ('i32', n), ('i32', i1 & 0xffffffff), ('i32', i2 & 0xffffffff), ('i32', m & 0xffffffff), ('i32', 0), ('i32', n), ('i32', 1)]))
            cases.append(('h_slice_ctor', [('i32', n), ('i32', i1 & 0xffffffff), ('i32', i2 & 0xffffffff), ('i32', m & 0xffffffff), ('pi32', [0] * 5)]))
    nat = native_batch(so, [(fn, spec, 'i32') for fn, spec in cases])
    for (fn, spec), nres in zip(cases, nat):
        m = Machine(mod)
        try: r, outs, _ = sym_call(m, fn, spec, 'i32')
        except Throw: r, outs = H_THROW, None
        st.selftests += 1
        if nres['status'] != 'ok':
            # native process died (e.g. std::terminate): the symbolic run must have ended in a throw as well; the defect itself is reported by the jobs
            if r != H_THROW: st.viol('selftest', f'{fn} {spec[1:6]} native {nres["status"]} but symir returned {r}')
            else: st.ob(True, 'concrete')
            continue
        nr, nouts = nres['ret'], nres['outs']
        ok = (r == nr) and (outs is None or all(same_bits(a, b) for o1, o2 in zip(outs, nouts) for a, b in zip(o1, o2)))
        if not ok: st.viol('selftest', f'{fn} {spec[1:6]} symir {r} {outs} native {nr} {nouts}')
        else: st.ob(True, 'concrete')

def main(tier, seed):
    q = tier == 'quick'
    N = 3 if q else 5
    jobs = [('ctor', 'ctor', {}, 600)]
    for n in range(0, N + 1):
        for kind in range(7):
            jobs.append((f'read real n={n} kind={kind}', 'read', dict(n=n, kind=kind, cplx=False), 1500))
        for kind in (0, 1, 5):
            if n <= (2 if q else 4): jobs.append((f'read cmplx n={n} kind={kind}', 'read', dict(n=n, kind=kind, cplx=True), 1500))
        jobs.append((f'read_end n={n}', 'read_end', dict(n=n), 900)); jobs.append((f'read_end const n={n}', 'read_end', dict(n=n, cst=1), 900))
        jobs.append((f'fill n={n}', 'assign', dict(kind='fill', n=n), 1500))
        if n <= (2 if q else 4): jobs.append((f'fill cmplx n={n}', 'assign', dict(kind='fill', n=n, cplx=True), 1500))
        for nv in range(0, min(n + 1, 4) + 1):
            jobs.append((f'arr n={n} nv={nv}', 'assign', dict(kind='arr', n=n, nv=nv), 1500))
            jobs.append((f'list n={n} nv={nv}', 'assign', dict(kind='list', n=n, nv=nv), 1500))
    for n in range(1, (2 if q else 3) + 1):
        for n2 in range(1, (2 if q else 3) + 1):
            jobs.append((f'other n={n} n2={n2}', 'assign', dict(kind='other', n=n, n2=n2, constsrc=(n + n2) % 2), 3000))
    for n in range(1, (4 if q else 5) + 1):
        if n <= 3: jobs.append((f'same n={n}', 'assign', dict(kind='same', n=n), 3000))
        else:
            for sg in ((1, 1), (1, 0), (0, 1), (0, 0)): jobs.append((f'same n={n} signs={sg}', 'assign', dict(kind='same', n=n, signs=sg), 6000))
    jobs.append(('same cmplx n=2', 'assign', dict(kind='same', n=2, cplx=True), 3000))
    # longest first
    jobs.sort(key=lambda j: -(j[2].get('n', 0) * 10 + (50 if j[2].get('kind') in ('same', 'other') else 0)))
    return run_property(PID, tier, HARNESS, jobs, JOBFNS,
        level_text='Bounded symbolic execution of the compiled slice code: the slice triple (i1,i2,step) — and for same-array assignment both triples — are 32-bit bit-vectors over the '
                   'whole int range, element values are symbolic reals; on every feasible path z3 decides throw-iff-stated, count, element identity with python slice semantics, '
                   'and that no other cell changes; loads/stores at symbolic offsets carry bounds obligations.',
        assumptions=['array length n enumerated (concrete) per job; index arithmetic of the constructor itself is checked for all n >= 0 symbolically',
                     'element values modelled as reals (element identity, not rounding, is the claim)', 'allocation never fails'],
        bounds={'n': f'0..{N} (reads, scalar/array/list assignment), pairs of slices: n <= {2 if q else 3} (other array) / {4 if q else 5} (same array)',
                'indices': 'all 2^96 triples (i1,i2,step) per n', 'ctor': 'all (n>=0,i1,i2,step)', 'element types': 'real and complex, const and mutable, end placeholder, copies of slice objects'},
        outside=['array lengths above the bound (element loops are uniform in n; index arithmetic is covered for all n by the constructor job)',
                 '"reading touches no other element" is decided as: every load is inside the array storage'],
        seed=seed, selftest=selftest)

def replay(path): return replay_main(path, ORACLES)
