"""C13 — spectral estimates: power conservation, frequency labelling, scaling, coherence of a scaled copy (P-POLY with exact polynomial extraction)."""
from common import *
from plin import *
PID = 'C13'; HARNESS = 'C13.cpp'
H_THROW = (-1000000) & 0xffffffff
WN = ['hamming', 'hann', 'rect', 'blackman']

def cs_frac(turns):
    """(cos, sin) of -2*pi*turns as Fractions (50 digits)"""
    a = -2 * mpmath.pi * mpmath.mpf(turns.numerator) / turns.denominator
    return to_frac(mpmath.cos(a)), to_frac(mpmath.sin(a))

def periodogram_poly(cplx, xs, w, t0, fk, scale_den):
    """polynomial of |sum_m w[m] x[t0+m] e^{-2 pi i fk m}|^2 / scale_den over the symbols xs (complex: interleaved re,im)"""
    re = {}; im = {}
    for m_, wm in enumerate(w):
        c, s_ = cs_frac(Fraction(fk) * m_); wm = Fraction(wm)
        if cplx:
            xr, xi = xs[2 * (t0 + m_)], xs[2 * (t0 + m_) + 1]      # (xr + i xi)(c + i s) = (xr c - xi s) + i(xr s + xi c)
            re = p_add(re, {(xr,): wm * c, (xi,): -wm * s_}); im = p_add(im, {(xr,): wm * s_, (xi,): wm * c})
        else:
            re = p_add(re, {(xs[t0 + m_],): wm * c}); im = p_add(im, {(xs[t0 + m_],): wm * s_})
    p = p_add(p_mul(re, re, 2), p_mul(im, im, 2))
    return {k: v / scale_den for k, v in p.items()}

def o_welch(spec, r, extra):
    """native: compare every pxx[k] with the periodogram at the RETURNED frequency f[k] (50-digit reference), plus sizes and non-negativity"""
    cplx = spec[0][1]; x = spec[1][1]; nx = spec[2][1]; winlen = spec[4][1]; nov = spec[5][1]; nfft = spec[6][1]; scale = spec[7][1]
    desc = f"welch({'complex' if cplx else 'real'} x[{nx}], win={WN[spec[3][1]]}({winlen}), noverlap={nov}, nfft={nfft}, {'power' if scale else 'psd'})"
    if r['status'] != 'ok' or r['ret'] == H_THROW: return True, f"{desc}: {r['status']} / threw"
    nout = nfft if cplx else nfft // 2 + 1
    if r['ret'] != nout: return True, f"{desc}: returned {sgn(r['ret'], 32)} values, expected {nout}"
    pxx = r['outs'][1][:nout]; f = r['outs'][2][:nout]; w = r['outs'][3][:winlen]
    stride = winlen - nov; nseg = (nx - winlen) // stride + 1
    wp = sum(mpmath.mpf(v) ** 2 for v in w) if not scale else mpmath.fsum(w) ** 2
    worst = (0, None)
    for k in range(nout):
        if pxx[k] < 0: return True, f"{desc}: pxx[{k}] = {pxx[k]} is negative"
        acc = mpmath.mpf(0)
        for s_ in range(nseg):
            z = mpmath.mpc(0)
            for m_ in range(winlen):
                xv = mpmath.mpc(x[2 * (s_ * stride + m_)], x[2 * (s_ * stride + m_) + 1]) if cplx else mpmath.mpf(x[s_ * stride + m_])
                z += w[m_] * xv * mpmath.expjpi(-2 * mpmath.mpf(f[k]) * m_)
            acc += abs(z) ** 2
        ref = acc / nseg / wp
        if not cplx and 0 < k < nfft // 2: ref *= 2
        d = abs(mpmath.mpf(pxx[k]) - ref)
        if d > worst[0]: worst = (d, k, ref)
    tot = mpmath.fsum(abs(mpmath.mpf(v)) for v in pxx) or 1
    if worst[0] > 1e-9 * tot:
        k = worst[1]; return True, f"{desc}: pxx[{k}] = {pxx[k]!r} is labelled f = {f[k]!r}, but the periodogram of the input at that frequency is {float(worst[2])!r} (the value belongs to another frequency)"
    return False, 'ok'
def o_cohere(spec, r, extra):
    if r['status'] != 'ok' or r['ret'] == H_THROW: return True, f"mscohere: {r['status']} / threw"
    out = r['outs'][1][:r['ret']]
    return any(abs(v - 1.0) > 1e-6 for v in out), f"mscohere(x, {spec[1][1]}*x) at signal level {max(abs(v) for v in spec[0][1]):.1e} = {out}; a scaled copy must give 1 at every frequency"
def o_ovl(spec, r, extra):
    cplx, ovl, x, nx, winlen, nov, nfft, scale = [spec[i][1] for i in range(8)]; mod, so = load(HARNESS); nout = nfft if cplx else nfft // 2 + 1
    desc = f"welch({'complex' if cplx else 'real'} x[{nx}], " + ['winlen', 'hamming window', 'winlen, noverlap, nfft'][ovl] + f", {'Power' if scale else 'Psd'})"
    if r['status'] != 'ok' or r['ret'] == H_THROW: return True, f"{desc}: {r['status']} / threw"
    full = native_call(so, 'h_welch', [('i32', cplx), ('pf64', x), ('i32', nx), ('i32', 0), ('i32', winlen), ('i32', nov), ('i32', nfft), ('i32', scale), ('pf64', [0.0] * nout), ('pf64', [0.0] * nout), ('pf64', [0.0] * winlen)], 'i32')
    if full['status'] != 'ok': return True, f'{desc}: full overload failed'
    a = r['outs'][1][:nout]; b = full['outs'][1][:nout]
    bad = r['ret'] != full['ret'] or any(not (abs(u - v) <= 1e-12 * max(abs(v), 1e-300)) for u, v in zip(a, b)) or any(u != v for u, v in zip(r['outs'][2][:nout], full['outs'][2][:nout]))
    return bad, f"{desc} = {a[:4]}.., but welch(x, hamming({winlen}), {nov}, {nfft}, {'Power' if scale else 'Psd'}) = {b[:4]}.. (documented defaults of the convenience overload)"
ORACLES = {'welch': o_welch, 'cohere': o_cohere, 'ovl': o_ovl}

def job_welch(res, cplx, nfft, winlen, noverlap, nseg, wkind, scale, tail=1):
    mod, so = load(HARNESS); w_ = 2 if cplx else 1
    stride = winlen - noverlap; nx = winlen + (nseg - 1) * stride + (1 if (stride > 1 and tail) else 0)      # tail = 0: the last segment ends exactly on the last sample
    nout = nfft if cplx else nfft // 2 + 1
    xn = [f'x{i}' for i in range(nx * w_)]
    label = f"welch {'cmplx' if cplx else 'real'} nfft={nfft} win={WN[wkind]}({winlen}) noverlap={noverlap} segs={nseg} {'power' if scale else 'psd'}"
    spec = [('i32', cplx), ('pf64', [fsym(s) for s in xn]), ('i32', nx), ('i32', wkind), ('i32', winlen), ('i32', noverlap), ('i32', nfft), ('i32', scale), ('pf64', [0.0] * nout), ('pf64', [0.0] * nout), ('pf64', [0.0] * winlen)]
    def cex(xv, why, key): return confirm(res, PID, HARNESS, 'h_welch', [spec[0], ('pf64', xv)] + spec[2:8] + [('pf64', [0.0] * nout), ('pf64', [0.0] * nout), ('pf64', [0.0] * winlen)], 'i32', 'welch', ORACLES, key, why, timeout=120)
    tone = lambda fr: ([v for m_ in range(nx) for v in (math.cos(2 * math.pi * fr * m_), math.sin(2 * math.pi * fr * m_))] if cplx else [math.cos(2 * math.pi * fr * m_ + 0.3) for m_ in range(nx)])
    m = Machine(mod, max_steps=200_000_000)
    try: r, outs, _ = sym_call(m, 'h_welch', spec, 'i32'); st = 'ret'
    except Throw: st = 'throw'
    except UB as e: st = 'ub ' + str(e)[:200]
    res.absorb(m)
    if st != 'ret': cex(tone(0.2), f'{label}: {st}', 'welch:fail'); return
    if m.taken: res.inc(f'{label}: data-dependent control flow'); return
    if r != nout: cex(tone(0.2), f'{label}: returned {r} values instead of {nout}', 'welch:size'); return
    pxx = outs[1][:nout]; f = outs[2][:nout]; w = outs[3][:winlen]
    if any(isF(v) for v in f) or any(isF(v) for v in w): res.inc(f'{label}: frequency vector depends on the data'); return
    # frequency grid: increasing, spacing 1/nfft, [0, 0.5] (real) or (-0.5, 0.5] (complex)
    if not cplx: grid_ok = all(abs(f[k] - k / nfft) < 1e-12 for k in range(nout))
    else: grid_ok = all(abs(a - b) < 1e-12 for a, b in zip(sorted(f), [(k - nfft // 2 + 1) / nfft for k in range(nfft)]))     # every frequency of (-0.5, 0.5] exactly once, in whatever order the values come
    sol = z3.Solver(); sol.add(z3.Not(z3.BoolVal(bool(grid_ok)))); res.queries += 1
    if sol.check() == z3.unsat: res.ob(True, 'ground', f'{label}: frequency vector holds each grid frequency k/nfft of [0, 0.5] (real) / (-0.5, 0.5] (complex) exactly once')
    else: cex(tone(0.2), f'{label}: frequency vector {f[:4]}..{f[-2:]} is not the expected grid', 'welch:grid'); return
    try: Q = poly_forms(pxx, 2)
    except (NonLinear, PolyTooBig) as e: res.inc(f'{label}: outputs are not quadratic forms of the input ({e})'); return
    wp = sum(Fraction(v) ** 2 for v in w) if not scale else sum(Fraction(v) for v in w) ** 2
    tol = Fraction(1, 10 ** 11)
    # (1) every value is the (segment-averaged, window-normalised) periodogram at its own listed frequency -> labelling holds for every input signal, not just tones
    tot_ref = {}
    for k in range(nout):
        ref = {}
        for s_ in range(nseg): ref = p_add(ref, periodogram_poly(cplx, xn, w, s_ * stride, Fraction(f[k]), wp * nseg))
        if not cplx and 0 < k < nfft // 2: ref = {kk: 2 * v for kk, v in ref.items()}
        tot_ref = p_add(tot_ref, ref)
        d = poly_l1_diff(Q[k], ref)
        if ground_le(res, d, tol, 'label'): res.ob(True, 'POLY-ground', f'{label}: forall x. pxx[{k}] == periodogram of x at the returned f[{k}] = {f[k]:.4g} (coefficient l1 distance {float(d):.2g})')
        else:
            # which true frequency does this value belong to?  replay with a tone at the listed frequency of the bin
            fr = f[k] if (cplx or f[k] > 0) else 0.125
            cex(tone(fr if abs(fr) > 1e-9 else 1.0 / nfft), f'{label}: pxx[{k}] is not the periodogram at its listed frequency {f[k]:.4g} (coefficient distance {float(d):.3g})', f'welch:label:{"cmplx" if cplx else "real"}')
            # the remaining clauses (non-negativity, conservation, power scaling) do not depend on the labels: go on with the total taken over the grid
            tot_ref = None; break
    # (2) non-negativity: each value is a sum of squares - decided by z3 on the real code's expression
    low = Lower('REAL')
    for k in range(nout):
        sol = z3.Solver(); sol.set('timeout', 20000); sol.add(low(pxx[k]) < 0); t0 = time.time(); c = sol.check(); res.queries += 1; res.solver_s += time.time() - t0
        if c == z3.unsat: res.ob(True, 'NRA', f'{label}: forall x. pxx[{k}] >= 0')
        elif c == z3.sat:
            mdl = model_dict(sol); cex([model_float(mdl, s, 0.0) for s in xn], f'{label}: pxx[{k}] can be negative', 'welch:negative'); return
        else: res.notes.append(f'{label}: non-negativity of pxx[{k}] not decided by z3 within 20 s (implied up to 1e-11 by the periodogram identity)')
    # (3) conservation: sum(pxx) == nfft * mean over segments of sum|x w|^2 / sum w^2   (density scaling)
    if not scale:
        tot = {}
        for q in Q: tot = p_add(tot, q)
        ref = {}
        for s_ in range(nseg):
            for m_ in range(winlen):
                c = Fraction(w[m_]) ** 2 * nfft / (wp * nseg)
                for part in range(w_):
                    s = xn[w_ * (s_ * stride + m_) + part]; ref = p_add(ref, {(s, s): c})
        d = poly_l1_diff(tot, ref)
        if ground_le(res, d, tol * nout, 'parseval'): res.ob(True, 'POLY-ground', f'{label}: forall x. sum(pxx) == nfft * mean_seg(sum|x w|^2 / sum w^2) (distance {float(d):.2g})')
        else: cex(tone(0.21), f'{label}: sum(pxx) differs from nfft * window-normalised mean power (coefficient distance {float(d):.3g})', 'welch:parseval'); return
    elif winlen == nfft:
        # (4) power scaling (window as long as the transform, so that the tone's negative-frequency image does not leak into the bin): a bin-centred sinusoid of amplitude A reports A^2/2 (real) / A^2 (complex) at its peak (rectangular window: exact; others within 5 %)
        k0 = max(1, nfft // 4)
        env = {}
        for m_ in range(nx):
            a = 2 * mpmath.pi * k0 * m_ / nfft + mpmath.mpf('0.3')
            if cplx: env[xn[2 * m_]] = to_frac(mpmath.cos(a)); env[xn[2 * m_ + 1]] = to_frac(mpmath.sin(a))
            else: env[xn[m_]] = to_frac(mpmath.cos(a))
        val = max(poly_eval(q_, env) for q_ in Q); want = Fraction(1) if cplx else Fraction(1, 2)      # "at its peak": the largest returned value
        tolp = Fraction(1, 10 ** 9) if (wkind == 2 and winlen == nfft) else Fraction(5, 100)
        if ground_le(res, abs(val - want), tolp * want, 'power'): res.ob(True, 'POLY-ground', f'{label}: unit-amplitude sinusoid centred on bin {k0} reports {float(val):.6g} (mean-square value {float(want)}) at its peak')
        else: cex([float(env[s]) for s in xn], f'{label}: bin-centred unit sinusoid reports {float(val):.4g} instead of {float(want)}', 'welch:power')

def job_cohere(res, nfft, winlen, noverlap, nseg, wkind, after=False):
    """y = c*x with symbolic c: numerator |Pxy|^2 and denominator Pxx*Pyy of the returned quotient are the same polynomial => coherence == 1 wherever defined"""
    mod, so = load(HARNESS); stride = winlen - noverlap; nx = winlen + (nseg - 1) * stride; nout = nfft // 2 + 1
    xn = [f'x{i}' for i in range(nx)]; label = f'mscohere(x, c*x) nfft={nfft} win={WN[wkind]}({winlen}) noverlap={noverlap} segs={nseg}' + (' after an unrelated call with a longer window' if after else ''); fn = 'h_mscohere_after' if after else 'h_mscohere_scaled'
    m = Machine(mod, max_steps=200_000_000)
    spec = [('pf64', [fsym(s) for s in xn]), ('f64', fsym('c')), ('i32', nx), ('i32', wkind), ('i32', winlen), ('i32', noverlap), ('i32', nfft), ('pf64', [0.0] * nout)]
    try: r, outs, _ = sym_call(m, fn, spec, 'i32')
    except (Throw, UB) as e: res.absorb(m); res.inc(f'{label}: {type(e).__name__}'); return
    res.absorb(m)
    for k, o in enumerate(outs[-1][:nout]):
        if not (isF(o) and o.op == 'fdiv'): res.inc(f'{label}: output {k} is not a quotient'); continue
        try: num = poly_forms([o.args[0]], 6)[0]; den = poly_forms([o.args[1]], 6)[0]
        except (NonLinear, PolyTooBig) as e: res.inc(f'{label}: {e}'); continue
        # same monomials, each coefficient equal up to 1e-9 relative: an absolute term (e.g. an epsilon guard) in only one of them makes the quotient depend on the signal level
        mono = set(num) | set(den); big = max(abs(v) for v in den.values()) if den else Fraction(1)
        worst = max([abs(num.get(k_, 0) - den.get(k_, 0)) / max(abs(den.get(k_, 0)), abs(num.get(k_, 0))) for k_ in mono if max(abs(den.get(k_, 0)), abs(num.get(k_, 0))) > big * Fraction(1, 10 ** 12) or len(k_) < 4] + [Fraction(0)])
        if ground_le(res, worst, Fraction(1, 10 ** 9), 'coh'): res.ob(True, 'POLY-ground', f'{label}: forall x, c. |Pxy[{k}]|^2 and Pxx[{k}]*Pyy[{k}] are the same homogeneous polynomial (no level-dependent term): coherence == 1 at every signal level (worst relative coefficient gap {float(worst):.2g})')
        else:
            xv = [(1e-7 if not after else 1.0) * (math.sin(1.3 * i) + 0.2) for i in range(nx)]
            confirm(res, PID, HARNESS, fn, [('pf64', xv), ('f64', 3.0), ('i32', nx), ('i32', wkind), ('i32', winlen), ('i32', noverlap), ('i32', nfft), ('pf64', [0.0] * nout)], 'i32', 'cohere', ORACLES, 'mscohere:scaled-copy' + (':history' if after else ''),
                    f'{label}: bin {k}: numerator and denominator of the coherence differ (relative coefficient gap {float(worst):.3g}): a scaled copy is not reported as fully coherent at every level'); return

def job_ovl(res, cplx, winlen, nseg):
    """every convenience overload, both scalings, samples symbolic: same terms as the full overload called with the documented defaults (hamming window, winlen/2 overlap, nfft = 2^nextpow2(winlen))"""
    mod, so = load(HARNESS); w_ = 2 if cplx else 1; nov = winlen // 2; nfft = 1 << (winlen - 1).bit_length(); nx = winlen + (nseg - 1) * (winlen - nov); nout = nfft if cplx else nfft // 2 + 1
    xs = [fsym(f'x{i}') for i in range(nx * w_)]; xv = [math.sin(0.9 * i) + 0.3 * math.cos(2.3 * i) for i in range(nx * w_)]
    for scale in (0, 1):
        m0 = Machine(mod, max_steps=200_000_000)
        try: r0, o0, _ = sym_call(m0, 'h_welch', [('i32', cplx), ('pf64', xs), ('i32', nx), ('i32', 0), ('i32', winlen), ('i32', nov), ('i32', nfft), ('i32', scale), ('pf64', [0.0] * nout), ('pf64', [0.0] * nout), ('pf64', [0.0] * winlen)], 'i32')
        except (Throw, UB) as e: res.absorb(m0); res.inc(f'welch full overload: {type(e).__name__}'); continue
        res.absorb(m0)
        for ovl in (0, 1, 2):
            label = f"welch({'complex' if cplx else 'real'} x[{nx}], " + ['winlen', 'hamming window', 'winlen, noverlap, nfft'][ovl] + f", {'Power' if scale else 'Psd'}) winlen={winlen}"
            m = Machine(mod, max_steps=200_000_000); spec = [('i32', cplx), ('i32', ovl), ('pf64', xs), ('i32', nx), ('i32', winlen), ('i32', nov), ('i32', nfft), ('i32', scale), ('pf64', [0.0] * nout), ('pf64', [0.0] * nout)]
            try: r, o, _ = sym_call(m, 'h_welch_ovl', spec, 'i32'); st = 'ret'
            except (Throw, UB) as e: st = type(e).__name__; r = None
            res.absorb(m)
            ok = st == 'ret' and r == r0 and all((a is b) or (not isF(a) and not isF(b) and same_bits(a, b)) for a, b in zip(o[1][:nout] + o[2][:nout], o0[1][:nout] + o0[2][:nout]))
            if not ok and st == 'ret' and r == r0:
                low = Lower('REAL'); sol = z3.Solver(); sol.set('timeout', 120000)
                sol.add(z3.Or([(low(a) if isF(a) else z3.RealVal(Fraction(a))) != (low(b) if isF(b) else z3.RealVal(Fraction(b))) for a, b in zip(o[1][:nout] + o[2][:nout], o0[1][:nout] + o0[2][:nout])]))
                ok = timed_check(sol, res, 120000) == z3.unsat
            else:
                sol = z3.Solver(); sol.add(z3.Not(z3.BoolVal(bool(ok)))); timed_check(sol, res)
            if ok: res.ob(True, 'UF', f'{label}: same values and frequencies as the full overload with the documented defaults, for every input')
            else: confirm(res, PID, HARNESS, 'h_welch_ovl', [('i32', cplx), ('i32', ovl), ('pf64', xv)] + spec[3:8] + [('pf64', [0.0] * nout), ('pf64', [0.0] * nout)], 'i32', 'ovl', ORACLES, f'welch:overload:{ovl}:{"cmplx" if cplx else "real"}', f'{label}: differs from the full overload with the documented defaults ({st})')

JOBFNS = {'welch': job_welch, 'cohere': job_cohere, 'ovl': job_ovl}

def selftest(st):
    calls = []
    for cplx in (0, 1):
        x = [math.sin(0.7 * i) + 0.1 * i for i in range(64)]
        calls.append(('h_welch', [('i32', cplx), ('pf64', x), ('i32', 20), ('i32', 0), ('i32', 8), ('i32', 4), ('i32', 8), ('i32', 0), ('pf64', [0.0] * 8), ('pf64', [0.0] * 8), ('pf64', [0.0] * 8)], 'i32'))
        calls.append(('h_welch', [('i32', cplx), ('pf64', x), ('i32', 13), ('i32', 1), ('i32', 5), ('i32', 2), ('i32', 8), ('i32', 1), ('pf64', [0.0] * 8), ('pf64', [0.0] * 8), ('pf64', [0.0] * 5)], 'i32'))
    calls.append(('h_mscohere', [('pf64', [math.sin(i) for i in range(16)]), ('pf64', [math.cos(1.3 * i) for i in range(16)]), ('i32', 16), ('i32', 0), ('i32', 8), ('i32', 4), ('i32', 8), ('pf64', [0.0] * 5)], 'i32'))
    selftest_calls(st, HARNESS, calls)

def main(tier, seed):
    q = tier == 'quick'; jobs = []
    for cplx in (0, 1):
        for nfft in ((4, 8) if q else (4, 8, 16)):
            for (winlen, nov) in sorted({(nfft, 0), (nfft, nfft // 2), (nfft - 1, 1), (nfft // 2 + 1, 0)}):
                for wkind in ((0, 2) if q else (0, 1, 2, 3)):
                    for scale in (0, 1):
                        for nseg in ((1, 2) if nfft <= 8 else (2,)):
                            if cplx and nfft >= 16 and nseg > 1: continue
                            jobs.append((f'welch c={cplx} nfft={nfft} w={winlen}/{nov} k={wkind} s={scale} seg={nseg}', 'welch', dict(cplx=cplx, nfft=nfft, winlen=winlen, noverlap=nov, nseg=nseg, wkind=wkind, scale=scale), 1500))
    for (nfft, winlen, nov, nseg) in ([(4, 4, 2, 2), (4, 3, 1, 2)] if q else [(4, 4, 2, 2), (4, 3, 1, 2), (8, 8, 4, 2), (8, 5, 2, 3)]):
        jobs.append((f'mscohere scaled copy nfft={nfft}', 'cohere', dict(nfft=nfft, winlen=winlen, noverlap=nov, nseg=nseg, wkind=0), 1500))
    for (nfft, winlen, nov, nseg) in ([(4, 3, 1, 2), (8, 5, 2, 2)] if q else [(4, 3, 1, 2), (4, 2, 0, 3), (8, 5, 2, 2), (8, 6, 3, 2), (16, 9, 3, 2)]):
        jobs.append((f'mscohere after history nfft={nfft} w={winlen}', 'cohere', dict(nfft=nfft, winlen=winlen, noverlap=nov, nseg=nseg, wkind=0, after=True), 1500))
    for cplx in (0, 1):
        for (nfft, winlen, nov) in ([(4, 4, 2), (8, 8, 4), (8, 6, 2)] if q else [(4, 4, 2), (4, 4, 0), (8, 8, 4), (8, 8, 0), (8, 6, 2), (8, 5, 1), (16, 16, 8)]):
            for nseg in (2, 3):
                jobs.append((f'welch aligned c={cplx} nfft={nfft} w={winlen}/{nov} seg={nseg}', 'welch', dict(cplx=cplx, nfft=nfft, winlen=winlen, noverlap=nov, nseg=nseg, wkind=0, scale=0, tail=0), 1500))
    for cplx in (0, 1):
        for (winlen, nseg) in ([(4, 2), (6, 1)] if q else [(4, 2), (6, 1), (8, 3), (5, 2), (16, 2)]): jobs.append((f'welch overloads c={cplx} winlen={winlen}', 'ovl', dict(cplx=cplx, winlen=winlen, nseg=nseg), 1500))
    jobs.sort(key=lambda j: -(j[2].get('nfft', 8) * (2 if j[2].get('cplx') else 1)))
    return run_property(PID, tier, HARNESS, jobs, JOBFNS,
        level_text='welch (real and complex) is executed with all samples symbolic; each returned value is extracted as an exact quadratic form of the input and must equal, for every input, the '
                   'segment-averaged window-normalised periodogram evaluated at the frequency the function itself returns for that entry (so the frequency axis is pinned for every signal, not only tones); '
                   'the frequency vector must be the uniform grid; non-negativity is decided by z3 on the real expression; sum(pxx) equals nfft times the window-normalised mean power as a polynomial identity; '
                   'power scaling: a bin-centred unit sinusoid evaluates to its mean-square value. mscohere of a scaled copy: numerator and denominator of the returned quotient are the same polynomial.',
        assumptions=['REAL arithmetic; FFT twiddles are the real doubles (their error is inside the 1e-11 coefficient tolerance)', 'window computed by the real code (concrete)'],
        bounds={'nfft': '4, 8 quick / 4, 8, 16', 'segments': '1-2 (+1 unaligned tail sample)', 'windows': 'hamming, rect (quick) + hann, blackman', 'mscohere': 'nfft 4 (8), 2-3 segments'},
        outside=['mscohere in [0,1] for arbitrary pairs (Cauchy-Schwarz in degree 4) is not decided', 'long signals / large nfft'], seed=seed, selftest=selftest)

def replay(path): return replay_main(path, ORACLES)
