"""C14 — analytic signal, Hilbert filter, tuner (P-LIN, P-EQ)."""
from common import *
from plin import *
PID = 'C14'; HARNESS = 'C14.cpp'
H_THROW = (-1000000) & 0xffffffff

def analytic_ref(n, nx=None):
    """rows (re0, im0, re1, ...) over real inputs x0..x(nx-1) (zero padded / truncated to n): IDFT . diag(w) . DFT with w = 1 (k=0, and k=n/2 for even n), 2 (0<k<n/2), 0 (k>n/2)"""
    nx = n if nx is None else nx; cs = dft_cs(n)
    w = [1 if (k == 0 or (n % 2 == 0 and k == n // 2)) else 2 if k < (n + 1) // 2 else 0 for k in range(n)]
    rows = []
    for m_ in range(n):
        rre = []; rim = []
        for j in range(nx):
            if j >= n: rre.append(Fraction(0)); rim.append(Fraction(0)); continue
            re = im = Fraction(0)
            for k in range(n):
                if not w[k]: continue
                c, s_ = cs[(k * (j - m_)) % n]      # e^{-2 pi i k (j-m)/n}
                re += w[k] * c; im += w[k] * s_
            rre.append(re / n); rim.append(im / n)
        rows.append(rre); rows.append(rim)
    return rows

def mp_analytic(x, n):
    xs = (list(x) + [0.0] * n)[:n]
    X = [mpmath.fsum(mpmath.mpf(xs[j]) * mpmath.expjpi(mpmath.mpf(-2 * j * k) / n) for j in range(n)) for k in range(n)]
    w = [1 if (k == 0 or (n % 2 == 0 and k == n // 2)) else 2 if k < (n + 1) // 2 else 0 for k in range(n)]
    return [mpmath.fsum(w[k] * X[k] * mpmath.expjpi(mpmath.mpf(2 * m_ * k) / n) for k in range(n)) / n for m_ in range(n)]
def o_hilbert(spec, r, extra):
    n = extra['n']; nx = extra['nx']; x = spec[0][1]
    if r['status'] != 'ok' or r['ret'] == H_THROW: return True, f"hilbert n={n}: {r['status']} / threw"
    if r['ret'] != n: return True, f"hilbert: returned length {sgn(r['ret'], 32)}, expected {n}"
    y = r['outs'][-1]; got = [mpmath.mpc(y[2 * i], y[2 * i + 1]) for i in range(n)]; exp = mp_analytic(x[:nx], n)
    xs = (list(x[:nx]) + [0.0] * n)[:n]
    den = mpmath.sqrt(mpmath.fsum(abs(e) ** 2 for e in exp)) or 1
    e = mpmath.sqrt(mpmath.fsum(abs(g - q) ** 2 for g, q in zip(got, exp))) / den
    re_dev = max(abs(y[2 * i] - xs[i]) for i in range(n))
    return e > 64 * n * EPS, f"hilbert(x[{nx}]{', ' + str(n) if nx != n else ''}): relative l2 deviation from the analytic signal {mpmath.nstr(e, 4)} (tolerance {64 * n * EPS:.2g}); real part differs from x by up to {re_dev:.3g}; x={xs[:6]} real(hilbert)={[y[2 * i] for i in range(min(n, 6))]}"
def o_tuner(spec, r, extra):
    fs = spec[1][1][0]; f = spec[2][1][0]; x = spec[6][1]; n = spec[7][1] + spec[8][1] + spec[9][1]
    if r['status'] != 'ok' or r['ret'] == H_THROW: return True, f"Tuner: {r['status']} / threw"
    y = r['outs'][-1]
    for k in range(n):
        w = mpmath.expjpi(mpmath.mpf(2) * mpmath.mpf(f) * k / fs); xe = mpmath.mpc(x[2 * k], x[2 * k + 1]) * w
        if abs(mpmath.mpc(y[2 * k], y[2 * k + 1]) - xe) > 1e-9 * max(abs(xe), 1e-300):
            return True, f"Tuner(fs={fs}, f={f}): sample {k} = ({y[2 * k]!r}, {y[2 * k + 1]!r}), x[k]*exp(2*pi*i*f*k/fs) = ({float(xe.real)!r}, {float(xe.imag)!r})"
    return False, 'ok'
def o_delay(spec, r, extra):
    x = spec[6][1]; n = spec[7][1] + spec[8][1] + spec[9][1]; d = extra['delay']
    if r['status'] != 'ok' or r['ret'] == H_THROW: return True, f"HilbertFilter: {r['status']} / threw"
    y = r['outs'][-1]
    for k in range(n):
        e = x[k - d] if k >= d else 0.0
        if not same_bits(y[2 * k], e): return True, f"HilbertFilter ({extra['desc']}): real part of output {k} is {y[2 * k]!r}, the input delayed by {d} samples is {e!r}"
    return False, 'ok'
ORACLES = {'hilbert': o_hilbert, 'tuner': o_tuner, 'delay': o_delay}

def job_hilbert(res, n, nx=None):
    mod, so = load(HARNESS); nx = n if nx is None else nx
    insyms = [f'x{i}' for i in range(nx)]; fn = 'h_hilbert' if nx == n else 'h_hilbert_n'
    spec = [('pf64', [fsym(s) for s in insyms])] + ([('i32', n)] if nx == n else [('i32', nx), ('i32', n)]) + [('pf64', [0.0] * (2 * n))]
    label = f'hilbert(x[{nx}]' + (f', {n})' if nx != n else ')')
    ex = {'n': n, 'nx': nx}
    def cex(xv, why): return confirm(res, PID, HARNESS, fn, [('pf64', xv)] + spec[1:-1] + [('pf64', [0.0] * (2 * n))], 'i32', 'hilbert', ORACLES, f'hilbert:{"dc-nyquist" if "dc" in why else "value"}', why, extra=ex, timeout=60)
    m = Machine(mod, max_steps=200_000_000)
    try: r, outs, _ = sym_call(m, fn, spec, 'i32'); st = 'ret'
    except Throw: st = 'throw'
    except UB as e: st = 'ub ' + str(e)[:200]
    res.absorb(m)
    if st != 'ret': cex([1.0 + 0.5 * i for i in range(nx)], f'{label}: {st}'); return
    if m.taken: res.inc(f'{label}: data-dependent control flow'); return
    if r != n: cex([1.0] * nx, f'{label}: returned length {r}'); return
    rows = plin_matrix(res, m, outs[-1][:2 * n], insyms, label)
    if rows is None: return
    ref = analytic_ref(n, nx); f2 = fro2(rows, ref, insyms)
    budget = Fraction(1, 2) * 64 * n * Fraction(EPS) * to_frac(mpmath.sqrt(n))
    ratio = float(mpmath.sqrt(mpmath.mpf(f2.numerator) / f2.denominator) / (mpmath.mpf(budget.numerator) / budget.denominator)) if f2 else 0.0
    if ground_le(res, f2, budget * budget, 'fro'): res.ob(True, 'LRA-ground', f'{label}: transfer matrix = IDFT.diag(1,2,..,2,[1],0,..,0).DFT within 1/2*64*n*eps*sqrt(n): real part is x, negative-frequency bins vanish (ratio {ratio:.3g})')
    else:
        # which part fails: a constant input exercises DC, an alternating one Nyquist
        dc = sum(abs(rows[2 * i].get(s, 0) - (1 if j == i else 0)) for i in range(n) for j, s in enumerate(insyms)) > Fraction(1, 10 ** 6)
        xv = [1.0 + 0.25 * ((-1) ** i) + 0.1 * i for i in range(nx)]
        cex(xv, f'{label}: transfer matrix differs from the analytic-signal operator by {ratio:.3g} x budget' + (' (dc / nyquist content is not preserved in the real part)' if dc else ''))

def job_hfilt(res, taps, flen, tw, frames):
    """real part of HilbertFilter output == input delayed by M/2, exactly (same terms)"""
    mod, so = load(HARNESS)
    if taps: ip, dp, c = [0], [0.0], taps; M = len(taps); desc = f'custom taps[{M}]'
    else:
        mc = Machine(mod, max_steps=400_000_000); hb = mc.alloc_doubles([0.0] * 1024, 'h'); M = mc.call('@h_hilb_taps', [flen, tw, hb, 1024]); ip, dp, c = [flen], [tw], []; desc = f'designed flen={flen} tw={tw} (length {M})'
    d = M // 2; n1, n2, n3 = frames; n = n1 + n2 + n3
    xs = [fsym(f'x{i}') for i in range(n)]
    spec = [('i32', 12), ('pi32', ip + [0]), ('pf64', dp + [0.0]), ('pf64', c), ('i32', len(c)), ('i32', 1), ('pf64', xs), ('i32', n1), ('i32', n2), ('i32', n3), ('pf64', [0.0] * (2 * n))]
    label = f'HilbertFilter {desc} frames={frames}'
    def cex(why): return confirm(res, PID, HARNESS, 'h_stream', spec[:6] + [('pf64', [math.sin(0.9 * i) + 0.3 for i in range(n)])] + spec[7:10] + [('pf64', [0.0] * (2 * n))], 'i32', 'delay', ORACLES, 'hilbertfilter:delay', why, extra={'delay': d, 'desc': desc}, timeout=60)
    m = Machine(mod, max_steps=400_000_000)
    try: r, outs, _ = sym_call(m, 'h_stream', spec, 'i32'); st = 'ret'
    except Throw: st = 'throw'
    except UB as e: st = 'ub ' + str(e)[:200]
    res.absorb(m)
    if st != 'ret' or r != 2 * n: cex(f'{label}: {st} / {r} doubles'); return
    y = outs[-1]
    ok = all((y[2 * k] is xs[k - d]) if k >= d else (not isF(y[2 * k]) and y[2 * k] == 0.0) for k in range(n))
    sol = z3.Solver(); sol.add(z3.Not(z3.BoolVal(ok))); res.queries += 1
    if sol.check() == z3.unsat: res.ob(True, 'UF', f'{label}: real part of every output is the very input term delayed by M/2 = {d} samples (bit-exact, zeros before)')
    else: cex(f'{label}: real part is not the input delayed by {d}')

def job_tuner(res, fs, f, frames):
    mod, so = load(HARNESS); n1, n2, n3 = frames; n = n1 + n2 + n3
    insyms = [f'x{i}' for i in range(2 * n)]
    spec = [('i32', 13), ('pi32', [fs, 0]), ('pf64', [f, 0.0]), ('pf64', []), ('i32', 0), ('i32', 2), ('pf64', [fsym(s) for s in insyms]), ('i32', n1), ('i32', n2), ('i32', n3), ('pf64', [0.0] * (2 * n))]
    label = f'Tuner(fs={fs}, f={f}) frames={frames}'
    def cex(xv, why, key): return confirm(res, PID, HARNESS, 'h_stream', spec[:6] + [('pf64', xv)] + spec[7:10] + [('pf64', [0.0] * (2 * n))], 'i32', 'tuner', ORACLES, key, why, timeout=60)
    m = Machine(mod, max_steps=400_000_000)
    try: r, outs, _ = sym_call(m, 'h_stream', spec, 'i32'); st = 'ret'
    except Throw: st = 'throw'
    except UB as e: st = 'ub ' + str(e)[:200]
    res.absorb(m)
    if st != 'ret' or r != 2 * n: cex([1.0, 0.0] * n, f'{label}: {st} / {r}', 'tuner:fail'); return
    if m.taken: res.inc(f'{label}: data-dependent control flow'); return
    rows = plin_matrix(res, m, outs[-1][:2 * n], insyms, label)
    if rows is None: return
    worst = Fraction(0); wk = None; tol = Fraction(1, 10 ** 12)
    for k in range(n):
        w = mpmath.expjpi(mpmath.mpf(2) * mpmath.mpf(f) * k / fs); c = to_frac(w.real); s_ = to_frac(w.imag)
        exp_re = {insyms[2 * k]: c, insyms[2 * k + 1]: -s_}; exp_im = {insyms[2 * k]: s_, insyms[2 * k + 1]: c}
        for row, exp in ((rows[2 * k], exp_re), (rows[2 * k + 1], exp_im)):
            dev = sum(abs(row.get(s, 0) - exp.get(s, 0)) for s in set(row) | set(exp) if s != 1) + abs(row.get(1, 0))
            if dev > worst: worst = dev; wk = k
    if ground_le(res, worst, tol, 'rot'): res.ob(True, 'LRA-ground', f'{label}: sample k is multiplied by exp(2*pi*i*f*k/fs) for every k < {n} (max deviation {float(worst):.2g})')
    else:
        xv = [0.0] * (2 * n); xv[2 * wk] = 1.0
        cex(xv, f'{label}: sample {wk} is not multiplied by exp(2*pi*i*f*k/fs) (deviation {float(worst):.3g})', f'tuner:phase:{"fractional" if float(f) != int(f) else "integer"}')

def o_tuner_at(spec, r, extra):
    fs, f, k = spec[0][1], spec[1][1], spec[2][1]
    if r['status'] != 'ok' or r['ret'] == H_THROW: return True, f"Tuner(fs={fs}, f={f}): {r['status']} / threw {r.get('stderr', '')[-300:]}"
    w = mpmath.expjpi(mpmath.mpf(2) * mpmath.mpf(f) * k / fs); y = r['outs'][-1]
    return abs(y[0] - float(w.real)) + abs(y[1] - float(w.imag)) > 1e-6, f"Tuner(fs={fs}, f={f}): unit sample {k} comes out as ({y[0]!r}, {y[1]!r}), exp(2*pi*i*f*k/fs) = ({float(w.real)!r}, {float(w.imag)!r})"
ORACLES['tuner_at'] = o_tuner_at
def job_tuner_step(res, f, fsmax, ground=None):
    """one sample from an arbitrary counter state: fs and the sample counter are 32-bit bit-vectors (2|f| <= fs <= fsmax, 0 <= counter < fs), the sample symbolic: no integer overflow / conversion UB on any path,
    the counter advances modulo fs. ground=(fs, counter): the same step executed concretely, output compared with exp(2*pi*i*f*k/fs)."""
    mod, so = load(HARNESS)
    if ground:
        fs, ph = ground; m = Machine(mod); label = f'Tuner(fs={fs}, f={f}) one sample at counter {ph}'
        spec = [('i32', fs), ('f64', f), ('i32', ph), ('f64', 1.0), ('f64', 0.0), ('pf64', [0.0] * 3)]
        try: r, outs, _ = sym_call(m, 'h_tuner_step', spec, 'i32'); st = 'ret'
        except (Throw, UB) as e: st = f'{type(e).__name__} {str(e)[:160]}'; outs = None
        res.absorb(m); w = mpmath.expjpi(mpmath.mpf(2) * mpmath.mpf(f) * ph / fs)
        ok = st == 'ret' and not m.ub_found and abs(outs[-1][0] - float(w.real)) + abs(outs[-1][1] - float(w.imag)) <= 1e-6
        sol = z3.Solver(); sol.add(z3.Not(z3.BoolVal(bool(ok))))
        if timed_check(sol, res) == z3.unsat: res.ob(True, 'ground', f'{label}: exp(2*pi*i*f*k/fs) within 1e-6, no integer overflow on the way')
        else:
            why = f'{label}: {st}' + (f'; UB {str(m.ub_found[0][:2])[:200]}' if m.ub_found else '') + (f'; got {outs[-1][:2]}' if outs else '')
            if not confirm(res, PID, HARNESS, 'h_tuner_at', [('i32', fs), ('f64', f), ('i32', ph), ('pf64', [0.0, 0.0])], 'i32', 'tuner_at', ORACLES, 'tuner:step:large-fs', why, timeout=300, suspect_is_inconclusive=not m.ub_found):
                if m.ub_found: confirm(res, PID, HARNESS, 'h_tuner_at', [('i32', fs), ('f64', f), ('i32', ph), ('pf64', [0.0, 0.0])], 'i32', 'tuner_at', ORACLES, 'tuner:step:large-fs', why, timeout=600, san=True)
        return
    FS = bvsym('fs', 32); PH = bvsym('ph', 32); lo = max(2, int(math.ceil(2 * abs(f)))); label = f'Tuner(fs in [{lo}, {fsmax}], f={f}) one sample from any counter state'
    def setup(m):
        m.assume(z3.And(FS.e >= lo, FS.e <= fsmax, PH.e >= 0, PH.e < FS.e)); o = m.alloc_doubles([0.0] * 3, 'o'); return [FS, f, PH, fsym('xr'), fsym('xi'), o], o
    for p in explore(mod, '@h_tuner_step', setup, max_paths=16):
        if p.out not in ('ret',): res.absorb(p.m) if p.m else None; res.inc(f'{label}: path {p.out} {str(p.err)[:160]}'); continue
        res.absorb(p.m)
        if p.m.ub_found:
            kind, msg, mdl, where = p.m.ub_found[0]; fsv = model_int(mdl, 'fs'); phv = model_int(mdl, 'ph')
            why = f'{label}: undefined behaviour ({kind}: {msg[:120]} at {where[:120]}) for fs={fsv}, counter={phv}'
            spec = [('i32', fsv), ('f64', f), ('i32', phv), ('pf64', [0.0, 0.0])]
            if not confirm(res, PID, HARNESS, 'h_tuner_at', spec, 'i32', 'tuner_at', ORACLES, 'tuner:step:ub', why, timeout=600, suspect_is_inconclusive=False):
                confirm(res, PID, HARNESS, 'h_tuner_at', spec, 'i32', 'tuner_at', ORACLES, 'tuner:step:ub', why, timeout=900, san=True)
            continue
        res.ob(True, 'BV', f'{label}: path |pc|={len(p.m.pc)}: no signed overflow / invalid conversion for every (fs, counter) on the path')
        nxt = z3.If(PH.e + 1 == FS.e, z3.BitVecVal(0, 32), PH.e + 1); sol = z3.Solver(); sol.set('timeout', 60000); sol.add(*p.m.pc); sol.add(bve(p.ret, 32) != nxt); c = sol.check(); res.queries += 1
        if c == z3.unsat: res.ob(True, 'BV', f'{label}: path |pc|={len(p.m.pc)}: the counter advances to (counter + 1) mod fs')
        elif c == z3.sat:
            mdl = model_dict(sol); fsv = model_int(mdl, 'fs'); phv = model_int(mdl, 'ph')
            confirm(res, PID, HARNESS, 'h_tuner_at', [('i32', fsv), ('f64', f), ('i32', min(phv + 1, 2 ** 31 - 2)), ('pf64', [0.0, 0.0])], 'i32', 'tuner_at', ORACLES, 'tuner:step:counter', f'{label}: counter does not advance modulo fs (fs={fsv}, counter={phv})', timeout=600)
        else: res.inc(f'{label}: counter update undecided')

JOBFNS = {'hilbert': job_hilbert, 'hfilt': job_hfilt, 'tuner': job_tuner, 'tuner_step': job_tuner_step}

def selftest(st):
    calls = [('h_hilbert', [('pf64', [math.sin(i) + 0.5 for i in range(n)]), ('i32', n), ('pf64', [0.0] * 2 * n)], 'i32') for n in (3, 4, 7, 8, 12)]
    calls.append(('h_stream', [('i32', 13), ('pi32', [8, 0]), ('pf64', [0.5, 0.0]), ('pf64', []), ('i32', 0), ('i32', 2), ('pf64', [0.1 * i for i in range(40)]), ('i32', 9), ('i32', 5), ('i32', 6), ('pf64', [0.0] * 40)], 'i32'))
    calls.append(('h_stream', [('i32', 12), ('pi32', [15, 0]), ('pf64', [0.1, 0.0]), ('pf64', []), ('i32', 0), ('i32', 1), ('pf64', [0.1 * i for i in range(20)]), ('i32', 9), ('i32', 5), ('i32', 6), ('pf64', [0.0] * 40)], 'i32'))
    selftest_calls(st, HARNESS, calls, max_steps=400_000_000)

def main(tier, seed):
    q = tier == 'quick'; jobs = []
    def _lpf(n):
        f = 2; m_ = n; big = 1
        while f * f <= m_:
            while m_ % f == 0: big = max(big, f); m_ //= f
            f += 1
        return max(big, m_) if m_ > 1 else big
    # thorough: every length to 96 except those with a prime factor above 47 (Bluestein path: two chained chirp transforms, exact rational forms exceed an hour and 7 GB per length); 43 and 47 themselves are kept
    for n in (range(3, 33) if q else [n for n in range(3, 97) if _lpf(n) < 43 or n in (43, 47)]): jobs.append((f'hilbert n={n}', 'hilbert', dict(n=n), 4000))
    for nx, n in ([(5, 8), (8, 5), (6, 7), (7, 12), (12, 4), (4, 3)] if q else [(a, b) for a in (3, 5, 8, 12, 16) for b in (3, 4, 7, 8, 12, 20) if a != b]): jobs.append((f'hilbert nx={nx} n={n}', 'hilbert', dict(n=n, nx=nx), 3000))
    jobs.append(('HilbertFilter custom 7', 'hfilt', dict(taps=[0.1, 0.0, -0.6, 0.0, 0.6, 0.0, -0.1], flen=0, tw=0.0, frames=(9, 0, 0)), 900))
    jobs.append(('HilbertFilter custom 5 frames', 'hfilt', dict(taps=[0.3, -0.7, 0.0, 0.7, -0.3], flen=0, tw=0.0, frames=(2, 5, 3)), 900))
    for flen, tw in ([(31, 0.05), (16, 0.1)] if q else [(31, 0.05), (16, 0.1), (51, 0.01), (101, 0.02), (40, 0.08)]): jobs.append((f'HilbertFilter designed {flen}', 'hfilt', dict(taps=[], flen=flen, tw=tw, frames=(flen + 4, 3, 5)), 3000))
    for fs, f in ([(8, 1.0), (8, 0.5), (8, -2.5), (10, 3.0), (10, 0.25), (48, 7.0), (48, 0.5)] if q else [(8, 1.0), (8, 0.5), (8, -2.5), (8, 4.0), (10, 3.0), (10, 0.25), (10, -4.75), (48, 7.0), (48, 0.5), (48, 23.9), (100, 12.5)]):
        jobs.append((f'Tuner fs={fs} f={f}', 'tuner', dict(fs=fs, f=f, frames=(fs + 3, fs, fs + 2) if fs <= 10 else (fs + 5, fs // 2, fs)), 3000))
    # Tuner, one sample from an arbitrary counter state: small-witness region first (counter-examples replay in milliseconds), then the full range of sample rates
    for f in ((40000.0, -47999.75, 0.5) if q else (40000.0, -47999.75, 0.5, 1.0, 12345.678, -3.0e8 + 0.25)):
        for fsmax in (1 << 18, 1 << 30):
            if 2 * abs(f) <= fsmax: jobs.append((f'Tuner step f={f} fs<={fsmax}', 'tuner_step', dict(f=f, fsmax=fsmax), 1800))
    for (f, fs, ph) in ([(40000.0, 96000, 95999), (-49999.0, 100000, 99999)] if q else [(40000.0, 96000, 95999), (40000.0, 96000, 53700), (-49999.0, 100000, 99999), (95999.5, 192000, 191999), (2.0 ** 29 - 0.25, 1 << 30, (1 << 30) - 1)]):
        jobs.append((f'Tuner step ground fs={fs} f={f} k={ph}', 'tuner_step', dict(f=f, fsmax=fs, ground=(fs, ph)), 900))
    return run_property(PID, tier, HARNESS, jobs, JOBFNS,
        level_text='hilbert(x): executed once per length with all samples symbolic; z3 (QF_LRA) certifies the code as a fixed matrix which must equal IDFT.diag(1,2,...,2,[1],0,...,0).DFT (the analytic-signal '
                   'operator: real part = x, negative-frequency bins zero) within half of 64*n*eps; hilbert(x, n) against the same operator on the padded / truncated input. HilbertFilter: the real part of every '
                   'output is the very input term delayed by M/2 (bit-exact), custom and designed taps, three frames. Tuner: certified linear, sample k multiplied by exp(2*pi*i*f*k/fs) for every k up to ~3*fs, '
                   'integer and fractional f, across three calls; one sample from an arbitrary counter state with the sample rate and the counter as 32-bit bit-vectors (fs up to 2^30): no integer overflow / conversion UB on any path and the counter advances modulo fs (BV), plus ground steps at high sample rates compared with exp(2*pi*i*f*k/fs).',
        assumptions=['REAL arithmetic for the data path; cos/sin values are the doubles the real code computed (concrete arguments)', 'the 1e-3 quadrature accuracy of the designed Hilbert filter is a numeric property of concrete taps and is not decided'],
        bounds={'hilbert': 'n = 3..32 quick / 3..96 without lengths that have a prime factor above 47 (43 and 47 kept)', 'Tuner': 'fs in {8,10,48,(100)}, about 3*fs samples, 3 calls; one-step jobs: every fs in [2|f|, 2^30], every counter in [0, fs), f in a list of 3 (6) values', 'HilbertFilter': 'custom 5/7 taps, designed flen 16..101'},
        outside=['the rotation angle modulo 2*pi for arbitrary (fs, counter) above the enumerated sample rates (only overflow-freedom and the counter update are decided there)', 'quadrature accuracy over the pass-band', 'lengths above the bound'], seed=seed, selftest=selftest)

def replay(path): return replay_main(path, ORACLES)
