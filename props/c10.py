"""C10 — transform results do not depend on call history; the plan cache is transparent and bounded (P-EQ over enumerated histories, symbolic data; hook: cache keys)."""
from common import *
import itertools, random
def same_term(a, b): return a is b or (not isF(a) and not isF(b) and same_bits(a, b))
PID = 'C10'; HARNESS = 'C10.cpp'
H_THROW = (-1000000) & 0xffffffff
CREATE_C = '@_ZN6dsplib15create_fft_planEi'; CREATE_R = '@_ZN6dsplib16create_rfft_planEi'; KEYS = '@_ZN6dsplib20verif_fft_cache_keysEb'
MAXN = 16; KCAP = 8
KN = ['fft(complex)', 'fft(real)', 'ifft', 'irfft', 'fft(complex x[n-2], n)', 'fft(complex x[n/2], n)', 'fft(real x[n-2], n)', 'fft(real x[n/2], n)']

def spec_hist(hist, xs, m=None):
    m = len(hist) if m is None else m
    return [('pi32', [k for k, n in hist] + [0]), ('pi32', [n for k, n in hist] + [0]), ('i32', m), ('pf64', xs), ('pf64', [0.0] * (2 * MAXN * max(m, 1))), ('pi32', [0] * (2 * KCAP * max(m, 1))), ('i32', KCAP), ('i32', 2 * MAXN)]

def completion_order(entries):
    """entries: (name, arg, depth) in call-entry order -> same entries in call-completion order"""
    out = []; st = []
    for e in entries:
        while st and st[-1][2] >= e[2]: out.append(st.pop())
        st.append(e)
    while st: out.append(st.pop())
    return out

def lru_model(touches, cap):
    """touches: list of ('c'|'r', key) -> dict cache -> list MRU first"""
    c = {'c': [], 'r': []}
    for which, k in touches:
        l = c[which]
        if k in l: l.remove(k)
        l.insert(0, k)
        del l[cap:]
    return c

def o_history(spec, r, extra):
    """native: (a) every step's result equals the result of the same single request in a fresh process (bit-identical), (b) cache key sets as expected, size <= capacity"""
    kinds = spec[0][1]; lens = spec[1][1]; m = spec[2][1]; x = spec[3][1]; mod, so = load(HARNESS)
    desc = 'history ' + ' '.join(f'{KN[k]}[{n}]' for k, n in zip(kinds[:m], lens[:m]))
    if r['status'] != 'ok' or r['ret'] == H_THROW: return True, f"{desc}: {r['status']} / threw"
    if r['ret'] == (-5) & 0xffffffff: return True, f"{desc}: a cache holds more than {KCAP} plans"
    y = r['outs'][3]; keys = [sgn(v, 32) for v in r['outs'][4]]
    for i in range(m):
        fr = native_call(so, 'h_history', spec_hist([(kinds[i], lens[i])], x), 'i32')
        w = lens[i] if kinds[i] == 3 else 2 * lens[i]
        if fr['status'] != 'ok': return True, f"{desc}: fresh single request failed"
        if any(not same_bits(a, b) for a, b in zip(y[2 * MAXN * i: 2 * MAXN * i + w], fr['outs'][3][:w])):
            return True, f"{desc}: request #{i} ({KN[kinds[i]]}[{lens[i]}]) returns {y[2 * MAXN * i: 2 * MAXN * i + 4]}.. after this history but {fr['outs'][3][:4]}.. in a fresh thread"
    cap = extra['cap']
    for i in range(m):
        for ci, nm in enumerate(('complex', 'real')):
            ks = [k for k in keys[(2 * i + ci) * KCAP:(2 * i + ci + 1) * KCAP] if k >= 0]
            if len(ks) > cap: return True, f"{desc}: after request #{i} the {nm} cache holds {len(ks)} plans {ks}, capacity is {cap}"
            exp = extra['expected'][i][ci]
            if sorted(ks) != sorted(exp): return True, f"{desc}: after request #{i} the {nm} cache holds {ks}; the {cap} most recently used plans are {exp}"
    return False, 'history-independent, cache = most recently used plans'
def o_plan(spec, r, extra):
    pk, pn = spec[0][1], spec[1][1]; kinds = spec[2][1]; lens = spec[3][1]; m = spec[4][1]; x = spec[5][1]; mod, so = load(HARNESS)
    desc = f"{['FftPlan', 'FftPlanR', 'IfftPlan', 'IfftPlanR'][pk]}({pn}) taken before " + ' '.join(f'{KN[k]}[{n}]' for k, n in zip(kinds[:m], lens[:m]))
    if r['status'] != 'ok' or r['ret'] == H_THROW: return True, f"{desc}: {r['status']} / threw"
    fr = native_call(so, 'h_plan_then_history', spec[:4] + [('i32', 0)] + spec[5:], 'i32')
    w = pn if pk == 3 else 2 * pn
    bad = fr['status'] != 'ok' or any(not same_bits(a, b) for a, b in zip(r['outs'][-1][:w], fr['outs'][-1][:w]))
    return bad, f"{desc}: the early plan returns {r['outs'][-1][:4]}.. after the history, {fr['outs'][-1][:4]}.. without it"
ORACLES = {'history': o_history, 'plan': o_plan}

_fresh = {}
def fresh_result(mod, k, n, xs):
    if (k, n) not in _fresh:
        m = Machine(mod, max_steps=100_000_000)
        r, outs, _ = sym_call(m, 'h_history', spec_hist([(k, n)], xs), 'i32')
        _fresh[(k, n)] = outs[3][:(n if k == 3 else 2 * n)]
    return _fresh[(k, n)]

def job_hist(res, hists):
    _fresh.clear()      # terms of an earlier job belong to a discarded term table
    mod, so = load(HARNESS)
    mc = Machine(mod); cap = mc.call('@h_capacity', [])
    xs = [fsym(f'x{i}') for i in range(2 * MAXN)]
    xv = [((i * 7919 + 13) % 1000) / 1000.0 - 0.5 for i in range(2 * MAXN)]
    for hist in hists:
        label = 'history ' + ' '.join(f'{KN[k]}[{n}]' for k, n in hist); mlen = len(hist)
        m = Machine(mod, max_steps=200_000_000); m.call_log = []; m.log_names = (CREATE_C, CREATE_R, KEYS)
        spec = spec_hist(hist, xs)
        def cex(why, key, expected=None):
            return confirm(res, PID, HARNESS, 'h_history', spec_hist(hist, xv), 'i32', 'history', ORACLES, key, why, extra={'cap': cap, 'expected': expected or [[[], []]] * mlen}, timeout=120)
        try: r, outs, _ = sym_call(m, 'h_history', spec, 'i32'); st = 'ret'
        except Throw: st = 'throw'
        except UB as e: st = 'ub ' + str(e)[:200]
        res.absorb(m)
        if st != 'ret': cex(f'{label}: {st}', 'history:' + st.split()[0]); continue
        if m.taken: res.inc(f'{label}: data-dependent control flow'); continue
        # (1) LRU model on the observed create_*_plan calls (completion order), segmented by the key snapshots the harness takes after each request
        segs = [[]]
        for e in m.call_log:
            if e[0] == KEYS:
                if e[1][-1] == 1: segs.append([])     # the real-cache snapshot is the second of the pair: request boundary
                continue
            segs[-1].append(e)
        touches = []; expected = []
        for i in range(mlen):
            for (nm, args, d) in completion_order(segs[i]):
                n = args[-1]
                if n in (1, 2, 4, 8): continue
                touches.append(('c' if nm == CREATE_C else 'r', n))
            mdl = lru_model(touches, cap); expected.append([list(mdl['c']), list(mdl['r'])])
        keys = [sgn(v, 32) for v in outs[4]]
        ok_keys = True
        for i in range(mlen):
            for ci in range(2):
                ks = [k for k in keys[(2 * i + ci) * KCAP:(2 * i + ci + 1) * KCAP] if k >= 0]
                if len(ks) > cap or sorted(ks) != sorted(expected[i][ci]): ok_keys = False
        # every verdict through the solver: the key lists are concrete on this path, the obligation is a ground formula
        sol = z3.Solver(); sol.add(z3.Not(z3.BoolVal(ok_keys))); c = sol.check(); res.queries += 1
        if c == z3.unsat: res.ob(True, 'ground', f'{label}: after every request each cache holds at most {cap} plans, exactly the most recently used ones (reference LRU on the observed create_*_plan calls)')
        else: cex(f'{label}: cache contents differ from the {cap} most recently used plans', 'cache:lru', expected); continue
        # (2) every request's result is the same term as in a fresh machine (bit-identical for every input)
        bad = None
        for i, (k, n) in enumerate(hist):
            w = n if k == 3 else 2 * n; got = outs[3][2 * MAXN * i: 2 * MAXN * i + w]; fr = fresh_result(mod, k, n, xs)
            if not all(same_term(a, b) for a, b in zip(got, fr)): bad = i; break
        if bad is None: res.ob(True, 'UF', f'{label}: every result is the same term as the result of that request in a fresh thread')
        else:
            # decide over the reals before reporting
            k, n = hist[bad]; w = n if k == 3 else 2 * n; got = outs[3][2 * MAXN * bad: 2 * MAXN * bad + w]; fr = fresh_result(mod, k, n, xs)
            low = Lower('REAL'); sol = z3.Solver(); sol.set('timeout', 60000); sol.add(z3.Or([(low(a) if isF(a) else z3.RealVal(Fraction(a))) != (low(b) if isF(b) else z3.RealVal(Fraction(b))) for a, b in zip(got, fr)]))
            c = sol.check(); res.queries += 1
            if c == z3.unsat: res.ob(True, 'REAL', f'{label}: request #{bad} differs as a term from the fresh result but is equal over the reals')
            else: cex(f'{label}: request #{bad} ({KN[k]}[{n}]) gives a different result than in a fresh thread', 'history:result', expected)

def job_plan(res, cases):
    mod, so = load(HARNESS); xs = [fsym(f'x{i}') for i in range(2 * MAXN)]; xv = [((i * 7919 + 13) % 1000) / 1000.0 - 0.5 for i in range(2 * MAXN)]
    for (pk, pn, hist) in cases:
        label = f"{['FftPlan', 'FftPlanR', 'IfftPlan', 'IfftPlanR'][pk]}({pn}) taken before " + ' '.join(f'{KN[k]}[{n}]' for k, n in hist)
        def run(h):
            m = Machine(mod, max_steps=200_000_000)
            r, outs, _ = sym_call(m, 'h_plan_then_history', [('i32', pk), ('i32', pn), ('pi32', [k for k, n in h] + [0]), ('pi32', [n for k, n in h] + [0]), ('i32', len(h)), ('pf64', xs), ('pf64', [0.0] * (2 * MAXN))], 'i32')
            res.absorb(m); return outs[-1][:(pn if pk == 3 else 2 * pn)]
        try: a = run(hist); b = run([])
        except (Throw, UB) as e:
            confirm(res, PID, HARNESS, 'h_plan_then_history', [('i32', pk), ('i32', pn), ('pi32', [k for k, n in hist] + [0]), ('pi32', [n for k, n in hist] + [0]), ('i32', len(hist)), ('pf64', xv), ('pf64', [0.0] * (2 * MAXN))], 'i32', 'plan', ORACLES, 'plan:throw', f'{label}: {type(e).__name__}'); continue
        if all(same_term(u, v) for u, v in zip(a, b)): res.ob(True, 'UF', f'{label}: the early plan still returns the same terms after the history (evictions included)')
        else:
            confirm(res, PID, HARNESS, 'h_plan_then_history', [('i32', pk), ('i32', pn), ('pi32', [k for k, n in hist] + [0]), ('pi32', [n for k, n in hist] + [0]), ('i32', len(hist)), ('pf64', xv), ('pf64', [0.0] * (2 * MAXN))], 'i32', 'plan', ORACLES, 'plan:stale', f'{label}: an early plan object returns a different result after other lengths were used')

def o_reject(spec, r, extra):
    k0, n0, k1, n1 = spec[0][1], spec[1][1], spec[2][1], spec[3][1]; x = spec[4][1]; mod, so = load(HARNESS)
    desc = f'{KN[k1]}[{n1}] after the rejected request {KN[k0]}[{n0}]'
    if r['status'] != 'ok' or r['ret'] == H_THROW: return True, f"{desc}: {r['status']} / threw"
    fr = native_call(so, 'h_history', spec_hist([(k1, n1)], x), 'i32'); w = n1 if k1 == 3 else 2 * n1
    if fr['status'] != 'ok': return True, f'{desc}: fresh request failed'
    bad = any(not same_bits(a, b) for a, b in zip(r['outs'][1][:w], fr['outs'][3][:w]))
    return bad, f"{desc}: returns {r['outs'][1][:4]}.. but {fr['outs'][3][:4]}.. in a fresh thread"
ORACLES['reject'] = o_reject
def job_reject(res, cases):
    """a request that ends in an exception (irfft of odd length) must leave nothing behind that changes a later accepted request: state at the throw point, then the second request, vs a fresh machine"""
    _fresh.clear(); mod, so = load(HARNESS)
    xs = [fsym(f'x{i}') for i in range(2 * MAXN)]; xv = [((i * 7919 + 13) % 1000) / 1000.0 - 0.5 for i in range(2 * MAXN)]
    for (k0, n0, k1, n1) in cases:
        label = f'{KN[k1]}[{n1}] after the rejected request {KN[k0]}[{n0}]'
        m = Machine(mod, max_steps=200_000_000); threw = False
        try: sym_call(m, 'h_history', spec_hist([(k0, n0)], xs), 'i32')
        except Throw: threw = True
        except UB as e: res.absorb(m); res.inc(f'{label}: UB in the rejected request: {str(e)[:100]}'); continue
        if not threw: res.absorb(m); res.inc(f'{label}: the first request was not rejected'); continue
        m.pending = []
        try: r, outs, _ = sym_call(m, 'h_history', spec_hist([(k1, n1)], xs), 'i32'); st = 'ret'
        except Throw: st = 'throw'
        except UB as e: st = 'ub ' + str(e)[:100]
        res.absorb(m); w = n1 if k1 == 3 else 2 * n1
        ok = st == 'ret' and all(same_term(a, b) for a, b in zip(outs[3][:w], fresh_result(mod, k1, n1, xs)))
        if not ok and st == 'ret':
            low = Lower('REAL'); sol = z3.Solver(); sol.set('timeout', 60000)
            sol.add(z3.Or([(low(a) if isF(a) else z3.RealVal(Fraction(a))) != (low(b) if isF(b) else z3.RealVal(Fraction(b))) for a, b in zip(outs[3][:w], fresh_result(mod, k1, n1, xs))]))
            ok = timed_check(sol, res) == z3.unsat
        else:
            sol = z3.Solver(); sol.add(z3.Not(z3.BoolVal(bool(ok)))); timed_check(sol, res)
        if ok: res.ob(True, 'UF', f'{label}: same terms as in a fresh thread')
        else: confirm(res, PID, HARNESS, 'h_after_reject', [('i32', k0), ('i32', n0), ('i32', k1), ('i32', n1), ('pf64', xv), ('pf64', [0.0] * (2 * MAXN))], 'i32', 'reject', ORACLES, 'history:after-reject', f'{label}: {st}; result differs from the fresh one')

JOBFNS = {'hist': job_hist, 'plan': job_plan, 'reject': job_reject}

def selftest(st):
    xv = [((i * 7919 + 13) % 1000) / 1000.0 - 0.5 for i in range(2 * MAXN)]
    calls = [('h_history', spec_hist(h, xv), 'i32') for h in ([(0, 6), (0, 10), (0, 12), (0, 6)], [(1, 6), (1, 10), (0, 5), (1, 16), (1, 12)], [(2, 9), (3, 12), (0, 16), (3, 10)])]
    selftest_calls(st, HARNESS, calls, max_steps=200_000_000)

def main(tier, seed):
    q = tier == 'quick'; jobs = []; A = [5, 6, 9, 10, 12, 16]; rnd = random.Random(10 + seed)
    hs = []
    L = 3 if q else 5
    for kind in (0, 1):
        for seq in itertools.product(A, repeat=L): hs.append([(kind, n) for n in seq])
    # mixed kinds and longer random histories (hits on older entries before overflow, evictions, re-insertions)
    for _ in range(150 if q else 1500):
        ln = rnd.randint(4, 7 if q else 8); hs.append([(rnd.choice([0, 0, 1, 1, 2, 3]), rnd.choice(A + [3, 7, 14, 8])) for _ in range(ln)])
    hs = [[(k, n if not (k == 3 and n % 2) else n + 1) for k, n in h] for h in hs]
    # eviction and re-creation: a length, then enough other lengths of the same cache to evict it (and its sub-plans), then the length again
    for kind in (0, 1, 2, 3):
        for a in ((9, 6, 15, 12) if q else (9, 6, 15, 12, 10, 5, 14)):
            if kind == 3 and a % 2: continue
            others = [n for n in (5, 6, 10, 12, 16, 14, 7) if n != a and not (kind == 3 and n % 2)]
            for rot in range(2 if q else 4):
                o = others[rot:] + others[:rot]; hs.append([(kind, a)] + [(kind, n) for n in o[:5]] + [(kind, a)])
    # the other cache in between: a request, five requests that only touch the OTHER cache (complex <-> real), the request again
    for (ka, kb) in ((1, 0), (0, 1), (3, 0), (2, 1)):
        for a in ((5, 7, 13, 6) if q else (5, 7, 13, 6, 9, 11, 12)):
            if ka == 3 and a % 2: continue
            others = [n for n in (6, 9, 10, 12, 14, 15, 16) if n != a and not (kb == 3 and n % 2)]
            hs.append([(ka, a)] + [(kb, n) for n in others[:5]] + [(ka, a)])
    # zero-padded transforms: the same target length from inputs of different length, longer input first
    for n in ((8, 12, 16) if q else (6, 8, 9, 12, 13, 16)):
        for (k1, k2) in ((4, 5), (6, 7), (4, 7), (6, 5), (0, 5), (1, 7)):
            hs.append([(k1, n), (k2, n)]); hs.append([(k1, n), (k2, n), (k1, n)])
    rnd.shuffle(hs)
    chunk = max(8, len(hs) // 48)
    for i in range(0, len(hs), chunk): jobs.append((f'histories {i}..', 'hist', dict(hists=hs[i:i + chunk]), 3000))
    cases = []
    for pk, pn in [(0, 6), (0, 12), (0, 5), (0, 16), (1, 6), (1, 10), (1, 9), (2, 12), (2, 5), (3, 12), (3, 10), (3, 16)]:
        for _ in range(2 if q else 6):
            cases.append((pk, pn, [(rnd.choice([0, 1, 2, 3]), rnd.choice([6, 10, 12, 14, 16, 9, 5, 3])) for _ in range(rnd.randint(4, 7))]))
    cases = [(pk, pn, [(k, n if not (k == 3 and n % 2) else n + 1) for k, n in h]) for pk, pn, h in cases]
    for i in range(0, len(cases), 4): jobs.append((f'early plans {i}..', 'plan', dict(cases=cases[i:i + 4]), 1500))
    rj = [(3, n0, k1, n1) for n0 in ((3, 5, 7, 9, 13) if q else (3, 5, 7, 9, 11, 13, 15)) for (k1, n1) in ((3, n0 - 1), (3, n0 + 1), (1, n0 - 1), (0, n0), (2, n0 + 1))]
    for i in range(0, len(rj), 5): jobs.append((f'after rejected request {i}..', 'reject', dict(cases=rj[i:i + 5]), 1500))
    return run_property(PID, tier, HARNESS, jobs, JOBFNS,
        level_text='Request histories are enumerated (all sequences up to the stated length over a 6-length alphabet that exceeds the cache, for the complex and the real cache, plus random mixed '
                   'fft/ifft/rfft/irfft histories); the data is symbolic: every request result must be the same term as the result of that single request in a fresh machine '
                   '(bit-identical for every input). After every request the hook reports both caches\' keys, which must be at most DSPLIB_FFT_CACHE_SIZE and exactly the most recently used plans '
                   'according to a reference LRU run in lock-step on the observed create_fft_plan / create_rfft_plan calls (nested sub-plan requests included). Early plan objects are re-used after histories.',
        assumptions=['single modelled thread (thread_local caches are plain globals of that thread)', 'cache size = CMakeLists default (4); other sizes not rebuilt in quick'],
        bounds={'histories': f'all {len(A)}^{L} sequences of length {L} per cache kind (prefixes cover shorter ones) + {150 if q else 1500} random mixed histories of length 4..8', 'early plans': f'{len(cases)} (plan, history) pairs'},
        outside=['histories longer than the bound', 'cache sizes 1 and 2 (thorough only by rebuilding; not run here)'], seed=seed, selftest=selftest)

def replay(path): return replay_main(path, ORACLES)
