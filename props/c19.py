"""C19 — noise injection scaling, RNG reproducibility and bounds, scale invariance of the measurement functions (P-STEP, P-INT, P-POLY) — partial: statistical calibration is not decided."""
from common import *
PID = 'C19'; HARNESS = 'C19.cpp'
H_THROW = (-1000000) & 0xffffffff
ENGINE = '@_ZN6dsplib12_GLOBAL__N_18g_engineE'
ENGINE_CALL = '@_ZNSt23mersenne_twister_engineImLm32ELm624ELm397ELm31ELm2567483615ELm11ELm4294967295ELm7ELm2636928640ELm15ELm4022730752ELm18ELm1812433253EEclEv'
GN = ['rand(n)', 'randn(n)', 'randi({lo,hi}, n)', 'rand()', 'randn()', 'randi(hi)', 'rand({lo,hi}, n)']

def o_awgn(spec, r, extra):
    cplx = extra['cplx']; x = spec[1][1]; n = spec[2][1]; snr = spec[3][1]; w = 2 if cplx else 1
    if r['status'] != 'ok' or r['ret'] == H_THROW: return True, f"awgn: {r['status']} / threw"
    y = r['outs'][1][:n * w]
    # the noise actually added, normalised by the unit-variance draws the same seed produces, gives the per-component scale sigma
    g = extra['g']      # the unit normals of this seed; which draw lands on which component depends on the compiler's argument evaluation order, the multiset does not
    px = sum(v * v for v in x[:n * w]) / n; want = math.sqrt(px * 10 ** (-snr / 10) / w)
    s = math.sqrt(sum((y[i] - x[i]) ** 2 for i in range(n * w)) / sum(v * v for v in g))
    return abs(s - want) > 1e-6 * want, f"awgn({'complex' if cplx else 'real'} x, snr={snr} dB): per-component noise scale {s:.6g}; signal power / 10^(snr/10) split over {w} component(s) requires {want:.6g} (noise power {10 * math.log10(w * s * s / px) + snr:+.2f} dB off)"
def o_repro(spec, r, extra):
    if r['status'] != 'ok': return True, f"generator: {r['status']}"
    k = spec[1][1]; n = spec[2][1]; lo, hi = sgn(spec[3][1], 32), sgn(spec[4][1], 32)
    y = r['outs'][0][:n]; y2 = r['outs'][1][:n]
    if any(not same_bits(a, b) for a, b in zip(y, y2)): return True, f"rng({spec[0][1]}); {GN[k]}; other draws; rng({spec[0][1]}); {GN[k]} does not replay the same values: {y[:4]} vs {y2[:4]}"
    if k in (2,) and any(not (lo <= v <= hi) for v in y): return True, f"randi({{{lo},{hi}}}) returned {[v for v in y if not lo <= v <= hi][:3]} outside its inclusive bounds"
    return False, 'ok'
def o_randi(spec, r, extra):
    lo, hi = sgn(spec[0][1], 32), sgn(spec[1][1], 32)
    if r['status'] != 'ok': return True, f"randi: {r['status']}"
    return not (lo <= sgn(r['ret'], 32) <= hi), f"randi({{{lo}, {hi}}}) = {sgn(r['ret'], 32)}"
def o_measure(spec, r, extra):
    if r['status'] != 'ok': return True, f"measure: {r['status']}"
    mod, so = load(HARNESS); r1 = native_call(so, 'h_measure', spec[:3] + [('f64', 1.0)], 'f64')
    nm = ['snr', 'sinad', 'thd'][spec[0][1]]
    return abs(r['ret'] - r1['ret']) > 1e-9, f"{nm}(c*x) with c = {spec[3][1]} is {r['ret']!r} dB but {nm}(x) is {r1['ret']!r} dB (scaling by a power of two is exact, so the two must agree)"
def o_randi_many(spec, r, extra):
    lo, hi, n = sgn(spec[0][1], 32), sgn(spec[1][1], 32), spec[2][1]
    if r['status'] != 'ok' or r['ret'] == (-1000000) & 0xffffffff: return True, f"randi: {r['status']} / threw"
    return r['ret'] != 0, f"randi({{{lo}, {hi}}}): {r['ret']} of {n} draws after rng({spec[3][1]}) lie outside the inclusive bounds"
ORACLES = {'randi_many': o_randi_many, 'awgn': o_awgn, 'repro': o_repro, 'randi': o_randi, 'measure': o_measure}

def job_awgn(res, cplx, n, snr, seed):
    """x symbolic: y_i - x_i == g_i * sigma with ONE sigma, and sigma^2 * (#components) == mean|x|^2 * 10^(-snr/10)  (g_i: the unit normals the same seed yields)"""
    mod, so = load(HARNESS); w = 2 if cplx else 1; fn = 'h_awgn_c' if cplx else 'h_awgn_r'
    mg = Machine(mod, max_steps=100_000_000); gy = mg.alloc_doubles([0.0] * (n * w), 'g'); mg.call('@h_seed_gen', [seed, 1, n, 0, 0, gy]); g = mg.read_doubles(gy, n)
    if cplx:      # complex noise = complex(randn(n), randn(n)): two separate calls (the normal distribution's cached second value is dropped between calls)
        mg.call('@h_gen', [1, n, 0, 0, gy]); g2 = mg.read_doubles(gy, n); g = [g[i // 2] if i % 2 == 0 else g2[i // 2] for i in range(2 * n)]
    m = Machine(mod, max_steps=100_000_000); xs = [fsym(f'x{i}') for i in range(n * w)]
    label = f"awgn({'complex' if cplx else 'real'} x[{n}], {snr} dB)"
    xv = [math.sin(0.9 * i) + 0.4 for i in range(n * w)]
    def cex(why): return confirm(res, PID, HARNESS, fn, [('i32', seed), ('pf64', xv), ('i32', n), ('f64', snr), ('pf64', [0.0] * (n * w))], 'i32', 'awgn', ORACLES, f'awgn:{"cmplx" if cplx else "real"}:scale', why, extra={'cplx': cplx, 'g': g})
    try: r, outs, _ = sym_call(m, fn, [('i32', seed), ('pf64', xs), ('i32', n), ('f64', snr), ('pf64', [0.0] * (n * w))], 'i32')
    except (Throw, UB) as e: res.absorb(m); cex(f'{label}: {type(e).__name__}'); return
    res.absorb(m); y = outs[1][:n * w]
    if m.taken: res.inc(f'{label}: data-dependent control flow'); return
    X = [z3.Real(f'x{i}') for i in range(n * w)]; S = z3.Real('sigma')
    P = z3.Sum([v * v for v in X]) / n; K2 = z3.RealVal(Fraction(10 ** (-snr / 10)))
    low = m.lower
    for v in y: low(v) if isF(v) else None      # lower first: the sqrt in rms() contributes side constraints (v >= 0, v*v == arg) to the path condition
    sol = z3.Solver(); sol.set('timeout', 120000)
    for c_ in m.pc: sol.add(c_)
    # sigma defined through the first sample with a usable draw; every other sample must use the same sigma
    idx = [i for i in range(n * w) if abs(g[i]) > 0.05]
    sol.add(low(y[idx[0]]) == X[idx[0]] + z3.RealVal(Fraction(g[idx[0]])) * S)
    bad = [low(y[i]) - (X[i] + z3.RealVal(Fraction(g[i])) * S) > z3.RealVal('1/1000000000') for i in idx[1:]] + [(X[i] + z3.RealVal(Fraction(g[i])) * S) - low(y[i]) > z3.RealVal('1/1000000000') for i in idx[1:]]
    tol = z3.RealVal('1/1000000')
    bad += [S * S * w - P * K2 > tol * P * K2, P * K2 - S * S * w > tol * P * K2, S < 0]
    sol.add(z3.Sum([v * v for v in X]) >= 1, *[z3.And(v >= -4, v <= 4) for v in X]); sol.add(z3.Or(bad))
    t0 = time.time(); c = sol.check(); res.queries += 1; res.solver_s += time.time() - t0
    if c == z3.unsat: res.ob(True, 'NRA', f'{label}: forall x. noise = g_i * sigma with sigma^2 * {w} == mean|x|^2 * 10^(-snr/10)  (total noise power = signal power / 10^(snr/10), summed over {"both components" if cplx else "the component"})')
    elif c == z3.sat: cex(f'{label}: the noise scale is not signal power / 10^(snr/10)' + (' summed over both components' if cplx else ''))
    else: res.inc(f'{label}: scale identity undecided')

def job_seed(res):
    """rng(seed) from a HAVOCKED engine: every word of the generator state afterwards is a term over the seed only"""
    mod, so = load(HARNESS); m = Machine(mod, max_steps=100_000_000, ubcheck=False)     # overflow obligations on the 624-deep multiplicative terms are not the subject here
    symir.SIMPLIFY = False                          # 624-step multiplicative chain on the seed: terms are only built, never solved
    m.call('@h_rng', [0])                           # makes sure the thread_local engine is constructed
    eb = m.blocks[m.gaddr[ENGINE]]; nwords = eb.size // 8
    for i in range(nwords): m.store(IT(64), bvsym(f'old{i}', 64), Ptr(m.gaddr[ENGINE], 8 * i))
    seed = bvsym('seed', 32)
    try: m.call('@h_rng', [seed])
    except (Throw, UB) as e: res.absorb(m); res.inc(f'rng(seed): {type(e).__name__} {e}'); return
    res.absorb(m); symir.SIMPLIFY = True
    seen = {}      # AST id -> does the sub-term mention an old-state symbol (shared DAG: memoised, iterative)
    def mentions_old(e):
        st = [e]
        while st:
            t = st[-1]; tid = t.get_id()
            if tid in seen: st.pop(); continue
            if z3.is_const(t) and t.decl().kind() == z3.Z3_OP_UNINTERPRETED: seen[tid] = str(t).startswith('old'); st.pop(); continue
            ch = t.children(); pend = [c for c in ch if c.get_id() not in seen]
            if pend: st.extend(pend); continue
            seen[tid] = any(seen[c.get_id()] for c in ch); st.pop()
        return seen[e.get_id()]
    dirty = []
    for i in range(nwords):
        v = m.load(IT(64), Ptr(m.gaddr[ENGINE], 8 * i))
        if isBV(v) and mentions_old(v.e): dirty.append(i)
    sol = z3.Solver(); sol.add(z3.BoolVal(bool(dirty))); res.queries += 1
    if sol.check() == z3.unsat: res.ob(True, 'BV', f'rng(seed) on an arbitrary (havocked) engine: all {nwords} state words afterwards are terms over the seed alone, so every generator replays after re-seeding')
    else: res.inc(f'rng(seed): state words {dirty[:5]} still depend on the previous state')

def job_repro(res, seed, k, n, lo, hi):
    """rng(s); draw; interleaved other draws; rng(s); draw again -> identical (concrete seeds: the seeding step itself is covered symbolically by job_seed)"""
    mod, so = load(HARNESS); m = Machine(mod, max_steps=200_000_000)
    y1 = m.alloc_doubles([0.0] * n, 'y1'); y2 = m.alloc_doubles([0.0] * n, 'y2'); t = m.alloc_doubles([0.0] * 8, 't')
    try:
        m.call('@h_seed_gen', [seed, k, n, lo & 0xffffffff, hi & 0xffffffff, y1]); m.call('@h_gen', [(k + 1) % 7, 5, 1, 6, t]); m.call('@h_gen', [(k + 3) % 7, 3, 1, 6, t])
        m.call('@h_seed_gen', [seed, k, n, lo & 0xffffffff, hi & 0xffffffff, y2])
    except (Throw, UB) as e: res.absorb(m); res.inc(f'{GN[k]} seed {seed}: {type(e).__name__} {str(e)[:200]}'); return
    res.absorb(m); a = m.read_doubles(y1, n); b = m.read_doubles(y2, n)
    ok = all(same_bits(u, v) for u, v in zip(a, b)) and (k != 2 or all(lo <= v <= hi for v in a))
    sol = z3.Solver(); sol.add(z3.Not(z3.BoolVal(bool(ok)))); res.queries += 1
    if sol.check() == z3.unsat: res.ob(True, 'ground', f'rng({seed}); {GN[k]} replays bit-identically after interleaved draws' + (f' and stays in [{lo}, {hi}]' if k == 2 else ''))
    else: confirm(res, PID, HARNESS, 'h_replay', [('i32', seed), ('i32', k), ('i32', n), ('i32', lo & 0xffffffff), ('i32', hi & 0xffffffff), ('pf64', [0.0] * n), ('pf64', [0.0] * n)], 'i32', 'repro', ORACLES, f'rng:replay:{GN[k]}', f'rng({seed}); {GN[k]} does not replay / leaves its bounds')

class StopPath(Exception): pass
def job_randi(res, lo, hi):
    """randi({lo,hi}) with the raw 32-bit engine outputs symbolic (rejection loop followed for 3 draws): result in [lo, hi] on every path"""
    mod, so = load(HARNESS)
    if ENGINE_CALL not in mod.funcs: res.inc('mt19937::operator() is not an out-of-line function in the IR'); return
    work = [[]]; npaths = 0
    while work and npaths < 200:
        preset = work.pop(); npaths += 1
        m = Machine(mod, preset=preset, max_steps=20_000_000); draws = []
        def stub(mm, this):
            if len(draws) == 3: raise StopPath()
            d = z3.BitVec(f'u{len(draws)}', 32); draws.append(d); return BV(z3.ZeroExt(32, d), 64)
        m.override[ENGINE_CALL] = stub
        try: r = m.call('@h_randi1', [lo & 0xffffffff, hi & 0xffffffff]); st = 'ret'
        except StopPath: st = 'stop'
        except (Throw, UB) as e: st = 'err ' + str(e)[:100]
        work.extend(m.pending); res.absorb(m)
        if st == 'stop': continue
        if st != 'ret': res.inc(f'randi({lo},{hi}): {st}'); continue
        sol = z3.Solver(); sol.set('timeout', 60000); sol.add(*m.pc); R = bve(r, 32); sol.add(z3.Not(z3.And(R >= lo, R <= hi))); c = sol.check(); res.queries += 1
        if c == z3.unsat: res.ob(True, 'BV', f'randi({{{lo}, {hi}}}): path with {len(draws)} engine draws: for every raw 32-bit engine output the result lies in [{lo}, {hi}]')
        elif c == z3.sat: confirm(res, PID, HARNESS, 'h_randi_many', [('i32', lo & 0xffffffff), ('i32', hi & 0xffffffff), ('i32', 20000), ('i32', 1)], 'i32', 'randi_many', ORACLES, 'randi:bounds', f'randi({lo},{hi}) can leave its bounds (engine outputs {[model_int(model_dict(sol), f"u{i}") for i in range(len(draws))]})', suspect_is_inconclusive=True); return
        else: res.inc(f'randi({lo},{hi}): undecided')

def job_scale(res, k, n):
    """measurement of c*x for symbolic c > 0 on a concrete short signal: one feasible path and the returned ratio does not depend on c"""
    mod, so = load(HARNESS); nm = ['snr', 'sinad', 'thd'][k]
    xv = [math.sin(2 * math.pi * 3.3 * i / n) + 0.1 * math.sin(2 * math.pi * 6.6 * i / n + 0.5) + 0.01 * math.sin(1.7 * i * i) for i in range(n)]
    C = z3.Real('c'); outs = []
    def setup(m):
        m.assume(z3.And(C > z3.RealVal('1/10000'), C < 10000)); return [k, m.alloc_doubles(xv, 'x'), n, fsym('c')], None
    for p in explore(mod, '@h_measure', setup, max_paths=8, max_steps=200_000_000):
        if p.out != 'ret': res.inc(f'{nm}(c*x): path {p.out} {str(p.err)[:200]}'); continue
        res.absorb(p.m); outs.append(p)
    if len(outs) != 1:
        res.inc(f'{nm}(c*x) n={n}: {len(outs)} feasible paths for c in (1e-4, 1e4) (the analysis decisions depend on the scale)'); return
    p = outs[0]; r = p.ret
    # result = 10*log10(ratio): the ratio itself must not depend on c
    if not (isF(r) and r.op == 'fmul' and any(isF(a) and a.op == 'call' and a.args[0] == 'log10' for a in r.args)):
        res.inc(f'{nm}(c*x): result is not 10*log10(ratio) ({r})'); return
    ratio = [a for a in r.args if isF(a)][0].args[1]
    low = p.m.lower; R = low(ratio)
    R1 = z3.substitute(R, (C, z3.RealVal(1)))
    sol = z3.Solver(); sol.set('timeout', 120000); sol.add(*p.m.pc); sol.add(z3.Or(R - R1 > R1 * z3.RealVal('1/1000000000'), R1 - R > R1 * z3.RealVal('1/1000000000'))); c = sol.check(); res.queries += 1
    if c == z3.unsat: res.ob(True, 'NRA', f'{nm}(c*x) n={n}: forall c in (1e-3, 1e3): same analysis path and the power ratio is independent of c (c^2 cancels)')
    elif c == z3.sat:
        # replay at exact power-of-two scales (scaling is then exact in floating point) near both ends of the range and at the model's value
        cm = model_float(model_dict(sol), 'c', 2.0)
        for cv in (2.0 ** -13, 2.0 ** 13, 2.0 ** round(math.log2(max(cm, 1e-9)))):
            if confirm(res, PID, HARNESS, 'h_measure', [('i32', k), ('pf64', xv), ('i32', n), ('f64', cv)], 'f64', 'measure', ORACLES, f'scale:{nm}', f'{nm} changes when the signal is scaled (solver: c = {cm})', suspect_is_inconclusive=False): break
        else: res.inc(f'{nm}(c*x): solver found a scale where the ratio moves by more than 1e-9 relative, native replays at 2^-13, 2^13 and the model value agree to 1e-9 dB')
    else: res.inc(f'{nm}(c*x): undecided')

def tone3(n):
    """fundamental at 0.0431 cycles/sample (off-bin), harmonics at -20 and -30 dBc, fixed phases, no noise: thd(3) = 10*log10(1e-2 + 1e-3), sinad = -thd"""
    w = 2 * math.pi * 0.0431
    return [math.sin(w * i) + 0.1 * math.sin(2 * w * i + 0.3) + 10 ** -1.5 * math.sin(3 * w * i + 1.1) for i in range(n)]
THD3 = 10 * math.log10(1e-2 + 1e-3)
def o_measure_large(spec, r, extra):
    if r['status'] != 'ok': return True, f"measure: {r['status']} {r.get('stderr', '')[-300:]}"
    nm = ['snr', 'sinad', 'thd'][spec[0][1]]; exp = -THD3 if spec[0][1] == 1 else THD3
    return not abs(r['ret'] - exp) <= 1.0, f"{nm} of a noise-free tone with harmonics at -20 / -30 dBc, length {spec[2][1]}: {r['ret']!r} dB, analytic value {exp:.3f} dB"
ORACLES['measure_large'] = o_measure_large
def job_measure_large(res, k, n):
    """ground obligation at lengths where the index / normalisation products of the periodogram reach 2^31 (length * nfft/2 from length 65536): the interpreted real code runs on one constructed tone with every
    signed-overflow / bounds / conversion obligation active; the value must be the analytic one within 1 dB"""
    mod, so = load(HARNESS); nm = ['snr', 'sinad', 'thd'][k]; x = tone3(n); spec = [('i32', k), ('pf64', x), ('i32', n), ('f64', 1.0)]
    m = Machine(mod, max_steps=1_500_000_000)
    try: r, outs, _ = sym_call(m, 'h_measure', spec, 'f64')
    except UB as e:
        res.absorb(m)
        if not confirm(res, PID, HARNESS, 'h_measure', spec, 'f64', 'measure_large', ORACLES, f'measure:{nm}:large-n', f'{nm} length {n}: {str(e)[:200]}', timeout=120, suspect_is_inconclusive=False):
            confirm(res, PID, HARNESS, 'h_measure', spec, 'f64', 'measure_large', ORACLES, f'measure:{nm}:large-n', f'{nm} length {n}: {str(e)[:200]}', timeout=300, san=True)
        return
    except (Budget, Throw) as e: res.absorb(m); res.inc(f'{nm} length {n}: {type(e).__name__} {str(e)[:120]}'); return
    res.absorb(m); exp = -THD3 if k == 1 else THD3
    ok = abs(r - exp) <= 1.0 and not m.ub_found
    sol = z3.Solver(); sol.add(z3.Not(z3.BoolVal(bool(ok))))
    if timed_check(sol, res) == z3.unsat: res.ob(True, 'ground', f'{nm} length {n}: {r:.4f} dB (analytic {exp:.3f}), no integer overflow / out-of-bounds access on the way')
    else:
        why = f'{nm} length {n}: got {r!r} dB, analytic {exp:.3f}' + (f'; UB {str(m.ub_found[:1])[:200]}' if m.ub_found else '')
        if not confirm(res, PID, HARNESS, 'h_measure', spec, 'f64', 'measure_large', ORACLES, f'measure:{nm}:large-n', why, timeout=120, suspect_is_inconclusive=not m.ub_found):
            if m.ub_found: confirm(res, PID, HARNESS, 'h_measure', spec, 'f64', 'measure_large', ORACLES, f'measure:{nm}:large-n', why, timeout=300, san=True)


def o_thd_aliased(spec, r, extra):
    if r['status'] != 'ok': return True, f"thd: {r['status']} {r.get('stderr', '')[-200:]}"
    return not abs(r['ret'] - extra['exp']) <= 1.0, f"thd(x, {spec[2][1]}, aliased) of a tone at {extra['f0']} cycles/sample with harmonics {extra['amps']} (folded at or above 2 fs): {r['ret']!r} dB, analytic {extra['exp']:.3f} dB"
ORACLES['thd_aliased'] = o_thd_aliased
def job_thd_aliased(res, f0, n, nharm):
    """ground: noise-free tone whose higher harmonics fold once or twice around the sampling rate (k*f0 up to and above 2 cycles/sample); thd(x, nharm, aliased=true) through the interpreted code within 1 dB of the analytic value"""
    mod, so = load(HARNESS); amps = [1.0, 0.1, 0.05, 0.08, 0.125, 0.06][:nharm]
    x = [sum(a * math.sin(2 * math.pi * (k + 1) * f0 * i + 0.37 * k) for k, a in enumerate(amps)) for i in range(n)]
    exp = 10 * math.log10(sum(a * a for a in amps[1:]) / amps[0] ** 2); spec = [('pf64', x), ('i32', n), ('i32', nharm)]; extra = {'exp': exp, 'f0': f0, 'amps': amps}
    m = Machine(mod, max_steps=400_000_000)
    try: r, outs, _ = sym_call(m, 'h_thd_aliased', spec, 'f64'); st = 'ret'
    except (UB, Budget, Throw) as e: r = float('nan'); st = f'{type(e).__name__} {str(e)[:120]}'
    res.absorb(m); ok = st == 'ret' and abs(r - exp) <= 1.0 and not m.ub_found
    sol = z3.Solver(); sol.add(z3.Not(z3.BoolVal(bool(ok))))
    if timed_check(sol, res) == z3.unsat: res.ob(True, 'ground', f'thd aliased f0={f0} n={n} nharm={nharm}: {r:.3f} dB (analytic {exp:.3f})')
    else: confirm(res, PID, HARNESS, 'h_thd_aliased', spec, 'f64', 'thd_aliased', ORACLES, 'thd:aliased:folded-twice', f'thd aliased f0={f0} n={n} nharm={nharm}: {st} got {r!r}, analytic {exp:.3f}', extra=extra, timeout=120)

JOBFNS = {'thd_aliased': job_thd_aliased, 'awgn': job_awgn, 'seed': job_seed, 'repro': job_repro, 'randi': job_randi, 'scale': job_scale, 'measure_large': job_measure_large}

def selftest(st):
    calls = [('h_seed_gen', [('i32', s_), ('i32', k), ('i32', 6), ('i32', 0xfffffffd), ('i32', 9), ('pf64', [0.0] * 6)], 'i32') for s_ in (0, 1, 12345) for k in range(7)]
    calls += [('h_awgn_r', [('i32', 7), ('pf64', [math.sin(i) for i in range(8)]), ('i32', 8), ('f64', 12.0), ('pf64', [0.0] * 8)], 'i32')]      # complex awgn is left out: complex(randn()*s, randn()*s) draws in a compiler-dependent argument order (clang IR vs g++ build)
    calls += [('h_measure', [('i32', k), ('pf64', [math.sin(2 * math.pi * 3.3 * i / 32) + 0.01 * math.sin(1.7 * i * i) for i in range(32)]), ('i32', 32), ('f64', 2.5)], 'f64') for k in range(3)]
    selftest_calls(st, HARNESS, calls, max_steps=200_000_000)

def main(tier, seed):
    q = tier == 'quick'; jobs = [('rng(seed) from a havocked engine', 'seed', {}, 900)]
    for cplx in (False, True):
        for (n, snr) in ([(3, 10.0), (4, 0.0)] if q else [(3, 10.0), (4, 0.0), (5, 30.0), (6, -6.0)]): jobs.append((f'awgn c={cplx} n={n} snr={snr}', 'awgn', dict(cplx=cplx, n=n, snr=snr, seed=11 + seed), 900))
    for s_ in ((0, 1, 1000) if q else (0, 1, 2, 17, 255, 1000, 65536)):
        for k in range(7): jobs.append((f'replay seed={s_} {GN[k]}', 'repro', dict(seed=s_, k=k, n=5, lo=-3, hi=9), 600))
    for (lo, hi) in [(1, 6), (5, 5), (-7, -2), (0, 1), (-3, 9), (0, 255)] + ([] if q else [(1, 1000), (-100, 100), (0, 2 ** 20)]): jobs.append((f'randi bounds {lo},{hi}', 'randi', dict(lo=lo, hi=hi), 900))
    for k in range(3): jobs.append((f'scale invariance {k}', 'scale', dict(k=k, n=32 if q else 64), 3000))
    for (f0, nh) in ([(0.2103, 5), (0.41007, 5)] if q else [(0.2103, 5), (0.41007, 5), (0.45013, 5), (0.3391, 6), (0.12, 6)]): jobs.append((f'thd aliased f0={f0}', 'thd_aliased', dict(f0=f0, n=2048 if q else 4096, nharm=nh), 900))
    for (k, n) in ([(1, 65536)] if q else [(1, 65536), (2, 65536), (2, 100000), (1, 131072), (2, 262144)]): jobs.insert(0, (f'measure large k={k} n={n}', 'measure_large', dict(k=k, n=n), 3000))
    return run_property(PID, tier, HARNESS, jobs, JOBFNS,
        level_text='PARTIAL. awgn: with the input symbolic the added noise is g_i * sigma for ONE sigma and sigma^2 * (#components) == mean|x|^2 * 10^(-snr/10) (polynomial identity, real and complex). '
                   'rng(seed): from a havocked engine every state word afterwards is a term over the seed alone (symbolic 32-bit seed through the real mt19937 seeding); replay of every generator after interleaved draws; '
                   'randi: raw 32-bit engine outputs symbolic, result inside its inclusive bounds on every path of the real uniform_int_distribution (3 draws). snr / sinad / thd of c*x for symbolic c in (1e-3, 1e3) on a concrete '
                   'signal: one feasible analysis path and a power ratio independent of c. Ground: sinad / thd of a constructed noise-free tone at lengths from 65536 (where length * nfft/2 reaches 2^31) through the interpreted code with overflow / bounds obligations, value within 1 dB of the analytic one.',
        assumptions=['the unit-variance normals g_i are the values randn yields for the same seed (concrete)', 'rejection loops followed for at most 3 engine draws'],
        bounds={'awgn': 'n = 3..6 samples, snr in {-6, 0, 10, 30} dB', 'seeds': '3 (quick) / 7 concrete seeds for replay; the seeding step itself for all 2^32 seeds', 'randi ranges': '6 (9) ranges incl. single value and negative', 'large lengths (ground)': 'sinad at 65536 samples (quick); sinad / thd at 65536, 100000, 131072, 262144 (thorough): one constructed tone each, interpreted with overflow / bounds obligations'},
        outside=['lengths between the small symbolic sizes and the ground lengths', 'statistical calibration of the noise (distribution shape, 6-sigma power tolerance)', 'the 0.1 dB / 1.5 dB accuracy of thd / sinad on specified tones (numeric accuracy of a concrete analysis: no quantified input left for a solver)'],
        seed=seed, selftest=selftest)

def replay(path): return replay_main(path, ORACLES)
