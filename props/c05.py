"""C05 — no call corrupts memory, executes UB or hangs: misuse ends in an exception (P-MEM on misuse-directed call programs)."""
from common import *
PID = 'C05'; HARNESS = 'C05.cpp'
H_THROW = (-1000000) & 0xffffffff
NAMES = {0: 'FftPlan(n)(x[n2])', 1: 'FftPlanR(n)(x[n2])', 2: 'IfftPlan(n)(x[n2])', 3: 'IfftPlanR(n)(X[n2])', 4: 'CztPlan(n,m)(x[n2])', 5: 'BaseFftPlanC::solve(ptr, ptr, n2) on FftPlan(n)',
         10: 'real a[n] > b[n2]', 11: 'real a[n] < b[n2]', 12: 'real a[n] == b[n2]', 13: 'real a[n] != b[n2]', 14: 'cmplx a[n] == b[n2]', 15: 'cmplx a[n] > b[n2]',
         20: 'arr_real[vector<int>]', 21: 'arr_cmplx[vector<int>]', 22: 'arr_real[arr_int]',
         30: 'FirFilter(h[n])(x[n2])', 31: 'FftFilter(h[n])(x[n2])', 32: 'Delay(n)(x[n2])', 33: 'MedianFilter(n)(x[n2])', 34: 'LmsFilter(n)(x[n2], d[n3])', 35: 'RlsFilter(n)(x[n2], d[n3])',
         36: 'FIRDecimator(n)(x[n2])', 37: 'FIRRateConverter(n,n3)(x[n2])', 38: 'FIRInterpolator(n, h[n3])(x[n2])', 39: 'HilbertFilter(n)(x[n2])',
         40: 'xcorr(a[n], b[n2])', 41: 'finddelay(a[n], b[n2])', 42: 'peakloc(x[n], idx=n2, cyclic=n3)', 43: 'welch(x[n2], winlen n)', 44: 'stft(x[n2], nfft n)', 45: 'resample(x[n2], n, n3)',
         46: 'zeropad(x[n], n2)', 47: 'delayseq(x[n], n2)', 48: 'downsample(x[n], n2, phase n3)', 49: 'upsample(x[n], n2, phase n3)', 50: 'hilbert(x[n], n2)', 51: 'fft(x[n], n2)', 52: 'irfft(X[n2], n)',
         60: '*x.slice(i1,i2,step)', 61: 'x.slice(i1,i2,step) = scalar', 62: 'x.slice(i1,i2,step) = array[n2]', 63: '*const cmplx x.slice(i1,i2,step)',
         64: 'stft(x[n2], hann(n), overlap n3, nfft n)', 65: 'istft(stft(x[n2], hann(n)), hann(n), overlap n3, n)', 66: 'iscola(hann(n), overlap n3)', 67: 'thd(power spectrum[n] peak at bin n2, nharm n3/2, aliased n3&1)',
         68: 'snr(power spectrum[n] peak at bin n2, nharm n3/2, aliased n3&1)', 69: 'sinad(power spectrum[n] peak at bin n2)', 75: 'thd(tone[2n] at n2/(2n), nharm n3/2, aliased n3&1)', 76: 'snr(tone[2n] at n2/(2n), nharm n3/2, aliased n3&1)',
         70: 'fft(cmplx x[n])', 71: 'fft(real x[n])', 72: 'rfft(x[n])', 73: 'ifft(x[n])', 74: 'irfft(X[n])',
         77: 'isprime(table[n]) (largest 32-bit primes, 65521^2, 2^32-1, products next to 2^32)', 78: 'factor(table[n])',
         53: 'fir1(n, 0.3)', 54: 'window::hann(n)', 55: 'repelem(x[n], n2)', 56: 'flip(x[n])', 57: 'medfilt(x[n], n2)', 58: 'mscohere(x[n2], y[n2], winlen n)', 59: 'linspace(a, b, n)'}

def rel(n): return sorted({0, 1, 2, 3, max(n - 1, 0), n, n + 1, 2 * n})
def programs(tier):
    q = tier == 'quick'; P = []
    for pid in (0, 2, 5):
        for n in ((8, 16, 12, 7) if q else (1, 2, 4, 8, 16, 12, 30, 7, 3, 43)):
            for n2 in rel(n): P.append((pid, n, n2, 0))
    for n in ((8, 16, 12, 7, 9) if q else (1, 2, 4, 8, 16, 12, 7, 9, 15, 43)):
        for n2 in rel(n): P.append((1, n, n2, 0))
    for n in ((8, 12, 2) if q else (2, 4, 8, 12, 16, 6, 10)):
        for n2 in rel(n) + [n // 2 + 1, n // 2]: P.append((3, n, n2, 0))
    for (n, m) in ((5, 7), (8, 3)):
        for n2 in rel(n): P.append((4, n, n2, m))
    for pid in (10, 11, 12, 13, 14, 15):
        for (n, n2) in [(0, 0), (0, 1), (1, 0), (3, 2), (2, 3), (3, 4), (3, 64), (64, 3), (70, 130), (130, 70)]: P.append((pid, n, n2, 0))
    for pid in (30, 31):
        for n in (1, 2, 3, 5):
            for n2 in (0, 1, 2, n, 2 * n + 1): P.append((pid, n, n2, 0))
    for n in (0, 1, 3):
        for n2 in (0, 1, 2, 5): P.append((32, n, n2, 0))
    for n in (1, 2, 3, 4):
        for n2 in (0, 1, 5): P.append((33, n, n2, 0))
    for pid in (34, 35):
        for n in (1, 2, 3):
            for (n2, n3) in [(0, 0), (1, 1), (3, 3), (3, 2), (2, 3), (0, 2)]: P.append((pid, n, n2, n3))
    for n in (1, 2, 3):
        for n2 in (0, 1, n, n + 1, 2 * n, 2 * n + 1): P.append((36, n, n2, 0))
    for (n, n3) in ((2, 3), (3, 2), (1, 2)):
        for n2 in (0, 1, n3, n3 + 1, 2 * n3): P.append((37, n, n2, n3))
    for (n, n3) in ((2, 5), (3, 1), (3, 0)):
        for n2 in (0, 1, 3): P.append((38, n, n2, n3))
    for n in (3, 4, 7, 8):
        for n2 in (0, 1, 5): P.append((39, n, n2, 0))
    for pid in (40, 41):
        for (n, n2) in [(0, 0), (0, 1), (1, 0), (1, 1), (1, 2), (3, 2), (2, 5)]: P.append((pid, n, n2, 0))
    for n in (1, 2, 3, 5):
        for n2 in sorted({-1, 0, 1, n - 1, n, n + 1}):
            for cyc in (0, 1): P.append((42, n, n2, cyc))
    for n in (1, 2, 4, 8):
        for n2 in (0, 1, n - 1, n, n + 1, 3 * n): P.append((43, n, n2, 0)); P.append((44, n, n2, 0))
    for (p, q_) in ((1, 1), (2, 1), (1, 2), (3, 2), (5, 2), (2, 3)):
        for n2 in (0, 1, 2, 3, 7): P.append((45, p, n2, q_))
    for n in (0, 1, 3):
        for n2 in (0, 1, 2, 3, 5): P.append((46, n, n2, 0))
    for n in (1, 3):
        for n2 in (-5, -3, -1, 0, 1, 3, 5): P.append((47, n, n2, 0))
    for pid in (48, 49):
        for n in (1, 4):
            for (n2, n3) in [(1, 0), (2, 0), (2, 1), (2, 2), (3, 5), (5, 0), (5, 4)]: P.append((pid, n, n2, n3))
    for n in (1, 2, 3, 4, 5):
        for n2 in (1, 2, 3, n, n + 3): P.append((50, n, n2, 0))
    for n in (1, 3, 4):
        for n2 in (1, 2, 3, 4, 6, 8): P.append((51, n, n2, 0))
    for n in (2, 4, 6, 1, 3):
        for n2 in (0, 1, n // 2 + 1, n, n + 1): P.append((52, n, n2, 0))
    for n in (1, 2, 3, 4, 9): P.append((53, n, 0, 0))
    for n in (1, 2, 3, 4): P.append((54, n, 0, 0)); P.append((56, n, 0, 0)); P.append((59, n, 0, 0))
    for (n, n2) in [(1, 1), (3, 1), (3, 2), (2, 5), (0, 2)]: P.append((55, n, n2, 0))
    for (n, n2) in [(1, 3), (3, 3), (5, 3), (5, 4), (2, 5)]: P.append((57, n, n2, 0))
    for (n, n2) in [(4, 8), (4, 4), (4, 3), (8, 20), (2, 5)]: P.append((58, n, n2, 0))
    for n in (4, 8):
        for n3 in sorted({0, 1, n // 2, n - 1, n, n + 1, 2 * n}):
            for n2 in (n, 3 * n): P.append((64, n, n2, n3)); P.append((65, n, n2, n3))
            P.append((66, n, 0, n3))
    for n in ((8, 9) if q else (4, 5, 8, 9, 16)):
        for n2 in range(n):
            for n3 in (2, 4, 5, 12, 13): P.append((67, n, n2, n3)); P.append((68, n, n2, n3))
            P.append((69, n, n2, 0))
    for n in ((8,) if q else (8, 12)):
        for n2 in range(1, n + 1):
            for n3 in (4, 5, 12, 13): P.append((75, n, n2, n3)); P.append((76, n, n2, n3))
    for pid in (77, 78):      # (nextprime / primes enumerate every prime up to n by design: minutes at the top of the range, not a hang - not driven there)
        for n in range(8): P.append((pid, n, 0, 0))
    for pid in (70, 71, 72, 73, 74):
        for n in (0, 1, 2, 3): P.append((pid, n, 0, 0))
    return P

def o_ub(spec, r, extra):
    if r['status'] == 'crash':
        ls = [l for l in r['stderr'].split('\n') if 'runtime error' in l or 'ERROR: AddressSanitizer' in l or l.startswith('SUMMARY') or 'Assertion' in l]
        if ls: return True, ' | '.join(ls[:2])[:400]
        return True, 'crash: ' + r['stderr'][-200:]
    if r['status'] == 'timeout': return True, 'does not terminate (watchdog)'
    return False, f"sanitizer build ran clean ({r['status']}, ret {r.get('ret')})"
ORACLES = {'ub': o_ub}

XPOOL = 400
def site_key(text):
    import re
    m = re.search(r'at (@[\w$.]+)', text)
    return (m.group(1)[1:60] if m else 'unknown')

def job_progs(res, progs):
    mod, so = load(HARNESS)
    xv = [0.25 + 0.37 * math.sin(1.7 * i) for i in range(XPOOL)]
    for (pid, n, n2, n3) in progs:
        label = f'{NAMES[pid]} with n={n} n2={n2} n3={n3}'
        spec = [('i32', pid), ('i32', n & 0xffffffff), ('i32', n2 & 0xffffffff), ('i32', n3 & 0xffffffff), ('pf64', xv), ('pi32', [0]), ('i32', 0), ('pf64', [0.0] * XPOOL)]
        m = Machine(mod, max_steps=100_000_000)
        try: r, outs, _ = sym_call(m, 'h_prog', spec, 'i32'); st = 'ret'; err = ''
        except Throw: st = 'throw'; err = ''
        except UB as e: st = 'ub'; err = str(e)
        except Budget as e: st = 'budget'; err = str(e)
        res.absorb(m)
        if st in ('ret', 'throw') and not m.ub_found:
            res.ob(True, 'P-MEM', f'{label}: ends by {"returning" if st == "ret" else "throwing"}; every load/store in bounds of a live block, no overflow / shift / division / assume violation'); continue
        what = err if st == 'ub' else (f'{m.ub_found[0][0]}: {m.ub_found[0][1]} at {m.ub_found[0][3]}' if m.ub_found else err)
        key = f'ub:{NAMES[pid].split("(")[0].strip()}:{site_key(what)}'
        if st == 'budget':
            confirm(res, PID, HARNESS, 'h_prog', spec, 'i32', 'ub', ORACLES, f'hang:{NAMES[pid]}', f'{label}: step budget exhausted ({err[:160]})', timeout=30); continue
        mode = 'assert' if what.startswith('assume') else True     # a violated DSPLIB_ASSUME is confirmed by the assert() it carries in a non-NDEBUG build
        confirm(res, PID, HARNESS, 'h_prog', spec, 'i32', 'ub', ORACLES, key, f'{label}: undefined behaviour: {what[:400]}', san=mode, timeout=120)

def job_index(res, pid, n, ni, n2=0):
    """index lists / slice triples with fully symbolic 32-bit entries (and the empty list)"""
    mod, so = load(HARNESS); xv = [0.25 + 0.37 * math.sin(1.7 * i) for i in range(XPOOL)]
    label = f'{NAMES[pid]} on n={n} with {ni} symbolic integer arguments'
    def setup(m):
        idx = [bvsym(f'k{j}', 32) for j in range(ni)]
        return [pid, n, n2, 0, m.alloc_doubles(xv, 'x'), m.alloc_ints(idx if ni else [0], 32, 'idx'), ni, m.alloc_doubles([0.0] * XPOOL, 'y')], idx
    done = set()
    for p in explore(mod, '@h_prog', setup, max_paths=400, max_steps=20_000_000):
        if p.out == 'pathbudget': res.inc(f'{label}: path budget'); break
        if p.out in ('unsupported', 'budget'): res.inc(f'{label}: {p.out} {p.err[:200]}'); continue
        res.absorb(p.m)
        ubs = [(k, msg, mdl, wh) for (k, msg, mdl, wh) in p.m.ub_found]
        if p.out == 'ub':
            rr, mdl = p.m.check_model(z3.BoolVal(True)); ubs.append(('ub', p.err, mdl, p.err))
        if not ubs:
            res.ob(True, 'BV+P-MEM', f'{label}: path ({p.out}, |pc|={len(p.m.pc)}): for every index value on the path all accesses stay inside the array'); continue
        for (k, msg, mdl, wh) in ubs:
            key = f'ub:{"slice" if pid >= 60 else "index-list"}:{"empty" if ni == 0 else "entries"}:{site_key(str(wh))}'
            if key in done: continue
            done.add(key)
            iv = [model_int(mdl, f'k{j}') for j in range(ni)]
            confirm(res, PID, HARNESS, 'h_prog', [('i32', pid), ('i32', n), ('i32', n2), ('i32', 0), ('pf64', xv), ('pi32', iv if ni else [0]), ('i32', ni), ('pf64', [0.0] * XPOOL)], 'i32', 'ub', ORACLES, key,
                    f'{label}: undefined behaviour for index list {[sgn(v, 32) for v in iv]}: {str(msg)[:300]}', san=True, timeout=120, suspect_is_inconclusive=False)

def job_pow2(res):
    """nextpow2 / ispow2 over ALL 32-bit ints (the value is C15's business; here: no UB)"""
    mod, so = load(HARNESS)
    for fn in ('h_nextpow2', 'h_ispow2'):
        def setup(m): v = bvsym('m', 32); return [v], v
        for p in explore(mod, '@' + fn, setup, max_paths=300):
            if p.out not in ('ret', 'throw', 'ub'): res.inc(f'{fn}: {p.out} {p.err}'); continue
            res.absorb(p.m)
            if p.out != 'ub' and not p.m.ub_found: res.ob(True, 'BV', f'{fn}: path |pc|={len(p.m.pc)} free of shift / overflow UB for every int on the path'); continue
            mdl = p.m.ub_found[0][2] if p.m.ub_found else p.m.check_model(z3.BoolVal(True))[1]
            confirm(res, PID, HARNESS, fn, [('i32', model_int(mdl, 'm'))], 'i32', 'ub', ORACLES, f'ub:{fn}', f'{fn}: undefined behaviour for m={sgn(model_int(mdl, "m"), 32)}: {(p.m.ub_found[0][1] if p.m.ub_found else p.err)[:200]}', san=True,
                    suspect_is_inconclusive=False)

JOBFNS = {'progs': job_progs, 'index': job_index, 'pow2': job_pow2}

def selftest(st):
    xv = [0.25 + 0.37 * math.sin(1.7 * i) for i in range(XPOOL)]
    calls = []
    for (pid, n, n2, n3) in [(0, 12, 12, 0), (1, 9, 9, 0), (3, 8, 5, 0), (4, 5, 5, 7), (12, 3, 3, 0), (30, 3, 5, 0), (31, 2, 7, 0), (33, 3, 5, 0), (40, 3, 2, 0), (42, 5, 2, 1), (43, 8, 24, 0), (45, 3, 7, 2), (47, 3, -1, 0), (50, 5, 8, 0), (53, 9, 0, 0), (57, 5, 3, 0), (58, 4, 8, 0)]:
        calls.append(('h_prog', [('i32', pid), ('i32', n & 0xffffffff), ('i32', n2 & 0xffffffff), ('i32', n3), ('pf64', xv), ('pi32', [2, 0, 1]), ('i32', 3), ('pf64', [0.0] * XPOOL)], 'i32'))
    selftest_calls(st, HARNESS, calls)

def main(tier, seed):
    P = programs(tier); jobs = []
    chunk = 12
    for i in range(0, len(P), chunk): jobs.append((f'programs {i}..', 'progs', dict(progs=P[i:i + chunk]), 1800))
    for pid in (20, 21, 22):
        for (n, ni) in ([(3, 0), (3, 1), (3, 2), (1, 3)] if tier == 'quick' else [(3, 0), (3, 1), (3, 2), (1, 3), (5, 3), (2, 4)]):
            jobs.append((f'{NAMES[pid]} n={n} ni={ni}', 'index', dict(pid=pid, n=n, ni=ni), 1500))
    for pid in (60, 61, 62, 63):
        for n in ((1, 3) if tier == 'quick' else (1, 2, 3, 4)):
            jobs.append((f'{NAMES[pid]} n={n}', 'index', dict(pid=pid, n=n, ni=3, n2=2 if pid == 62 else 0), 1500))
    jobs.append(('pow2 helpers', 'pow2', {}, 600))
    return run_property(PID, tier, HARNESS, jobs, JOBFNS,
        level_text='Every public entry point in the program table is executed by the symbolic interpreter with every memory / arithmetic obligation switched on (bounds of live blocks, use-after-free, '
                   'nsw/nuw overflow, shift width, division, fptosi range, llvm.assume = DSPLIB_ASSUME in the shipped NDEBUG build, unreachable, step budget) at the boundary relations of the '
                   'quantifier: plan size vs input length in {0,1,2,3,n-1,n,n+1,2n}, unequal array lengths, empty / one-sample frames, degenerate orders; index lists have fully symbolic 32-bit entries '
                   '(z3 decides for every value whether an access can leave the array). Findings are confirmed under an ASan+UBSan build before being reported.',
        assumptions=['lengths and sizes enumerated at the listed boundary values (not symbolic); sample values concrete in the program table (only ints / indices symbolic)', 'allocation never fails',
                     'pointer-formation-only UB that no sanitizer confirms is not reported'],
        bounds={'programs': f'{len(P)} (entry point, size tuple) pairs over {len(NAMES)} entry points', 'index lists': 'lengths 0..3 (4), all 2^32 values per entry'},
        outside=['from_file / stream output / allocation failure', 'entry points not in the program table (listed in DESIGN.md)'], seed=seed, selftest=selftest)

def replay(path): return replay_main(path, ORACLES)
