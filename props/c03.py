"""C03 — element-wise arithmetic, promotion, value semantics, concatenation and selection (P-EQ / P-POLY / P-MEM)."""
from common import *
PID = 'C03'; HARNESS = 'C03.cpp'
H_THROW = (-1000000) & 0xffffffff
OPS = ['+', '-', '*', '/']
# form -> (A type, B kind, scalar side, compound, result type)   B kind: aR aC (arrays) sR sI sC sZ (scalars: real, int, cmplx_t, std::complex) n (unary) self / self0 (aliasing)
FORMS = {0: ('R', 'aR', 'r', 0, 'R'), 1: ('R', 'aC', 'r', 0, 'C'), 2: ('C', 'aR', 'r', 0, 'C'), 3: ('C', 'aC', 'r', 0, 'C'),
         4: ('R', 'sR', 'r', 0, 'R'), 5: ('R', 'sI', 'r', 0, 'R'), 6: ('R', 'sC', 'r', 0, 'C'),
         8: ('C', 'sR', 'r', 0, 'C'), 9: ('C', 'sI', 'r', 0, 'C'), 10: ('C', 'sC', 'r', 0, 'C'), 11: ('C', 'sZ', 'r', 0, 'C'),
         12: ('R', 'sR', 'l', 0, 'R'), 13: ('R', 'sI', 'l', 0, 'R'), 14: ('R', 'sC', 'l', 0, 'C'),
         16: ('C', 'sR', 'l', 0, 'C'), 17: ('C', 'sI', 'l', 0, 'C'), 18: ('C', 'sC', 'l', 0, 'C'),
         20: ('R', 'aR', 'r', 1, 'R'), 21: ('C', 'aR', 'r', 1, 'C'), 22: ('C', 'aC', 'r', 1, 'C'),
         23: ('R', 'sR', 'r', 1, 'R'), 24: ('R', 'sI', 'r', 1, 'R'), 25: ('C', 'sR', 'r', 1, 'C'), 26: ('C', 'sI', 'r', 1, 'C'), 27: ('C', 'sC', 'r', 1, 'C'), 28: ('C', 'sZ', 'r', 1, 'C'),
         29: ('R', 'n', 'r', 0, 'R'), 30: ('C', 'n', 'r', 0, 'C'), 31: ('R', 'p', 'r', 0, 'R'),
         32: ('R', 'self', 'r', 1, 'R'), 33: ('C', 'self', 'r', 1, 'C'), 34: ('R', 'self0', 'r', 1, 'R'), 35: ('C', 'self0', 'r', 1, 'C')}

# ---------------------------------------------------------------- reference arithmetic (python complex on exact Fractions for the oracle; z3 reals for the solver)
def c_op(op, a, b, div=lambda x, y: x / y):
    ar, ai = a; br, bi = b
    if op == 0: return (ar + br, ai + bi)
    if op == 1: return (ar - br, ai - bi)
    if isinstance(bi, int) and bi == 0:      # real right operand: component-wise scaling
        return (ar * br, ai * br) if op == 2 else (div(ar, br), div(ai, br))
    if op == 2: return (ar * br - ai * bi, ar * bi + ai * br)
    d = br * br + bi * bi
    return (div(ar * br + ai * bi, d), div(ai * br - ar * bi, d))

def operands(form, na, nb, A, B, s):
    """-> list of (a_i, b_i) operand pairs as (re, im) tuples, given element accessors"""
    ta, kb, side, comp, tr = FORMS[form]
    def elA(i): return (A[i], 0) if ta == 'R' else (A[2 * i], A[2 * i + 1])
    out = []
    for i in range(na):
        a = elA(i)
        if kb == 'aR': b = (B[i], 0)
        elif kb == 'aC': b = (B[2 * i], B[2 * i + 1])
        elif kb == 'sR': b = (s['re'], 0)
        elif kb == 'sI': b = (s['int'], 0)
        elif kb in ('sC', 'sZ'): b = (s['re'], s['im'])
        elif kb == 'self': b = a
        elif kb == 'self0': b = elA(0)
        else: b = None
        out.append((b, a) if side == 'l' else (a, b))
    return out

# ---------------------------------------------------------------- oracle
def o_arith(spec, r, extra):
    form = spec[0][1]; op = spec[1][1]; A = spec[2][1]; na = spec[3][1]; B = spec[4][1]; nb = spec[5][1]
    ta, kb, side, comp, tr = FORMS[form]; wa = 1 if ta == 'R' else 2; wr = 1 if tr == 'R' else 2
    desc = f"form {form} ({ta} {OPS[op]}{'=' if comp else ''} {kb}{' scalar-left' if side == 'l' else ''}) na={na} nb={nb}"
    if r['status'] != 'ok': return True, f"{desc}: {r['status']} {r.get('stderr', '')[-300:]}"
    out, ao, bo = r['outs'][2], r['outs'][3], r['outs'][4]
    mism = kb in ('aR', 'aC') and na != nb
    if mism:
        if r['ret'] != H_THROW: return True, f"{desc}: operands of different length must be rejected with an exception, returned {sgn(r['ret'], 32)}"
        wb = 1 if kb == 'aR' else 2
        if any(not same_bits(x, y) for x, y in zip(ao[:na * wa], A)) or any(not same_bits(x, y) for x, y in zip(bo[:nb * wb], B)):
            return True, f"{desc}: operands modified although the operation was rejected: a={ao[:na * wa]} (was {A[:na * wa]}) b={bo[:nb * wb]} (was {B[:nb * wb]})"
        return False, 'rejected, operands unchanged'
    if r['ret'] == H_THROW: return True, f"{desc}: threw on valid operands"
    if r['ret'] != na: return True, f"{desc}: result length {sgn(r['ret'], 32)}"
    s = {'re': Fraction(spec[6][1]), 'im': Fraction(spec[7][1]), 'int': Fraction(sgn(spec[8][1], 32))}
    FA = [Fraction(v) for v in A]; FB = [Fraction(v) for v in B]
    for i, (a, b) in enumerate(operands(form, na, nb, FA, FB, s)):
        if kb in ('n', 'p'): exp = (-a[0], -a[1]) if kb == 'n' else a
        else:
            if op == 3 and b[0] * b[0] + b[1] * b[1] == 0: continue
            exp = c_op(op, a, b)
        got = (out[wr * i], out[wr * i + 1] if wr == 2 else 0.0)
        scale = max(abs(float(exp[0])), abs(float(exp[1])), abs(float(a[0])) * abs(float(b[0])) if b else 0, 1e-300)
        for c in range(wr):
            if not (abs(Fraction(got[c]) - exp[c]) <= Fraction(16 * 2.0 ** -52) * Fraction(scale)):
                return True, f"{desc}: element {i} = {got}, field formula gives ({float(exp[0])!r}, {float(exp[1])!r})"
    if not comp and kb not in ('self', 'self0'):
        if any(not same_bits(x, y) for x, y in zip(ao[:na * wa], A)): return True, f"{desc}: left operand modified by a non-compound operator: {ao[:na * wa]} (was {A[:na * wa]})"
        if kb in ('aR', 'aC') and any(not same_bits(x, y) for x, y in zip(bo, B)): return True, f"{desc}: right operand modified: {bo} (was {B})"
    return False, 'ok'
def o_exact(spec, r, extra):
    """generic exact-output oracle: extra['expect'] = {'ret':..., 'outs': {index: [values]}}"""
    if r['status'] != 'ok': return True, f"{extra['desc']}: {r['status']} {r.get('stderr', '')[-300:]}"
    e = extra['expect']
    if e.get('ret') is not None and r['ret'] != (e['ret'] & 0xffffffff): return True, f"{extra['desc']}: returned {sgn(r['ret'], 32)}, expected {e['ret']}"
    for k, vals in e.get('outs', {}).items():
        got = r['outs'][int(k)][:len(vals)]
        if any(not same_bits(a, float.fromhex(b) if isinstance(b, str) else b) for a, b in zip(got, vals)): return True, f"{extra['desc']}: output {k} = {got}, expected {vals}"
    return False, 'ok'
ORACLES = {'arith': o_arith, 'exact': o_exact}

# ---------------------------------------------------------------- jobs
def job_arith(res, form, op, na, nb):
    mod, so = load(HARNESS)
    ta, kb, side, comp, tr = FORMS[form]; wa = 1 if ta == 'R' else 2; wb = 2 if kb == 'aC' else 1; wr = 1 if tr == 'R' else 2
    An = [f'a{i}' for i in range(na * wa)]; Bn = [f'b{i}' for i in range(nb * wb)] if kb in ('aR', 'aC') else []
    desc = f"form {form} ({ta} {OPS[op]}{'=' if comp else ''} {kb}{' scalar-left' if side == 'l' else ''}) na={na} nb={nb}"
    m = Machine(mod)
    sint = bvsym('sint', 32)
    A = [fsym(x) for x in An]; B = [fsym(x) for x in Bn]
    spec = [('i32', form), ('i32', op), ('pf64', A), ('i32', na), ('pf64', B), ('i32', nb), ('f64', fsym('sre')), ('f64', fsym('sim')), ('i32', sint),
            ('pf64', [0.0] * (2 * max(na, 1))), ('pf64', [0.0] * (2 * max(na, 1))), ('pf64', [0.0] * (2 * max(nb, 1)))]
    def mk(mdl):
        f = lambda n_, d: model_float(mdl, n_, d)
        return [('i32', form), ('i32', op), ('pf64', [f(x, 1.5 + i) for i, x in enumerate(An)]), ('i32', na), ('pf64', [f(x, 2.25 + i) for i, x in enumerate(Bn)]), ('i32', nb),
                ('f64', f('sre', 1.75)), ('f64', f('sim', -0.5)), ('i32', model_int(mdl, 'sint', default=3)),
                ('pf64', [0.0] * (2 * max(na, 1))), ('pf64', [0.0] * (2 * max(na, 1))), ('pf64', [0.0] * (2 * max(nb, 1)))]
    mism = kb in ('aR', 'aC') and na != nb
    try:
        r, outs, ptrs = sym_call(m, 'h_arith', spec, 'i32'); st = 'ret'
    except Throw: st = 'throw'
    except UB as e: st = 'ub'; err = str(e)
    res.absorb(m)
    key = f'arith:{ta}{OPS[op]}{"=" if comp else ""}{kb}{"L" if side == "l" else ""}'
    if st == 'ub':
        confirm(res, PID, HARNESS, 'h_arith', mk({}), 'i32', 'arith', ORACLES, key + ':ub', f'{desc}: undefined behaviour: {err[:200]}'); return
    if mism:
        if st != 'throw':
            confirm(res, PID, HARNESS, 'h_arith', mk({}), 'i32', 'arith', ORACLES, key + ':mismatch', f'{desc}: mismatched lengths accepted'); return
        # operands unchanged at the throw point: the first-allocated live heap block holding a0 must still hold a0..a(k-1) in order (same for b)
        ok = True
        for names in (An, Bn):
            if not names: continue
            blocks = [b for bid, b in sorted(m.blocks.items()) if b.alive and b.kind == 'heap' and any(isF(c[1]) and c[1].op == 'sym' and c[1].args[0] == names[0] for c in b.cells.values())]
            good = [b for b in blocks if all(b.cells.get(8 * j, (0, None))[1] is fsym(nm) for j, nm in enumerate(names))]
            if not good: ok = False
        if ok and not m.ub_found: res.ob(True, 'PATH+UF', f'{desc}: rejected by an exception; operand storage bit-unchanged at the throw point')
        else: confirm(res, PID, HARNESS, 'h_arith', mk({}), 'i32', 'arith', ORACLES, key + ':mismatch-modified', f'{desc}: operand modified before the rejection (or UB {m.ub_found[:1]})')
        return
    if st == 'throw':
        confirm(res, PID, HARNESS, 'h_arith', mk({}), 'i32', 'arith', ORACLES, key + ':throw', f'{desc}: threw on valid operands'); return
    def decide(m, r, outs, pcs, tag):
        if r != na:
            confirm(res, PID, HARNESS, 'h_arith', mk({}), 'i32', 'arith', ORACLES, key + ':length', f'{desc}: result length {r}'); return False
        out, ao, bo = outs[2], outs[3], outs[4]
        low = Lower('REAL', abstract_int=True); L = lambda v: low(v) if isF(v) else z3.RealVal(Fraction(v))
        Z = {x: z3.Real(x) for x in An + Bn + ['sre', 'sim']}
        s = {'re': Z['sre'], 'im': Z['sim'], 'int': z3.Real(f'itofp_{sint.e.get_id()}')}
        sol = z3.Solver(); sol.set('timeout', 60000); sol.add(*pcs)
        pairs = operands(form, na, nb, [Z[x] for x in An], [Z[x] for x in Bn], s)
        for i, (a, b) in enumerate(pairs):
            if kb in ('n', 'p'): exp = (-a[0], -a[1]) if kb == 'n' else a; pre = []
            else:
                exp = c_op(op, a, b); pre = [b[0] * b[0] + b[1] * b[1] != 0] if op == 3 else []
            for c in range(wr):
                sol.push(); sol.add(*pre); sol.add(L(out[wr * i + c]) != exp[c]); t0 = time.time(); rr = sol.check(); res.solver_s += time.time() - t0; res.queries += 1
                if rr == z3.unsat: res.ob(True, 'NRA', f'{desc}{tag}: forall operands. result[{i}].{"re" if c == 0 else "im"} == field formula')
                elif rr == z3.sat:
                    mdl = model_dict(sol); sol.pop()
                    confirm(res, PID, HARNESS, 'h_arith', mk(mdl), 'i32', 'arith', ORACLES, key + ':value', f'{desc}: element {i} differs from the field formula'); return False
                else: res.inc(f'{desc}: query unknown')
                sol.pop()
        # value semantics: non-compound operators leave operand storage bit-identical (UF: same DAG node)
        if not comp and kb not in ('self', 'self0'):
            same = all(x is y for x, y in zip(ao[:na * wa], A)) and (kb not in ('aR', 'aC') or all(x is y for x, y in zip(bo[:nb * wb], B)))
            if same: res.ob(True, 'UF', f'{desc}: operands bit-unchanged after the operation')
            else: confirm(res, PID, HARNESS, 'h_arith', mk({}), 'i32', 'arith', ORACLES, key + ':operand-modified', f'{desc}: an operand of a non-compound operator was modified')
        return True
    if m.pending or m.taken:
        # the code branches on operand values (e.g. a fast path for axis-aligned divisors): every feasible path is decided under its own path condition
        def setup(mm):
            args = []; ptrs = []
            for k, v in spec:
                if k == 'pf64': q_ = mm.alloc_doubles(v, 'arg'); args.append(q_); ptrs.append((k, q_, len(v)))
                else: args.append(v)
            return args, ptrs
        npth = 0
        for p in explore(mod, '@h_arith', setup, max_paths=48):
            npth += 1
            if p.out == 'pathbudget': res.inc(f'{desc}: more than 48 data-dependent paths'); break
            mdl = {}
            if p.m is not None:
                res.absorb(p.m)
                try: mdl = p.m.check_model(z3.BoolVal(True))[1] or {}
                except Exception: mdl = {}
            if p.out != 'ret':
                if not confirm(res, PID, HARNESS, 'h_arith', mk(mdl), 'i32', 'arith', ORACLES, key + ':path', f'{desc}: on a data-dependent path the call ends with {p.out} {str(p.err)[:120]}', suspect_is_inconclusive=False):
                    res.inc(f'{desc}: data-dependent path ends with {p.out}')
                continue
            if not decide(p.m, p.ret, read_outs(p.m, p.ctx), list(p.m.pc), f' [data-dependent path {npth}, |pc|={len(p.m.pc)}]'): return
        return
    decide(m, r, outs, [], '')

def expect_job(res, fn, spec_sym, ret_exp, out_exp, desc, key, mk_conc, theory='UF'):
    """run fn symbolically over all paths; each path: ret == ret_exp(path) and outputs identical (same DAG nodes) to out_exp(path). Violations replay with the exact oracle."""
    mod, so = load(HARNESS)
    for p in explore(mod, '@' + fn, lambda m: spec_sym(m), max_paths=400):
        if p.out not in ('ret', 'throw', 'ub'): res.inc(f'{desc}: path {p.out}: {p.err}'); continue
        res.absorb(p.m)
        yield p

def job_copy(res, n, cplx):
    mod, so = load(HARNESS); w = 2 if cplx else 1; fn = 'h_copy_indep_c' if cplx else 'h_copy_indep'
    for idx in range(n):
        m = Machine(mod); A = [fsym(f'a{i}') for i in range(n * w)]; v = fsym('v')
        spec = [('pf64', A), ('i32', n), ('i32', idx), ('f64', v), ('pf64', [0.0] * n * w), ('pf64', [0.0] * n * w)]
        r, outs, _ = sym_call(m, fn, spec, 'i32'); res.absorb(m)
        orig, cp = outs[1], outs[2]
        if cplx: ok = all((cp[i] is A[i]) for i in range(n * w)) and all((orig[i] is A[i]) for i in range(n * w) if i // 2 != idx) and orig[2 * idx] is v
        else: ok = all((orig[i] is A[i]) for i in range(n)) and all((cp[i] is A[i]) for i in range(n) if i != idx) and cp[idx] is v and r == n
        if ok: res.ob(True, 'UF', f'copy independence n={n} idx={idx} {"cmplx" if cplx else "real"}: writing through one array leaves the other bit-unchanged')
        else:
            Av = [1.0 + i for i in range(n * w)]
            exp = {'ret': n, 'outs': {'1': ([Av[i] if i // 2 != idx else (7.5 if i % 2 == 0 else -7.5) for i in range(n * w)] if cplx else Av), '2': (Av if cplx else [7.5 if i == idx else Av[i] for i in range(n)])}}
            confirm(res, PID, HARNESS, fn, [('pf64', Av), ('i32', n), ('i32', idx), ('f64', 7.5), ('pf64', [0.0] * n * w), ('pf64', [0.0] * n * w)], 'i32', 'exact', ORACLES,
                    'copy:independence', f'copy of an array is not independent of its source (n={n}, idx={idx})', extra={'expect': exp, 'desc': 'copy independence'})

def job_concat(res, kind, na, nb):
    mod, so = load(HARNESS); m = Machine(mod)
    A = [fsym(f'a{i}') for i in range(na)]; B = [fsym(f'b{i}') for i in range(nb)]
    if kind == 4 and nb % 2: return
    exp = {0: A + B, 1: A + B, 2: A + A, 3: A + B + A, 5: A + B}.get(kind)
    if kind == 4: exp = [v for a in A for v in (a, 0.0)] + B
    spec = [('i32', kind), ('pf64', A), ('i32', na), ('pf64', B), ('i32', nb), ('pf64', [0.0] * max(len(exp), 1))]
    desc = f'concatenation kind={kind} na={na} nb={nb}'
    Av = [1.0 + i for i in range(na)]; Bv = [10.0 + i for i in range(nb)]
    expv = {0: Av + Bv, 1: Av + Bv, 2: Av + Av, 3: Av + Bv + Av, 5: Av + Bv}.get(kind)
    if kind == 4: expv = [v for a in Av for v in (a, 0.0)] + Bv
    nexp = len(exp) if kind != 4 else len(exp) // 2
    def cex(why): confirm(res, PID, HARNESS, 'h_concat', [('i32', kind), ('pf64', Av), ('i32', na), ('pf64', Bv), ('i32', nb), ('pf64', [0.0] * max(len(exp), 1))], 'i32', 'exact', ORACLES,
                          f'concat:kind{kind}', why, extra={'expect': {'ret': nexp, 'outs': {'2': expv}}, 'desc': desc})
    try: r, outs, _ = sym_call(m, 'h_concat', spec, 'i32')
    except Throw: res.absorb(m); cex(f'{desc}: threw'); return
    except UB as e: res.absorb(m); cex(f'{desc}: UB {str(e)[:200]}'); return
    res.absorb(m)
    got = outs[2][:len(exp)]
    same = r == nexp and all((g is e) or (not isF(g) and not isF(e) and same_bits(g, e)) for g, e in zip(got, exp))
    if same: res.ob(True, 'UF', f'{desc}: result is exactly the designated elements in order')
    else: cex(f'{desc}: result is not the designated elements in order')

def job_mask(res, n):
    mod, so = load(HARNESS)
    def setup(m):
        A = [fsym(f'a{i}') for i in range(n)]; bits = [bvsym(f'm{i}', 32) for i in range(n)]
        spec = [m.alloc_doubles(A, 'a'), n, m.alloc_ints(bits, 32, 'mask'), n, m.alloc_doubles([0.0] * max(n, 1), 'out')]
        return spec, (A, bits, spec[-1])
    for p in explore(mod, '@h_mask', setup, max_paths=300):
        if p.out != 'ret': res.inc(f'mask n={n}: path {p.out} {p.err}'); continue
        res.absorb(p.m); A, bits, outp = p.ctx
        cnt = p.ret
        if not isinstance(cnt, int): res.inc('mask: symbolic count'); continue
        got = p.m.read_doubles(outp, cnt)
        # on this path the selected subsequence is fixed: find it from node identity, then let the solver confirm it is the one the mask designates
        pos = []
        for g in got:
            k = [i for i in range(n) if g is A[i]]
            pos.append(k[0] if k else None)
        sol = z3.Solver(); sol.add(*p.m.pc)
        ok_struct = None not in pos and pos == sorted(set(pos))
        claim = z3.And(*[(bits[i].e != 0) == z3.BoolVal(i in pos) for i in range(n)]) if ok_struct else z3.BoolVal(False)
        sol.add(z3.Not(claim)); c = timed_check(sol, res)
        if c == z3.unsat: res.ob(True, 'BV+UF', f'mask selection n={n} path selecting {pos}: exactly the elements whose mask bit is set, in order')
        else:
            mdl = model_dict(sol) if c == z3.sat else {}
            mv = [1 if model_int(mdl, f'm{i}') != 0 else 0 for i in range(n)]; Av = [1.0 + i for i in range(n)]
            confirm(res, PID, HARNESS, 'h_mask', [('pf64', Av), ('i32', n), ('pi32', mv), ('i32', n), ('pf64', [0.0] * max(n, 1))], 'i32', 'exact', ORACLES, 'mask:selection',
                    f'boolean-mask selection n={n} mask={mv} wrong', extra={'expect': {'ret': sum(mv), 'outs': {'2': [a for a, b in zip(Av, mv) if b]}}, 'desc': f'mask selection {mv}'})
    # mask of a different length must throw
    m = Machine(mod)
    try:
        sym_call(m, 'h_mask', [('pf64', [1.0] * n), ('i32', n), ('pi32', [1] * (n + 1)), ('i32', n + 1), ('pf64', [0.0] * (n + 1))], 'i32')
        confirm(res, PID, HARNESS, 'h_mask', [('pf64', [1.0] * n), ('i32', n), ('pi32', [1] * (n + 1)), ('i32', n + 1), ('pf64', [0.0] * (n + 1))], 'i32', 'exact', ORACLES, 'mask:length',
                'mask of a different length accepted', extra={'expect': {'ret': -1000000}, 'desc': 'mask length mismatch'})
    except Throw: res.ob(True, 'PATH', f'mask of length n+1 on array of length {n} is rejected')
    except UB as e: res.inc(f'mask length mismatch: UB {e}')
    res.absorb(m)

def job_index(res, n, ni, cplx=False, asarr=0):
    """index-list selection with symbolic in-range indices (out-of-range entries belong to C05)"""
    mod, so = load(HARNESS); w = 2 if cplx else 1; fn = 'h_index_c' if cplx else 'h_index'
    m = Machine(mod); A = [fsym(f'a{i}') for i in range(n * w)]; idx = [bvsym(f'k{j}', 32) for j in range(ni)]
    for k in idx: m.assume(z3.And(k.e >= 0, k.e < n))
    spec = [('pf64', A), ('i32', n), ('pi32', idx), ('i32', ni)] + ([] if cplx else [('i32', asarr)]) + [('pf64', [0.0] * (ni * w))]
    desc = f'index-list selection n={n} list length {ni}{" cmplx" if cplx else ""}{" (arr_int)" if asarr else ""}'
    work = [[]]; paths = 0
    while work and paths < 200:
        preset = work.pop(); paths += 1
        m = Machine(mod, preset=preset);
        for k in idx: m.assume(z3.And(k.e >= 0, k.e < n))
        try: r, outs, _ = sym_call(m, fn, spec, 'i32'); st = 'ret'
        except Throw: st = 'throw'
        except UB as e: st = 'ub'
        work.extend(m.pending); res.absorb(m)
        conc = lambda mdl: [('pf64', [1.0 + i for i in range(n * w)]), ('i32', n), ('pi32', [model_int(mdl, f'k{j}') for j in range(ni)]), ('i32', ni)] + ([] if cplx else [('i32', asarr)]) + [('pf64', [0.0] * (ni * w))]
        def cex(mdl, why):
            c = conc(mdl); iv = c[2][1]
            confirm(res, PID, HARNESS, fn, c, 'i32', 'exact', ORACLES, 'index:selection', why,
                    extra={'expect': {'ret': ni, 'outs': {str(len(c) - 3 if not cplx else 2 + 0): None} if False else {'2': [v for k in iv for v in [1.0 + k * w + q for q in range(w)]]}}, 'desc': desc + f' idx={iv}'})
        if st != 'ret' or m.ub_found:
            rr, mdl = m.check_model(z3.BoolVal(True)); cex(mdl, f'{desc}: {st} / UB {[(u[0], u[1]) for u in m.ub_found[:1]]} for in-range indices'); continue
        out = outs[2][:ni * w]; low = m.low; bad = [z3.BoolVal(r != ni) if isinstance(r, int) else (bve(r, 32) != ni)]      # the count may be an expression pinned by the path
        X = {f'a{i}': z3.Real(f'a{i}') for i in range(n * w)}
        for j in range(ni):
            for q in range(w):
                for i in range(n):
                    bad.append(z3.And(idx[j].e == i, (low(out[w * j + q]) if isF(out[w * j + q]) else z3.RealVal(Fraction(out[w * j + q]))) != X[f'a{i * w + q}']))
        sol = z3.Solver(); sol.add(*m.pc); sol.add(z3.Or(bad)); c = timed_check(sol, res)
        if c == z3.unsat: res.ob(True, 'BV+REAL', f'{desc}: forall in-range indices. result[j] == a[idx[j]]')
        elif c == z3.sat: cex(model_dict(sol), f'{desc}: result is not a[idx[j]]')
        else: res.inc(f'{desc}: query unknown')

JOBFNS = {'arith': job_arith, 'copy': job_copy, 'concat': job_concat, 'mask': job_mask, 'index': job_index}

def selftest(st):
    mod, so = load(HARNESS); calls = []
    A = [0.5, -1.25, 3.0, 2.5, -0.75, 4.0, 1.0, 8.0]; B = [2.0, 0.5, -1.5, 0.25, 3.0, -2.0, 7.0, 0.125]
    for form in FORMS:
        for op in range(4):
            calls.append(('h_arith', [('i32', form), ('i32', op), ('pf64', A[:6]), ('i32', 3), ('pf64', B[:6]), ('i32', 3), ('f64', 1.75), ('f64', -0.5), ('i32', 3), ('pf64', [0.0] * 6), ('pf64', [0.0] * 6), ('pf64', [0.0] * 6)]))
    calls.append(('h_concat', [('i32', 3), ('pf64', A[:2]), ('i32', 2), ('pf64', B[:3]), ('i32', 3), ('pf64', [0.0] * 7)]))
    calls.append(('h_mask', [('pf64', A[:4]), ('i32', 4), ('pi32', [1, 0, 1, 1]), ('i32', 4), ('pf64', [0.0] * 4)]))
    calls.append(('h_index', [('pf64', A[:4]), ('i32', 4), ('pi32', [3, 0, 0]), ('i32', 3), ('i32', 1), ('pf64', [0.0] * 3)]))
    nat = native_batch(so, [(fn, spec, 'i32') for fn, spec in calls])
    for (fn, spec), nres in zip(calls, nat):
        m = Machine(mod)
        try: r, outs, _ = sym_call(m, fn, spec, 'i32')
        except Throw: r, outs = H_THROW, None
        st.selftests += 1
        ok = nres['status'] == 'ok' and r == nres['ret'] and (outs is None or all(same_bits(a, b) for o1, o2 in zip(outs, nres['outs']) for a, b in zip(o1, o2)))
        if not ok: st.viol('selftest', f'{fn} {spec[:2]}: symir and native differ: {r} vs {nres.get("ret")}')
        else: st.ob(True, 'concrete')

def main(tier, seed):
    q = tier == 'quick'; jobs = []
    lens = [0, 1, 2, 3, 4, 5, 8, 9] if q else [0, 1, 2, 3, 4, 5, 7, 8, 9, 16, 17]
    for form, (ta, kb, side, comp, tr) in FORMS.items():
        ops = [0] if kb in ('n', 'p') else range(4)
        for op in ops:
            for n in lens:
                if kb == 'self0' and n == 0: continue
                jobs.append((f'arith f{form} op{op} n={n}', 'arith', dict(form=form, op=op, na=n, nb=n), 600))
            if kb in ('aR', 'aC'):
                for (na, nb) in [(2, 3), (0, 1), (3, 0)] if q else [(2, 3), (0, 1), (3, 0), (1, 2), (4, 3), (5, 1)]:
                    jobs.append((f'arith f{form} op{op} na={na} nb={nb}', 'arith', dict(form=form, op=op, na=na, nb=nb), 600))
    for n in ([1, 3] if q else [1, 2, 3, 5]):
        jobs.append((f'copy n={n}', 'copy', dict(n=n, cplx=False), 600)); jobs.append((f'copy cmplx n={n}', 'copy', dict(n=n, cplx=True), 600))
    for kind in range(6):
        for (na, nb) in ([(0, 0), (0, 2), (2, 0), (3, 2)] if q else [(0, 0), (0, 2), (2, 0), (3, 2), (1, 1), (5, 4), (8, 2)]):
            jobs.append((f'concat k{kind} {na},{nb}', 'concat', dict(kind=kind, na=na, nb=nb), 600))
    for n in ([0, 1, 3, 4] if q else [0, 1, 2, 3, 4, 6, 8]): jobs.append((f'mask n={n}', 'mask', dict(n=n), 900))
    for (n, ni) in ([(1, 1), (3, 2), (4, 3)] if q else [(1, 1), (3, 2), (4, 3), (5, 5), (8, 3)]):
        jobs.append((f'index n={n} ni={ni}', 'index', dict(n=n, ni=ni), 900)); jobs.append((f'index arr n={n} ni={ni}', 'index', dict(n=n, ni=ni, asarr=1), 900))
        jobs.append((f'index cmplx n={n} ni={ni}', 'index', dict(n=n, ni=ni, cplx=True), 900))
    return run_property(PID, tier, HARNESS, jobs, JOBFNS,
        level_text='Every operator x operand-type pairing instantiated in the harness is executed with all element values (and scalars, including the int scalar as a 32-bit bit-vector) symbolic; '
                   'z3 decides per result element the polynomial / rational identity with the field formula (QF_NRA), operand storage is compared by term identity (UF), mismatched lengths must '
                   'end in a throw with operand storage unchanged; concatenation, mask and index-list selection are decided with symbolic mask bits / indices.',
        assumptions=['real arithmetic for the field formulas (rounding outside the claim; a native replay uses 16 ulp of the result scale)', 'divisors non-zero', 'index lists in range here (out-of-range entries: C05)',
                     'std::complex scalars: only the pairings that compile (complex array with std::complex on the right)'],
        bounds={'array lengths': str(lens), 'mismatched pairs': '3 (quick) / 6 (thorough) per pairing', 'pairings': f'{len(FORMS)} forms x 4 operators'},
        outside=['lengths above the bound (element loops are uniform)', 'magnitudes near overflow', 'signed-zero / ulp-level behaviour of products and quotients'], seed=seed, selftest=selftest)

def replay(path): return replay_main(path, ORACLES)
