"""C09 — thread safety, decided through the sufficient condition "disjoint write sets" (P-WSET); no interleavings are explored."""
from common import *
PID = 'C09'; HARNESS = 'C09.cpp'
H_THROW = (-1000000) & 0xffffffff
PK = ['FftPlan', 'FftPlanR', 'IfftPlan', 'IfftPlanR', 'CztPlan']
FK = ['fft(complex)', 'fft(real)', 'ifft', 'irfft', 'xcorr', 'FftFilter', 'welch', 'resample', 'randn', 'rand', 'randi', 'rng+randn', 'awgn', 'window::hann', 'czt', 'scalar randn/rand/randi']

def o_race(spec, r, extra):
    if r['status'] == 'timeout': return False, 'stress run timed out'
    if r['status'] != 'ok' or r['ret'] == H_THROW: return True, f"{extra['what']}: concurrent use crashed / threw: {r['status']} {r.get('stderr', '')[-200:]}"
    return r['ret'] != 0, f"{extra['what']}: {sgn(r['ret'], 32)} of {spec[2][1] * spec[3][1]} results computed by {spec[2][1]} concurrent threads differ from the single-threaded results"
def o_rng(spec, r, extra):
    if r['status'] != 'ok': return True, f"rng threads: {r['status']}"
    return r['ret'] != 1, 'seeding/drawing in another thread changed the sequence observed by this thread'
ORACLES = {'race': o_race, 'rng': o_rng}

def classify(m, stores, out_blocks):
    """-> list of offending (description) for stores that are neither fresh, stack, output, thread_local nor lock-protected"""
    bad = {}; shared = m.reachable_from_globals()
    for (b, off, n, locked) in stores:
        blk = m.blocks[b]
        if locked or b in out_blocks or blk.kind in ('stack', 'tls', 'tmp') or blk.born >= 1: continue
        if b not in shared: continue        # pre-existing but reachable only from this thread's thread_local storage / stack: private to the thread
        key = (blk.kind, str(blk.tag))
        bad.setdefault(key, 0); bad[key] += 1
    return bad

def unlocked_reads_of_locked_writes(m):
    """memory that the call writes while holding a lock and that other threads can reach must not be read outside the lock (a reader would race with another thread's locked write)"""
    shared = m.reachable_from_globals()
    wl = {b for (b, off, n, locked) in m.stores if locked and b in shared}
    bad = {}
    for (b, off, n, locked) in m.loads:
        if b in wl and not locked:
            blk = m.blocks[b]; key = (blk.kind, str(blk.tag)); bad[key] = bad.get(key, 0) + 1
    return bad

def traced_call(m, fn, args, outp):
    m.epoch = 1; m.stores = []; m.trace_stores = True; m.loads = []; m.trace_loads = True
    try: r = m.call(fn, args); st = 'ret'
    except Throw: r = None; st = 'throw'
    except UB as e: r = None; st = 'ub ' + str(e)[:200]
    m.trace_stores = False; m.trace_loads = False
    return r, st

def job_plan(res, kind, n, nbig):
    mod, so = load(HARNESS); m = Machine(mod, max_steps=200_000_000)
    label = f'{PK[kind]}({n}) shared between threads: const solve()'
    def race(why, key):
        ok = False
        for it in (3000, 30000):
            if confirm(res, PID, HARNESS, 'h_race', [('i32', kind), ('i32', nbig), ('i32', 4), ('i32', it)], 'i32', 'race', ORACLES, key, why, extra={'what': f'{PK[kind]}({nbig}) shared by 4 threads'}, timeout=240,
                       suspect_is_inconclusive=(it == 30000)): ok = True; break
        return ok
    try:
        m.call('@h_mk', [kind, n])
        w = m.alloc_doubles([0.1 * i for i in range(2 * n + 4)], 'warm'); yw = m.alloc_doubles([0.0] * (2 * n + 8), 'yw'); m.call('@h_use', [kind, n, w, yw])      # warm-up: lazily created statics exist afterwards
    except (Throw, UB) as e: res.inc(f'{label}: set-up failed: {e}'); return
    x = m.alloc_doubles([fsym(f'x{i}') for i in range(2 * n + 4)], 'x'); y = m.alloc_doubles([0.0] * (2 * n + 8), 'y')
    r, st = traced_call(m, '@h_use', [kind, n, x, y], y); res.absorb(m)
    if st != 'ret': res.inc(f'{label}: {st}'); return
    bad = classify(m, m.stores, {y.b})
    sol = z3.Solver(); sol.add(z3.BoolVal(bool(bad))); c = sol.check(); res.queries += 1      # ground obligation: the set of offending stores is empty
    if c == z3.unsat:
        res.ob(True, 'WSET', f'{label}: all {len(m.stores)} stores of the call go to blocks allocated during the call, its stack, the caller\'s output or thread_local storage')
    else:
        sites = '; '.join(f'{cnt} stores into pre-existing {k[0]} block allocated in {k[1][:90]}' for k, cnt in list(bad.items())[:3])
        race(f'{label} writes to memory shared with other threads using the same plan: {sites}', f'wset:plan:{PK[kind]}:{"factor" if any("FactorFFT" in k[1] or "base_array" in k[1] for k in bad) else "other"}')

def job_plan_first(res, kind, n, nbig):
    """the FIRST solve of a plan that was only constructed: no warm-up, so members created lazily inside the const solve() show up as stores into the shared plan
    (initialisation of function-local statics runs under its guard and is exempt like any lock-protected store)"""
    mod, so = load(HARNESS); m = Machine(mod, max_steps=200_000_000)
    label = f'{PK[kind]}({n}) shared between threads: first const solve() after construction'
    try: m.call('@h_mk', [kind, n])
    except (Throw, UB) as e: res.inc(f'{label}: set-up failed: {e}'); return
    x = m.alloc_doubles([fsym(f'x{i}') for i in range(2 * n + 4)], 'x'); y = m.alloc_doubles([0.0] * (2 * n + 8), 'y')
    r, st = traced_call(m, '@h_use', [kind, n, x, y], y); res.absorb(m)
    if st != 'ret': res.inc(f'{label}: {st}'); return
    bad = classify(m, m.stores, {y.b})
    sol = z3.Solver(); sol.add(z3.BoolVal(bool(bad))); c = sol.check(); res.queries += 1
    if c == z3.unsat: res.ob(True, 'WSET', f'{label}: all {len(m.stores)} stores go to fresh blocks, stack, the output, thread_local storage or guard-protected statics')
    else:
        sites = '; '.join(f'{cnt} stores into pre-existing {k[0]} block allocated in {k[1][:90]}' for k, cnt in list(bad.items())[:3])
        why = f'{label} writes to memory shared with other threads using the same plan: {sites}'
        for tr in (300, 3000):
            if confirm(res, PID, HARNESS, 'h_race_first', [('i32', kind), ('i32', nbig), ('i32', 8), ('i32', tr)], 'i32', 'race', ORACLES, f'wset:plan-first:{PK[kind]}', why, extra={'what': f'fresh {PK[kind]}({nbig}) first solved by 8 threads at once'}, timeout=300,
                       suspect_is_inconclusive=(tr == 3000)): break

def job_free(res, fk, n):
    mod, so = load(HARNESS); m = Machine(mod, max_steps=300_000_000)
    label = f'free function {FK[fk]} (n={n}), second call in a thread'
    cap = 8 * n + 64
    try:
        w = m.alloc_doubles([0.3 + 0.1 * i for i in range(cap + 64)], 'warm'); yw = m.alloc_doubles([0.0] * (cap + 64), 'yw')
        m.call('@h_free', [fk, n + 2 if fk != 6 else 2 * n, w, yw])      # warm-up with ANOTHER length: per-length caches are refilled by the traced call, as they are when threads use different lengths
    except (Throw, UB) as e: res.inc(f'{label}: warm-up failed: {e}'); return
    x = m.alloc_doubles([fsym(f'x{i}') for i in range(cap)], 'x'); y = m.alloc_doubles([0.0] * cap, 'y')
    r, st = traced_call(m, '@h_free', [fk, n, x, y], y); res.absorb(m)
    if st != 'ret': res.inc(f'{label}: {st}'); return
    bad = classify(m, m.stores, {y.b})
    for k, v in unlocked_reads_of_locked_writes(m).items(): bad[('unlocked read of lock-written ' + k[0], k[1])] = v
    sol = z3.Solver(); sol.add(z3.BoolVal(bool(bad))); c = sol.check(); res.queries += 1
    if c == z3.unsat: res.ob(True, 'WSET', f'{label}: all {len(m.stores)} stores go to fresh blocks, stack, the output or thread_local storage (plan caches and the random engine are per thread)')
    else:
        sites = '; '.join(f'{cnt} stores into pre-existing {k[0]} block {k[1][:90]}' for k, cnt in list(bad.items())[:3])
        why = f'{label} writes to memory shared between threads: {sites}'
        if fk in (8, 9, 10, 11, 12, 15):
            confirm(res, PID, HARNESS, 'h_rng_threads', [('i32', 42), ('i32', 64)], 'i32', 'rng', ORACLES, f'wset:free:{FK[fk]}', why, timeout=120)
        else:
            for it in (2000, 20000):
                if confirm(res, PID, HARNESS, 'h_race_free', [('i32', fk), ('i32', max(n, 48) if fk not in (6,) else 64), ('i32', 4), ('i32', it)], 'i32', 'race', ORACLES, f'wset:free:{FK[fk]}', why,
                           extra={'what': f'{FK[fk]} from 4 threads'}, timeout=240, suspect_is_inconclusive=(it == 20000)): break

def job_tls(res):
    """IR facts: the plan caches and the random engine are thread_local"""
    mod, so = load(HARNESS)
    want = {'create_fft_plan': None, 'create_rfft_plan': None, 'g_engine': None}
    for name, (t, init, const, tl) in mod.globals.items():
        for k in want:
            if k in name and ('cache' in name or k == 'g_engine') and not name.startswith('@_ZGV') and not name.startswith('@_ZTH') and '__tls_guard' not in name: want[k] = (name, tl)
    for k, v in want.items():
        if v is None: res.notes.append(f'{k}: no such global in the IR (renamed?); the write-set jobs still classify its storage'); continue
        sol = z3.Solver(); sol.add(z3.Not(z3.BoolVal(bool(v[1])))); c = sol.check(); res.queries += 1
        if c == z3.unsat: res.ob(True, 'IR', f'global {v[0]} carries thread_local in the IR')
        else: res.inc(f'global {v[0]} is not thread_local (the write-set jobs decide whether it is written)')

JOBFNS = {'plan_first': job_plan_first, 'plan': job_plan, 'free': job_free, 'tls': job_tls}

def selftest(st):
    calls = [('h_free', [('i32', fk), ('i32', 8), ('pf64', [math.sin(i) + 0.2 for i in range(8 * 8 + 64)]), ('pf64', [0.0] * (8 * 8 + 64))], 'i32') for fk in (0, 1, 2, 3, 4, 5, 6, 7, 11, 13, 14)]
    selftest_calls(st, HARNESS, calls, max_steps=300_000_000)

def main(tier, seed):
    q = tier == 'quick'; jobs = [('thread_local IR facts', 'tls', {}, 300)]
    plans = [(0, 8, 8), (0, 16, 1024), (0, 12, 1500), (0, 30, 2310), (0, 7, 37), (0, 43, 211), (1, 12, 3000), (1, 9, 1125), (1, 7, 37), (1, 16, 2048), (2, 12, 1500), (2, 16, 1024), (3, 12, 3000), (3, 16, 2048), (4, 5, 300)]
    if not q: plans += [(0, n, 1500) for n in (6, 10, 18, 20, 24, 36, 45, 60)] + [(0, n, 1024) for n in (32, 64)] + [(1, n, 3000) for n in (6, 10, 20, 24, 30)] + [(0, 47, 211), (0, 41, 37), (2, 30, 2310), (3, 20, 3000), (4, 8, 300)]
    for kind, n, nbig in plans:
        jobs.append((f'{PK[kind]}({n})', 'plan', dict(kind=kind, n=n, nbig=nbig), 1500)); jobs.append((f'{PK[kind]}({n}) first solve', 'plan_first', dict(kind=kind, n=n, nbig=nbig if nbig < 400 else n), 1500))
    for fk in range(len(FK)):
        for n in ((12,) if q else (8, 12, 16, 30)):
            if fk == 3 and n % 2: continue
            if fk == 6 and (n & (n - 1)): n = 16
            jobs.append((f'{FK[fk]} n={n}', 'free', dict(fk=fk, n=n), 1500))
    return run_property(PID, tier, HARNESS, jobs, JOBFNS,
        level_text='REDUCED CLAIM (no interleaving is explored): for every plan kind (small, pow2, factor, prime-DFT, Bluestein, real-packed, inverse, czt) an existing plan is used with symbolic input and '
                   'every store of the call is classified: blocks allocated during the call, its stack, the caller\'s output, thread_local storage, memory reachable only from thread_local storage, atomic read-modify-writes and lock-protected stores are allowed; a plain store into memory reachable from a non-thread_local global (the shared plan object lives there) is not; the same for the '
                   'second call of every free function in the list (plan caches, random engine). Disjoint write sets + read-only sharing imply race freedom and sequential results under any schedule. '
                   'A store into pre-existing shared memory is replayed by a native multi-thread stress on a plan of the same algorithm class and reported only if results differ.',
        assumptions=['store addresses do not depend on the data (one symbolic path covers all inputs; forks would be reported)', 'pthread-level scheduling of libstdc++ code cannot be encoded with the tools present',
                     'reads of memory that is never written after the warm-up call are safe'],
        bounds={'plans': f'{len(plans)} (kind, n) pairs covering every algorithm choice', 'free functions': f'{len(FK)} functions'},
        outside=['actual interleavings / memory-model effects', 'objects other than plans shared between threads (not promised by the statement)'], seed=seed, selftest=selftest)

def replay(path): return replay_main(path, ORACLES)
