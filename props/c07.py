"""C07 — FIR filtering / correlation / moving average equal their defining sums (P-MULTI, P-LIN)."""
from common import *
from plin import *
import random
PID = 'C07'; HARNESS = 'C07.cpp'
H_THROW = (-1000000) & 0xffffffff

# ---------------------------------------------------------------- exact reference (Fractions) used by oracle and by reference matrices
def ref_fir(c, x, cplx):
    """y[i] = sum_k conj(c[k]) x[i-k] ; c, x lists of Fractions (complex: interleaved)"""
    if not cplx:
        return [sum(c[k] * x[i - k] for k in range(len(c)) if 0 <= i - k < len(x)) for i in range(len(x))]
    nc = len(c) // 2; nx = len(x) // 2; out = []
    for i in range(nx):
        re = im = Fraction(0)
        for k in range(nc):
            if 0 <= i - k < nx:
                cr, ci = c[2 * k], c[2 * k + 1]; xr, xi = x[2 * (i - k)], x[2 * (i - k) + 1]
                re += cr * xr + ci * xi; im += cr * xi - ci * xr
        out += [re, im]
    return out
def ref_xcorr(a, b, cplx):
    """r[lag] = sum_n a[n+lag] conj(b[n]), lag = -(n2-1)..n1-1"""
    w = 2 if cplx else 1; n1 = len(a) // w; n2 = len(b) // w; out = []
    for lag in range(-(n2 - 1), n1):
        re = im = Fraction(0)
        for n in range(n2):
            if 0 <= n + lag < n1:
                if cplx:
                    ar, ai = a[2 * (n + lag)], a[2 * (n + lag) + 1]; br, bi = b[2 * n], b[2 * n + 1]
                    re += ar * br + ai * bi; im += ai * br - ar * bi
                else: re += a[n + lag] * b[n]
        out += [re, im] if cplx else [re]
    return out
def o_fir(spec, r, extra):
    kind = extra['kind']; cplx = extra['cplx']; w = 2 if cplx else 1
    if r['status'] != 'ok' or r['ret'] == H_THROW: return True, f"{kind}: {r['status']} / threw"
    if kind in ('fir', 'fftfir'):
        c = [Fraction(v) for v in spec[0][1]]; x = [Fraction(v) for v in spec[2][1]]; n = r['ret']
        exp = ref_fir(c, x, cplx)[:n * w]; got = r['outs'][2][:n * w]
        if n != extra['nout']: return True, f"{kind}: produced {n} samples, expected {extra['nout']}"
        scale = sum(abs(float(v)) for v in c) * max([abs(float(v)) for v in x] + [1e-300])
    elif kind == 'xcorr':
        a = [Fraction(v) for v in spec[0][1]]; b = [Fraction(v) for v in spec[2][1]]; exp = ref_xcorr(a, b, cplx); got = r['outs'][2][:len(exp)]
        if r['ret'] * w != len(exp): return True, f"xcorr: returned {r['ret']} lags, expected {len(exp) // w}"
        scale = math.sqrt(sum(float(v) ** 2 for v in a) * sum(float(v) ** 2 for v in b)) or 1e-300
    else:   # ma
        n = spec[0][1]; x = [Fraction(v) for v in spec[1][1]]; c = [Fraction(1, n)] * n if not cplx else [v for _ in range(n) for v in (Fraction(1, n), Fraction(0))]
        exp = ref_fir(c, x, cplx); got = r['outs'][1][:len(exp)]
        scale = max([abs(float(v)) for v in x] + [1e-300])
    tol = extra.get('tolfac', 64 * 64) * EPS * scale
    worst = max([abs(float(Fraction(g) - e)) for g, e in zip(got, exp)] + [0.0])
    return worst > tol, f"{kind} ({'complex' if cplx else 'real'}): max deviation from the defining sum {worst:.3g} (tolerance {tol:.3g}); got {got[:6]} expected {[float(e) for e in exp[:6]]}"
ORACLES = {'fir': o_fir}

def lin_or_none(res, fn, spec, label, allow_fork=False):
    mod, so = load(HARNESS); m = Machine(mod, max_steps=100_000_000)
    try: r, outs, ptrs = sym_call(m, fn, spec, 'i32'); st = 'ret'
    except Throw: r = outs = None; st = 'throw'
    except UB as e: r = outs = None; st = 'ub: ' + str(e)[:200]
    res.absorb(m)
    if st == 'ret' and (m.pending or m.taken):
        if not allow_fork: res.inc(f'{label}: data-dependent control flow')
        st = 'fork'
    for kind, msg, model, where in m.ub_found: res.inc(f'{label}: possible UB {kind} {msg}')
    return m, r, outs, st

def fftfir_paths(res, fn, spec, insyms, cv, xv, symbolic, cplx, nout, fft_len, label, cex, max_paths=48):
    """the code branches on the data (e.g. a shortcut for special blocks): every feasible path is checked separately; on each path the outputs are linear forms and
    z3 (QF_LRA) searches the path's input region for a point where an output leaves the tolerance band around the defining sum"""
    mod, so = load(HARNESS); w = 2 if cplx else 1
    Fc = [Fraction(v) for v in cv]; Fx = [Fraction(v) for v in xv]
    cols = []
    for j in range(len(insyms)):
        unit = [Fraction(int(i == j)) for i in range(len(insyms))]
        cols.append(ref_fir(Fc, unit, cplx)[:nout * w] if symbolic == 'x' else ref_fir(unit, Fx, cplx)[:nout * w])
    l1 = sum(abs(v) for v in Fc) if symbolic == 'x' else sum(abs(v) for v in Fx)
    tol = Fraction(1, 2) * 64 * fft_len * Fraction(EPS) * max(l1, Fraction(1, 1000))
    Z = [z3.Real(s_) for s_ in insyms]
    def setup(m):
        args = []; ptrs = []
        for k, v in spec:
            if k in ('i32', 'f64'): args.append(v)
            elif k == 'pf64': p = m.alloc_doubles(v, 'arg'); args.append(p); ptrs.append((k, p, len(v)))
            else: p = m.alloc_ints(v, 32, 'arg'); args.append(p); ptrs.append((k, p, len(v)))
        return args, ptrs
    npaths = 0
    for p in explore(mod, '@' + fn, setup, max_paths=max_paths, max_steps=100_000_000):
        npaths += 1
        if p.out == 'pathbudget': res.notes.append(f'{label}: path budget reached, remaining paths not explored'); break
        if p.out != 'ret': res.inc(f'{label}: path {p.out}: {p.err}'); continue
        res.absorb(p.m)
        outs = read_outs(p.m, p.ctx)
        if p.ret != nout: cex(f'{label}: a data-dependent path produced {p.ret} samples instead of {nout}'); return
        ys = outs[2][:nout * w]
        try: rows = linear_forms(ys)
        except NonLinear as e: res.inc(f'{label}: path not linear: {e}'); continue
        sol = z3.SolverFor('QF_LRA'); sol.set('timeout', 60000); sol.add(*p.m.pc)
        for z in Z: sol.add(z >= -1, z <= 1)
        bad = None
        for k, row in enumerate(rows):
            diff = z3.Sum([z3.RealVal(row.get(s_, 0) - cols[j][k]) * Z[j] for j, s_ in enumerate(insyms)] + [z3.RealVal(row.get(1, 0))])
            sol.push(); sol.add(z3.Or(diff > z3.RealVal(tol), -diff > z3.RealVal(tol))); c = sol.check(); res.queries += 1
            if c == z3.sat:
                mdl = model_dict(sol); bad = [model_float(mdl, s_, 0.0) for s_ in insyms]; sol.pop(); break
            sol.pop()
            if c != z3.unsat: res.inc(f'{label}: path query unknown'); bad = False; break
        if bad is None: res.ob(True, 'LRA', f'{label}: path with {len(p.m.taken)} data-dependent decisions: every output within tolerance of the defining sum on the whole path region')
        elif bad:
            cex(f'{label}: on a data-dependent path (|pc|={len(p.m.pc)}) output {k // w} leaves the tolerance band', bad); return

def job_fir_poly(res, cplx, nh, n1, n2):
    """direct FIR: taps and input both symbolic; exact polynomial identity with the defining sum (QF_NRA)"""
    w = 2 if cplx else 1; fn = 'h_fir_c' if cplx else 'h_fir_r'; nx = n1 + n2
    cn = [f'c{i}' for i in range(nh * w)]; xn = [f'x{i}' for i in range(nx * w)]
    spec = [('pf64', [fsym(s) for s in cn]), ('i32', nh), ('pf64', [fsym(s) for s in xn]), ('i32', n1), ('i32', n2), ('pf64', [0.0] * (nx * w))]
    label = f'FirFilter{"C" if cplx else "R"} taps={nh} frames={n1}+{n2}'
    m, r, outs, st = lin_or_none(res, fn, spec, label, allow_fork=True)
    rnd = random.Random(nh * 100 + nx)
    def cex(why, cv=None, xv=None):
        cv = cv or [rnd.uniform(-1, 1) for _ in cn]; xv = xv or [rnd.uniform(-1, 1) for _ in xn]
        return confirm(res, PID, HARNESS, fn, [('pf64', cv), ('i32', nh), ('pf64', xv), ('i32', n1), ('i32', n2), ('pf64', [0.0] * (nx * w))], 'i32', 'fir', ORACLES,
                       f'fir:{"C" if cplx else "R"}:nh%4={nh % 4}', why, extra={'kind': 'fir', 'cplx': cplx, 'nout': nx})
    if st == 'fork': job_fir_fork(res, cplx, nh, n1, n2); return      # control flow depends on the taps / data: decided path by path
    if st != 'ret': cex(f'{label}: {st}'); return
    if r != nx: cex(f'{label}: produced {r} samples'); return
    ys = outs[2][:nx * w]; low = Lower('REAL')
    C = [z3.Real(s) for s in cn]; Xs = [z3.Real(s) for s in xn]
    exp = ref_fir(C, Xs, cplx) if False else None
    # build spec with z3 terms
    def zfir():
        out = []
        for i in range(nx):
            re = z3.RealVal(0); im = z3.RealVal(0)
            for k in range(nh):
                if i - k < 0: continue
                if cplx:
                    cr, ci = C[2 * k], C[2 * k + 1]; xr, xi = Xs[2 * (i - k)], Xs[2 * (i - k) + 1]
                    re = re + cr * xr + ci * xi; im = im + cr * xi - ci * xr
                else: re = re + C[k] * Xs[i - k]
            out += [re, im] if cplx else [re]
        return out
    sol = z3.Solver(); sol.set('timeout', 60000)
    for k, (y, e) in enumerate(zip(ys, zfir())):
        sol.push(); sol.add((low(y) if isF(y) else z3.RealVal(Fraction(y))) != e); t0 = time.time(); c = sol.check(); res.solver_s += time.time() - t0; res.queries += 1
        if c == z3.unsat: res.ob(True, 'NRA', f'{label}: forall taps, input. y[{k // w}].{"re" if k % w == 0 else "im"} == sum_k conj(c[k]) x[i-k]  (exact polynomial identity)')
        elif c == z3.sat:
            mdl = model_dict(sol); sol.pop()
            cex(f'{label}: output {k // w} is not the defining sum', [model_float(mdl, s, 0.5) for s in cn], [model_float(mdl, s, 0.25) for s in xn]); return
        else: res.inc(f'{label}: identity for output {k} unknown')
        sol.pop()

def job_fftfir(res, cplx, nh, symbolic, n1, n2, seed, shape='random'):
    """FftFilter: P-LIN in x for concrete taps (symbolic='x') or in the taps for concrete x (symbolic='c')"""
    w = 2 if cplx else 1; fn = 'h_fftfir_c' if cplx else 'h_fftfir_r'; nx = n1 + n2
    rnd = random.Random(seed * 1000 + nh * 10 + nx)
    if shape == 'random': cv = [rnd.uniform(-1, 1) for _ in range(nh * w)]
    elif shape == 'first': cv = [0.0] * (nh * w); cv[0] = 1.5; cv[w - 1] = -0.5 if cplx else 1.5
    elif shape == 'last': cv = [0.0] * (nh * w); cv[-w] = 0.75; cv[-1] = 2.0 if cplx else 0.75
    else:
        half = [rnd.uniform(-1, 1) for _ in range((nh + 1) // 2)]; cr = half + half[:nh // 2][::-1]; cv = [v for a in cr for v in ((a, 0.0) if cplx else (a,))]
    xv = [rnd.uniform(-1, 1) for _ in range(nx * w)]
    fft_len = 1 << (2 * nh - 1).bit_length(); blk = fft_len - nh + 1
    nout = (n1 // blk) * blk + (((n1 % blk) + n2) // blk) * blk if n2 else (n1 // blk) * blk
    label = f'FftFilter {"cmplx" if cplx else "real"} taps={nh} ({shape}) frames={n1}+{n2} symbolic={symbolic} block={blk}'
    if symbolic == 'x':
        insyms = [f'x{i}' for i in range(nx * w)]; cs = cv; xs = [fsym(s) for s in insyms]
    else:
        insyms = [f'c{i}' for i in range(nh * w)]; cs = [fsym(s) for s in insyms]; xs = xv
    spec = [('pf64', cs), ('i32', nh), ('pf64', xs), ('i32', n1), ('i32', n2), ('pf64', [0.0] * (max(nout, 1) * w)), ('pi32', [0])]
    def cex(why, v=None):
        c2 = cv if symbolic == 'x' else (v or cv); x2 = (v or xv) if symbolic == 'x' else xv
        return confirm(res, PID, HARNESS, fn, [('pf64', c2), ('i32', nh), ('pf64', x2), ('i32', n1), ('i32', n2), ('pf64', [0.0] * (max(nout, 1) * w)), ('pi32', [0])], 'i32', 'fir', ORACLES,
                       f'fftfir:{"C" if cplx else "R"}', why, extra={'kind': 'fftfir', 'cplx': cplx, 'nout': nout, 'tolfac': 64 * fft_len})
    m, r, outs, st = lin_or_none(res, fn, spec, label, allow_fork=True)
    if st == 'fork':
        fftfir_paths(res, fn, spec, insyms, cv, xv, symbolic, cplx, nout, fft_len, label, cex); return
    if st != 'ret':
        cex(f'{label}: {st}')
        return
    if r != nout or outs[3][0] != blk: cex(f'{label}: produced {r} samples (block size reported {outs[3][0]}), expected {nout} = whole blocks of {blk}'); return
    if nout == 0: res.ob(True, 'ground', f'{label}: no complete block yet, no output'); return
    rows = plin_matrix(res, m, outs[2][:nout * w], insyms, label)
    if rows is None: return
    # reference rows by exact evaluation of the defining sum on unit vectors
    ref = []
    Fc = [Fraction(v) for v in cv]; Fx = [Fraction(v) for v in xv]
    cols = []
    for j in range(len(insyms)):
        unit = [Fraction(int(i == j)) for i in range(len(insyms))]
        cols.append(ref_fir(Fc, unit, cplx)[:nout * w] if symbolic == 'x' else ref_fir(unit, Fx, cplx)[:nout * w])
    ref = [[cols[j][k] for j in range(len(insyms))] for k in range(nout * w)]
    l1 = sum(abs(v) for v in Fc) if symbolic == 'x' else sum(abs(v) for v in Fx)
    tol = Fraction(1, 2) * 64 * fft_len * Fraction(EPS) * max(l1, Fraction(1, 1000))
    worst = Fraction(0); wk = 0
    for k, (row, rr) in enumerate(zip(rows, ref)):
        dev = sum(abs(row.get(s, 0) - rr[j]) for j, s in enumerate(insyms)) + abs(row.get(1, 0))
        if dev > worst: worst = dev; wk = k
    if ground_le(res, worst, tol, 'row'): res.ob(True, 'LRA-ground', f'{label}: every output row within 1/2*64*N*eps*|c|_1 of the defining sum (worst {float(worst):.2g})')
    else:
        j = max(range(len(insyms)), key=lambda j: abs(float(rows[wk].get(insyms[j], 0) - ref[wk][j])))
        v = [0.0] * len(insyms); v[j] = 1.0
        if not cex(f'{label}: output {wk // w} deviates from the defining sum (row deviation {float(worst):.3g}, input {j})', v):
            cex(f'{label}: output {wk // w} deviates from the defining sum (row deviation {float(worst):.3g})')

def degree(outs, A, B):
    """syntactic degree (upper bound) of each output in the symbol groups A and B"""
    deg = {}
    def g(a): return deg[a.id] if isF(a) else (0, 0)
    for f in topo(outs):
        if f.op == 'sym': d = (1, 0) if f.args[0] in A else (0, 1) if f.args[0] in B else (0, 0)
        elif f.op == 'fneg': d = g(f.args[0])
        elif f.op in ('fadd', 'fsub'): a, b = g(f.args[0]), g(f.args[1]); d = (max(a[0], b[0]), max(a[1], b[1]))
        elif f.op == 'fmul': a, b = g(f.args[0]), g(f.args[1]); d = (a[0] + b[0], a[1] + b[1])
        elif f.op == 'fdiv':
            a, b = g(f.args[0]), g(f.args[1]); d = a if b == (0, 0) else (99, 99)
        else: d = (99, 99)
        deg[f.id] = d
    return [g(o) for o in outs]

def job_xcorr(res, cplx, n1, n2):
    """P-MULTI: (1) both arguments symbolic: syntactic degree <= (1,1) in (a, b) => bilinear;  (2) for each basis vector of b: P-LIN in a against the defining sum"""
    w = 2 if cplx else 1; fn = 'h_xcorr_c' if cplx else 'h_xcorr_r'; nl = n1 + n2 - 1
    an = [f'a{i}' for i in range(n1 * w)]; bn = [f'b{i}' for i in range(n2 * w)]
    label = f'xcorr {"cmplx" if cplx else "real"} n1={n1} n2={n2}'
    rnd = random.Random(n1 * 31 + n2)
    def cex(why, av=None, bv=None):
        av = av or [rnd.uniform(-1, 1) for _ in an]; bv = bv or [rnd.uniform(-1, 1) for _ in bn]
        return confirm(res, PID, HARNESS, fn, [('pf64', av), ('i32', n1), ('pf64', bv), ('i32', n2), ('pf64', [0.0] * (nl * w))], 'i32', 'fir', ORACLES, f'xcorr:{"C" if cplx else "R"}', why,
                       extra={'kind': 'xcorr', 'cplx': cplx, 'tolfac': 64 * 4 * (n1 + n2)})
    m, r, outs, st = lin_or_none(res, fn, [('pf64', [fsym(s) for s in an]), ('i32', n1), ('pf64', [fsym(s) for s in bn]), ('i32', n2), ('pf64', [0.0] * (nl * w))], label)
    if st != 'ret':
        if st != 'fork': cex(f'{label}: {st}')
        return
    if r != nl: cex(f'{label}: returned {r} lags instead of {nl}'); return
    dg = degree(outs[2][:nl * w], set(an), set(bn))
    if all(d[0] <= 1 and d[1] <= 1 for d in dg): res.ob(True, 'syntactic', f'{label}: every output has degree <= (1,1) in (a, b): the map is bilinear')
    else: res.inc(f'{label}: not syntactically bilinear (degrees {max(dg)})'); return
    M = 1 << (n1 + n2 - 2).bit_length() if n1 + n2 > 2 else 1
    tol = Fraction(1, 2) * 64 * max(M, 2) * Fraction(EPS)
    for j in range(n2 * w):
        bv = [0.0] * (n2 * w); bv[j] = 1.0
        lab2 = f'{label} b=e{j}'
        m2, r2, outs2, st2 = lin_or_none(res, fn, [('pf64', [fsym(s) for s in an]), ('i32', n1), ('pf64', bv), ('i32', n2), ('pf64', [0.0] * (nl * w))], lab2)
        if st2 != 'ret': res.inc(f'{lab2}: {st2}'); continue
        rows = plin_matrix(res, m2, outs2[2][:nl * w], an, lab2)
        if rows is None: continue
        cols = []
        for i in range(len(an)):
            unit = [Fraction(int(q == i)) for q in range(len(an))]; cols.append(ref_xcorr(unit, [Fraction(v) for v in bv], cplx))
        worst = Fraction(0); wk = 0; wi = 0
        for k, row in enumerate(rows):
            for i, s in enumerate(an):
                d = abs(row.get(s, 0) - cols[i][k])
                if d > worst: worst = d; wk = k; wi = i
            worst = max(worst, abs(row.get(1, 0)))
        if ground_le(res, worst, tol, 'coef'): res.ob(True, 'LRA-ground', f'{lab2}: coefficient tensor slice equals the defining sum within 1/2*64*M*eps (worst {float(worst):.2g})')
        else:
            av = [0.0] * len(an); av[wi] = 1.0
            if not cex(f'{lab2}: coefficient of a[{wi}] in output {wk} is off by {float(worst):.3g}', av, bv): cex(f'{lab2}: deviates from the defining sum')
            return

def job_ma(res, cplx, n, n1, n2):
    w = 2 if cplx else 1; fn = 'h_ma_c' if cplx else 'h_ma_r'; nx = n1 + n2
    insyms = [f'x{i}' for i in range(nx * w)]
    spec = ([('i32', n), ('pf64', [fsym(s) for s in insyms]), ('i32', n1)] + ([('i32', n2)] if not cplx else []) + [('pf64', [0.0] * (nx * w))])
    label = f'MAFilter{"C" if cplx else "R"} n={n} samples={n1}+{n2}'
    def cex(why, xv=None):
        xv = xv or [math.sin(1.3 * i) + 0.2 for i in range(nx * w)]
        return confirm(res, PID, HARNESS, fn, [('i32', n), ('pf64', xv), ('i32', n1)] + ([('i32', n2)] if not cplx else []) + [('pf64', [0.0] * (nx * w))], 'i32', 'fir', ORACLES,
                       f'ma:{"C" if cplx else "R"}', why, extra={'kind': 'ma', 'cplx': cplx, 'tolfac': 64})
    m, r, outs, st = lin_or_none(res, fn, spec, label)
    if st != 'ret':
        if st != 'fork': cex(f'{label}: {st}')
        return
    if r != nx: cex(f'{label}: {r} outputs'); return
    rows = plin_matrix(res, m, outs[1][:nx * w], insyms, label)
    if rows is None: return
    c = [Fraction(1, n)] * n if not cplx else [v for _ in range(n) for v in (Fraction(1, n), Fraction(0))]
    cols = [ref_fir(c, [Fraction(int(q == j)) for q in range(len(insyms))], cplx) for j in range(len(insyms))]
    exact = all(rows[k].get(s, 0) == cols[j][k] for k in range(nx * w) for j, s in enumerate(insyms)) and all(row.get(1, 0) == 0 for row in rows)
    if ground_le(res, Fraction(0 if exact else 1), Fraction(0), 'exact'): res.ob(True, 'LRA-ground', f'{label}: transfer matrix equals the FIR with {n} taps 1/{n} exactly (over the reals)')
    else:
        k, j = next((k, j) for k in range(nx * w) for j, s in enumerate(insyms) if rows[k].get(s, 0) != cols[j][k])
        xv = [0.0] * len(insyms); xv[j] = 1.0
        if not cex(f'{label}: output {k} has coefficient {float(rows[k].get(insyms[j], 0))} for input {j}, the equal-tap FIR has {float(cols[j][k])}', xv): cex(f'{label}: differs from the equal-tap FIR')

def job_xcorr_auto(res, cplx, n):
    """one-argument xcorr(x): every lag is extracted as an exact quadratic form in the samples and must be sum_i x[i+lag] conj(x[i]) (coefficients within 64*M*eps)"""
    mod, so = load(HARNESS); w = 2 if cplx else 1; fn = 'h_xcorr_auto_c' if cplx else 'h_xcorr_auto_r'; nl = 2 * n - 1
    xn = [f'x{i}' for i in range(n * w)]; label = f'xcorr(x) {"cmplx" if cplx else "real"} n={n}'
    def cex(why, xv=None):
        xv = xv or [math.sin(1.0 + 2.3 * i) + 0.1 * i for i in range(n * w)]
        return confirm(res, PID, HARNESS, fn, [('pf64', xv), ('i32', n), ('pf64', [0.0] * (nl * w))], 'i32', 'auto', ORACLES, f'xcorr:auto:{"C" if cplx else "R"}', why, extra={'cplx': cplx})
    m = Machine(mod, max_steps=100_000_000)
    try: r, outs, _ = sym_call(m, fn, [('pf64', [fsym(s_) for s_ in xn]), ('i32', n), ('pf64', [0.0] * (nl * w))], 'i32')
    except (Throw, UB) as e: res.absorb(m); cex(f'{label}: {type(e).__name__}'); return
    res.absorb(m)
    if m.taken: res.inc(f'{label}: data-dependent control flow'); return
    if r != nl: cex(f'{label}: returned {r} lags instead of {nl}'); return
    try: polys = poly_forms(outs[1][:nl * w], 2)
    except (NonLinear, PolyTooBig) as e: res.inc(f'{label}: not a quadratic form ({e})'); return
    # reference polynomials
    def mono(a, b): return tuple(sorted((a, b)))
    M = 1 << (2 * n - 2).bit_length() if n > 1 else 1; tol = Fraction(64 * max(M, 2)) * Fraction(EPS); bad = None
    for li, lag in enumerate(range(-(n - 1), n)):
        ref = [{} for _ in range(w)]
        for i in range(n):
            if not (0 <= i + lag < n): continue
            if cplx:
                ar, ai, br, bi = f'x{2 * (i + lag)}', f'x{2 * (i + lag) + 1}', f'x{2 * i}', f'x{2 * i + 1}'
                for (u, v, c_, q) in ((ar, br, 1, 0), (ai, bi, 1, 0), (ai, br, 1, 1), (ar, bi, -1, 1)): ref[q][mono(u, v)] = ref[q].get(mono(u, v), 0) + c_
            else: ref[0][mono(f'x{i + lag}', f'x{i}')] = ref[0].get(mono(f'x{i + lag}', f'x{i}'), 0) + 1
        for q in range(w):
            got = polys[w * li + q]; keys = set(got) | set(ref[q])
            d = max([abs(Fraction(got.get(k_, 0)) - ref[q].get(k_, 0)) for k_ in keys] + [Fraction(0)])
            if d > tol: bad = (lag, float(d)); break
        if bad: break
    sol = z3.Solver(); sol.add(z3.Not(z3.BoolVal(bad is None)))
    if timed_check(sol, res) == z3.unsat: res.ob(True, 'POLY-ground', f'{label}: every lag is the quadratic form sum_i x[i+lag] conj(x[i]) (coefficients within 64*M*eps) for every input')
    else: cex(f'{label}: lag {bad[0]} is not sum_i x[i+lag] conj(x[i]) (coefficient off by {bad[1]:.3g})')

def job_fir_fork(res, cplx, nh, n1, n2):
    """direct FIR whose control flow depends on the TAPS (shortcuts for special coefficient vectors): input concrete, taps symbolic, every explored path: LRA search in the path's region for taps where an
    output deviates from the defining sum by more than 1e-3 of sum|c| (relative to the taps' own scale)"""
    mod, so = load(HARNESS); w = 2 if cplx else 1; fn = 'h_fir_c' if cplx else 'h_fir_r'; nx = n1 + n2
    cn = [f'c{i}' for i in range(nh * w)]; C = [z3.Real(s_) for s_ in cn]; label = f'FirFilter{"C" if cplx else "R"} taps={nh} frames={n1}+{n2} (taps symbolic, input concrete)'
    for xi, xv in enumerate(([1.0 + 0.25 * i for i in range(nx * w)], [1.0 if i == w * (nx // 2) else 0.0 for i in range(nx * w)])):
        work = [[]]; seen = 0
        while work and seen < 40:
            preset = work.pop(); seen += 1
            m = Machine(mod, preset=preset, max_steps=50_000_000); yp = m.alloc_doubles([0.0] * (nx * w), 'y')
            try: r = m.call('@' + fn, [m.alloc_doubles([fsym(s_) for s_ in cn], 'c'), nh, m.alloc_doubles(xv, 'x'), n1, n2, yp])
            except Infeasible: work.extend(m.pending); continue
            except (Throw, UB) as e: work.extend(m.pending); res.absorb(m); res.inc(f'{label}: {type(e).__name__} on a path'); continue
            work.extend(m.pending); res.absorb(m); ys = m.read_doubles(yp, nx * w)
            try: rows = linear_forms(ys)
            except NonLinear as e: res.inc(f'{label}: path not linear in the taps ({e})'); continue
            X = [Fraction(v) for v in xv]
            # reference rows: coefficient of tap c_k in output i
            ref = []
            for i in range(nx):
                rr = {}; ri = {}
                for k in range(nh):
                    if i - k < 0: continue
                    if cplx:
                        xr, xim = X[2 * (i - k)], X[2 * (i - k) + 1]
                        rr[cn[2 * k]] = rr.get(cn[2 * k], 0) + xr; rr[cn[2 * k + 1]] = rr.get(cn[2 * k + 1], 0) + xim
                        ri[cn[2 * k]] = ri.get(cn[2 * k], 0) + xim; ri[cn[2 * k + 1]] = ri.get(cn[2 * k + 1], 0) - xr
                    else: rr[cn[k]] = rr.get(cn[k], 0) + X[i - k]
                ref += [rr, ri] if cplx else [rr]
            sol = z3.SolverFor('QF_LRA'); sol.set('timeout', 60000); sol.add(*m.pc)
            T = [z3.Real(f't{j}') for j in range(len(cn))]
            for t_, c_ in zip(T, C): sol.add(t_ >= c_, t_ >= -c_)
            S = z3.Sum(T); found = None
            for k, (row, rf) in enumerate(zip(rows, ref)):
                keys = set(row) | set(rf); coef = {s_: row.get(s_, 0) - rf.get(s_, 0) for s_ in keys}
                if all(c_ == 0 for c_ in coef.values()): continue
                diff = z3.Sum([z3.RealVal(c_) * (z3.Real(s_) if s_ != 1 else z3.RealVal(1)) for s_, c_ in coef.items() if c_ != 0])
                sol.push(); sol.add(S > 0, z3.Or(diff > S / 1000, -diff > S / 1000)); c = timed_check(sol, res)
                if c == z3.sat: mdl = model_dict(sol); found = [model_float(mdl, s_, 0.0) for s_ in cn]; sol.pop(); break
                sol.pop()
            if found is None: res.ob(True, 'LRA', f'{label} input #{xi}: path with {len(m.taken)} coefficient-dependent decisions: every output within 1e-3 * sum|c| of the defining sum on the whole path region')
            else:
                confirm(res, PID, HARNESS, fn, [('pf64', found), ('i32', nh), ('pf64', xv), ('i32', n1), ('i32', n2), ('pf64', [0.0] * (nx * w))], 'i32', 'fir', ORACLES, f'fir:{"C" if cplx else "R"}:coefficient-dependent', f'{label}: on a coefficient-dependent path output {k // w} is not the defining sum', extra={'kind': 'fir', 'cplx': cplx, 'nout': nx}); return

def o_auto(spec, r, extra):
    cplx = extra['cplx']; w = 2 if cplx else 1; x = [Fraction(v) for v in spec[0][1]]; n = spec[1][1]
    if r['status'] != 'ok' or r['ret'] == H_THROW: return True, f"xcorr(x): {r['status']} / threw"
    exp = ref_xcorr(x, x, cplx); got = r['outs'][1][:len(exp)]
    if r['ret'] * w != len(exp): return True, f"xcorr(x): returned {r['ret']} lags, expected {len(exp) // w}"
    sc = float(sum(v * v for v in x)) or 1e-300; worst = max([abs(float(Fraction(g) - e)) for g, e in zip(got, exp)] + [0.0])
    return worst > 1e-9 * sc, f"xcorr(x) ({'complex' if cplx else 'real'}, n={n}): max deviation from sum_i x[i+lag] conj(x[i]) is {worst:.3g}; got {got[:4]}.. expected {[float(e) for e in exp[:4]]}.."
ORACLES['auto'] = o_auto

JOBFNS = {'xcorr_auto': job_xcorr_auto, 'fir_fork': job_fir_fork, 'fir_poly': job_fir_poly, 'fftfir': job_fftfir, 'xcorr': job_xcorr, 'ma': job_ma}

def selftest(st):
    mod, so = load(HARNESS); calls = []; rnd = random.Random(5)
    for nh in (2, 3, 5, 8):
        h = [rnd.uniform(-1, 1) for _ in range(2 * max(nh, 3))]; x = [rnd.uniform(-1, 1) for _ in range(80)]
        calls.append(('h_fir_r', [('pf64', h[:nh]), ('i32', nh), ('pf64', x[:9]), ('i32', 4), ('i32', 5), ('pf64', [0.0] * 9)]))
        calls.append(('h_fir_c', [('pf64', h[:2 * nh]), ('i32', nh), ('pf64', x[:18]), ('i32', 9), ('i32', 0), ('pf64', [0.0] * 18)]))
        calls.append(('h_fftfir_r', [('pf64', h[:nh]), ('i32', nh), ('pf64', x[:30]), ('i32', 13), ('i32', 17), ('pf64', [0.0] * 30), ('pi32', [0])]))
        calls.append(('h_fftfir_c', [('pf64', h[:2 * nh]), ('i32', nh), ('pf64', x[:60]), ('i32', 30), ('i32', 0), ('pf64', [0.0] * 60), ('pi32', [0])]))
        calls.append(('h_xcorr_c', [('pf64', x[:2 * nh]), ('i32', nh), ('pf64', h[:6]), ('i32', 3), ('pf64', [0.0] * (2 * (nh + 2)))]))
        calls.append(('h_ma_r', [('i32', nh), ('pf64', x[:12]), ('i32', 7), ('i32', 5), ('pf64', [0.0] * 12)]))
    nat = native_batch(so, [(fn, spec, 'i32') for fn, spec in calls])
    for (fn, spec), nres in zip(calls, nat):
        m = Machine(mod, max_steps=100_000_000); r, outs, _ = sym_call(m, fn, spec, 'i32'); st.selftests += 1
        ok = nres['status'] == 'ok' and r == nres['ret'] and all(same_bits(a, b) for o1, o2 in zip(outs, nres['outs']) for a, b in zip(o1, o2))
        if not ok: st.viol('selftest', f'{fn}: symir and native differ')
        else: st.ob(True, 'concrete')

def main(tier, seed):
    q = tier == 'quick'; jobs = []
    for cplx in (False, True):
        for nh in ((2, 3, 4, 5, 6) if q else range(2, 10)):
            jobs.append((f'fir poly c={cplx} nh={nh}', 'fir_poly', dict(cplx=cplx, nh=nh, n1=nh + 2, n2=0), 900))
            jobs.append((f'fir poly c={cplx} nh={nh} 2 frames', 'fir_poly', dict(cplx=cplx, nh=nh, n1=2, n2=nh), 900))
        for nh in ((2, 3, 5) if q else (2, 3, 4, 5, 6, 8, 9)):
            fl = 1 << (2 * nh - 1).bit_length(); blk = fl - nh + 1
            for shape in ('random', 'first', 'last', 'sym'):
                jobs.append((f'fftfir c={cplx} nh={nh} {shape} x', 'fftfir', dict(cplx=cplx, nh=nh, symbolic='x', n1=2 * blk + 1, n2=0, seed=seed, shape=shape), 1500))
            jobs.append((f'fftfir c={cplx} nh={nh} x frames', 'fftfir', dict(cplx=cplx, nh=nh, symbolic='x', n1=blk - 1, n2=2 * blk + 2, seed=seed), 1500))
            jobs.append((f'fftfir c={cplx} nh={nh} taps', 'fftfir', dict(cplx=cplx, nh=nh, symbolic='c', n1=2 * blk, n2=0, seed=seed), 1500))
        N = 5 if q else 10
        for n1 in range(1, N + 1):
            for n2 in range(1, N + 1):
                if q and cplx and n1 + n2 > 8: continue
                jobs.append((f'xcorr c={cplx} {n1},{n2}', 'xcorr', dict(cplx=cplx, n1=n1, n2=n2), 1500))
        for n in ((1, 2, 3, 4, 5, 6, 9) if q else list(range(1, 13)) + [17, 33]): jobs.append((f'xcorr auto c={cplx} n={n}', 'xcorr_auto', dict(cplx=cplx, n=n), 900))
        for n in ((1, 2, 3, 4, 5) if q else range(1, 9)):
            jobs.append((f'ma c={cplx} n={n}', 'ma', dict(cplx=cplx, n=n, n1=2 * n + 3, n2=0 if cplx else 2), 900))
    jobs.sort(key=lambda j: -(j[2].get('n1', 0) + j[2].get('n2', 0) + 4 * j[2].get('nh', 0)))
    return run_property(PID, tier, HARNESS, jobs, JOBFNS,
        level_text='FirFilter: taps and input both symbolic, z3 decides the exact polynomial identity with sum_k conj(c[k]) x[i-k] per output (one and two frames). FftFilter: certified linear '
                   '(QF_LRA) in the input for concrete taps (random / single tap at either end / symmetric) and in the taps for concrete input, matrix rows within 1/2*64*N*eps*|c|_1 of the '
                   'defining sum, output count = whole blocks. xcorr: syntactic bilinearity + LRA-certified slice of the coefficient tensor per basis vector of b, all lags. MAFilter: '
                   'transfer matrix equals the n-tap 1/n FIR exactly.',
        assumptions=['REAL arithmetic (data rounding outside; FFT table error inside the FftFilter / xcorr tolerances)', 'filters start from rest'],
        bounds={'FirFilter taps': '2..6 quick / 2..9', 'FftFilter taps': '2,3,5 quick / up to 9 (block 3..24), 2-3 blocks', 'xcorr': 'all (n1,n2) <= 5 quick / 10', 'MAFilter n': '1..5 / 1..8'},
        outside=['longer filters / inputs', 'rounding'], seed=seed, selftest=selftest)

def replay(path): return replay_main(path, ORACLES)
