"""C08 — multirate converters equal the zero-stuff / filter / decimate chain at a fixed phase (P-LIN + exact reference matrices)."""
from common import *
from plin import *
import random
PID = 'C08'; HARNESS = 'C08.cpp'
H_THROW = (-1000000) & 0xffffffff
KN = {4: 'FIRDecimator', 5: 'FIRInterpolator', 6: 'FIRRateConverter', 7: 'FIRResampler'}

def chain_coeff(h, L, M, gainL):
    """g = zero-padded h scaled to DC gain L (1 for a pure decimator)"""
    s = sum(Fraction(v) for v in h)
    return [Fraction(v) * gainL / s for v in h]
def ref_rows(g, L, M, nx, ny, phi):
    """y[i] = v[i*M + phi], v = g * zero-stuffed(x): coefficient of x[j] in y[i] is g[i*M + phi - j*L]"""
    rows = []
    for i in range(ny):
        row = []
        for j in range(nx):
            k = i * M + phi - j * L
            row.append(g[k] if 0 <= k < len(g) else Fraction(0))
        rows.append(row)
    return rows
def py_chain(h, L, M, gainL, x, phi, ny):
    g = chain_coeff(h, L, M, gainL); X = [Fraction(v) for v in x]
    return [sum(g[i * M + phi - j * L] * X[j] for j in range(len(X)) if 0 <= i * M + phi - j * L < len(g)) for i in range(ny)]

def eff_LM(kind, ip):
    if kind == 4: return 1, ip[0]
    if kind == 5: return ip[0], 1
    g = math.gcd(ip[0], ip[1]); return ip[0] // g, ip[1] // g

def o_conv(spec, r, extra):
    kind = spec[0][1]; ip = spec[1][1]; h = extra['h']; x = spec[4][1]; n1, n2 = spec[5][1], spec[6][1] % 4096 + spec[6][1] // 4096; L, M = eff_LM(kind, ip); nx = n1 + n2
    desc = f"{KN[kind]}({ip[:2]}) taps={len(h)} frames={n1}+{n2}"
    if r['status'] != 'ok': return True, f"{desc}: {r['status']} {r.get('stderr', '')[-200:]}"
    if extra.get('must_throw'): return r['ret'] != H_THROW, f"{desc}: frame length not a multiple of M={M} must be rejected, returned {sgn(r['ret'], 32)}"
    if r['ret'] == H_THROW: return True, f"{desc}: threw on valid frames"
    ny = nx * L // M
    if r['ret'] != ny: return True, f"{desc}: produced {sgn(r['ret'], 32)} samples, expected len*L/M = {ny}"
    y = r['outs'][3][:ny]; scale = max([abs(v) for v in x] + [1e-300]) * L
    best = None
    for phi in ([extra['phi']] if extra.get('phi') is not None else range(-2 * len(h) - L * M, 2 * len(h) + L * M + 1)):
        exp = py_chain(h, L, M, L, x, phi, ny); dev = max([abs(float(Fraction(a) - b)) for a, b in zip(y, exp)] + [0.0])
        if best is None or dev < best[0]: best = (dev, phi)
    return best[0] > 1e-9 * scale, f"{desc}: output is not a fixed phase of the zero-stuff/filter/decimate chain (best phase {best[1]} deviates by {best[0]:.3g}; required phase {extra.get('phi')})"
def o_resample(spec, r, extra):
    x = spec[0][1]; nx = spec[1][1]; p, q = spec[2][1], spec[3][1]; g = math.gcd(p, q); p1, q1 = p // g, q // g
    desc = f"resample(x[{nx}], {p}, {q})"
    if r['status'] != 'ok': return True, f"{desc}: {r['status']} {r.get('stderr', '')[-200:]}"
    if r['ret'] == H_THROW: return True, f"{desc}: threw"
    ny = p1 * (-(-nx // q1))
    if r['ret'] != ny: return True, f"{desc}: returned {sgn(r['ret'], 32)} samples, expected p'*ceil(len/q') = {ny}"
    y = r['outs'][-1][:ny]
    if p1 == q1: return any(not same_bits(a, b) for a, b in zip(y, x)), f"{desc}: p == q must return x itself"
    if extra.get('impulse') is not None:
        j = extra['impulse']; e = sum(v * v for v in y)
        if e == 0: return True, f"{desc}: impulse at {j} produced no output"
        c = sum(i * v * v for i, v in enumerate(y)) / e; want = j * p1 / q1
        return abs(c - want) > 1.0, f"{desc}: impulse at input sample {j} appears centred at output sample {c:.2f}; i*q/p alignment puts it at {want:.2f} (off by {c - want:+.2f} output samples)"
    return False, 'ok'
ORACLES = {'conv': o_conv, 'resample': o_resample}

def concrete_h(kind, ip):
    """default design: taps computed by the real design_multirate_fir (concrete execution)"""
    mod, so = load(HARNESS); L, M = eff_LM(kind, ip); m = Machine(mod, max_steps=200_000_000)
    hb = m.alloc_doubles([0.0] * 4096, 'h'); n = m.call('@h_design', [L, M, hb, 4096])
    return m.read_doubles(hb, n)

def job_conv(res, kind, ip, h, frames, seed=0):
    """frames: list of (n1, n2); the phase found for the first framing must serve all others"""
    mod, so = load(HARNESS); L, M = eff_LM(kind, ip); default = not h
    hv = list(h) if h else concrete_h(kind, ip)
    # the implementation pads h with zeros to a multiple of its polyphase count before normalising
    mpoly = M if kind == 4 or (kind == 7 and L == 1) else L
    hp = hv + [0.0] * ((-len(hv)) % mpoly)
    g = chain_coeff(hp, L, M, L)
    phi_fixed = None; rnd = random.Random(seed + 5)
    for fr_ in frames:
        n1 = fr_[0]; f2 = fr_[1]; f3 = fr_[2] if len(fr_) > 2 else 0; n2 = f2 + 4096 * f3
        nx = n1 + f2 + f3; ny = nx * L // M
        label = f'{KN[kind]}({ip[:2]}) taps={len(hv)}{" (default design)" if default else ""} frames={n1}+{f2}+{f3}'
        insyms = [f'x{i}' for i in range(nx)]
        spec = [('i32', kind), ('pi32', ip + [0]), ('pf64', h), ('i32', len(h)), ('pf64', [fsym(s) for s in insyms]), ('i32', n1), ('i32', n2), ('pf64', [0.0] * max(ny, 1))]
        def cex(why, xv=None, phi=None):
            xv = xv or [rnd.uniform(-1, 1) for _ in range(nx)]
            return confirm(res, PID, HARNESS, 'h_conv', spec[:4] + [('pf64', xv)] + spec[5:7] + [('pf64', [0.0] * max(ny, 1))], 'i32', 'conv', ORACLES, f'conv:{KN[kind]}', why, extra={'h': hp, 'phi': phi}, timeout=60)
        m = Machine(mod, max_steps=200_000_000)
        try: r, outs, _ = sym_call(m, 'h_conv', spec, 'i32'); st = 'ret'
        except Throw: st = 'throw'
        except UB as e: st = 'ub ' + str(e)[:200]
        res.absorb(m)
        if st != 'ret': cex(f'{label}: {st}'); return
        if m.taken or m.pending:
            ok, ref = path_consistency(res, HARNESS, 'h_conv', spec, insyms, 3, Fraction(1, 10 ** 9), label, lambda xv, why: cex(why, xv))
            continue
        if r != ny: cex(f'{label}: produced {r} samples instead of len*L/M = {ny}'); return
        rows = plin_matrix(res, m, outs[3][:ny], insyms, label)
        if rows is None: return
        tol = Fraction(8 * EPS) * max(abs(v) for v in g)
        def dev(phi):
            ref = ref_rows(g, L, M, nx, ny, phi)
            return max([abs(row.get(s, 0) - rr[j]) for row, rr in zip(rows, ref) for j, s in enumerate(insyms)] + [abs(row.get(1, 0)) for row in rows])
        if phi_fixed is not None: cands = [phi_fixed]
        else:
            # the phase is pinned by the matrix itself: a non-zero coefficient c of x[j] in y[i] must be some g[k] with k = i*M + phi - j*L; intersect the candidate sets of a few entries
            cset = None
            for i_, row in enumerate(rows[:4]):
                for j_, s_ in enumerate(insyms):
                    cv = row.get(s_, 0)
                    if cv == 0: continue
                    S = {k_ - i_ * M + j_ * L for k_, gv in enumerate(g) if abs(gv - cv) <= tol}
                    cset = S if cset is None else (cset & S)
                    if cset is not None and len(cset) <= 2: break
                if cset is not None and len(cset) <= 2: break
            cands = sorted(cset) if cset else range(-len(g) - L - M, len(g) + L + M + 1)
        found = None
        for phi in cands:
            if dev(phi) <= tol: found = phi; break
        if found is not None and ground_le(res, dev(found), tol, 'phase'):
            res.ob(True, 'LRA-ground', f'{label}: transfer matrix equals the zero-stuff({L})/filter(h*L/sum h)/keep-every-{M} chain at phase {found}' + (' (same phase as the first framing)' if phi_fixed is not None else ''))
            phi_fixed = found; res.notes.append(f'{label}: phase {found} (padded taps {len(g)})')
        else:
            if not cex(f'{label}: transfer matrix is not the chain at ' + (f'the phase {phi_fixed} used by the other framing' if phi_fixed is not None else 'any fixed phase'), None, phi_fixed):
                col = [0.0] * nx; col[nx // 2] = 1.0; cex(f'{label}: transfer matrix is not the chain at a fixed phase (impulse)', col, phi_fixed)
            return
    # frame length that is not a multiple of M must be rejected
    if M > 1:
        n1 = M + 1; spec = [('i32', kind), ('pi32', ip + [0]), ('pf64', h), ('i32', len(h)), ('pf64', [fsym(f'x{i}') for i in range(n1)]), ('i32', n1), ('i32', 0), ('pf64', [0.0] * (n1 * L))]
        m = Machine(mod, max_steps=200_000_000)
        try:
            sym_call(m, 'h_conv', spec, 'i32'); res.absorb(m)
            confirm(res, PID, HARNESS, 'h_conv', spec[:4] + [('pf64', [0.5] * n1)] + spec[5:], 'i32', 'conv', ORACLES, f'conv:{KN[kind]}:reject', f'{KN[kind]}({ip[:2]}): frame of {n1} samples (not a multiple of {M}) accepted', extra={'h': hp, 'must_throw': True})
        except Throw: res.absorb(m); res.ob(True, 'PATH', f'{KN[kind]}({ip[:2]}): frame length {n1} (not a multiple of {M}) is rejected by an exception')
        except UB as e: res.absorb(m); res.inc(f'{KN[kind]}: UB on bad frame length: {e}')

def job_resample(res, p, q, nx, h=None):
    mod, so = load(HARNESS); g_ = math.gcd(p, q); p1, q1 = p // g_, q // g_; ny = p1 * (-(-nx // q1))
    insyms = [f'x{i}' for i in range(nx)]; fn = 'h_resample_h' if h else 'h_resample'
    spec = [('pf64', [fsym(s) for s in insyms]), ('i32', nx), ('i32', p), ('i32', q)] + ([('pf64', h), ('i32', len(h))] if h else []) + [('pf64', [0.0] * (ny + 8))]
    label = f'resample(x[{nx}], {p}, {q})' + (f' custom h[{len(h)}]' if h else '')
    def cex(why, xv=None, imp=None, key='resample'):
        xv = xv or [math.sin(0.4 * i) + 0.1 for i in range(nx)]
        return confirm(res, PID, HARNESS, fn, [('pf64', xv)] + spec[1:-1] + [('pf64', [0.0] * (ny + 8))], 'i32', 'resample', ORACLES, key, why, extra={'impulse': imp}, timeout=60)
    m = Machine(mod, max_steps=400_000_000)
    try: r, outs, _ = sym_call(m, fn, spec, 'i32'); st = 'ret'
    except Throw: st = 'throw'
    except UB as e: st = 'ub ' + str(e)[:200]
    res.absorb(m)
    if st != 'ret': cex(f'{label}: {st}', key=f'resample:{st.split()[0]}:{p1}/{q1}'); return
    if m.taken or m.pending:
        path_consistency(res, HARNESS, fn, spec, insyms, -1, Fraction(1, 10 ** 9), label, lambda xv, why: cex(why, xv)); return
    if r != ny: cex(f"{label}: returned {r} samples, expected p'*ceil(len/q') = {ny}", key='resample:length'); return
    res.ob(True, 'ground', f"{label}: output length p'*ceil(len/q') = {ny}")
    ys = outs[-1][:ny]
    if p1 == q1:
        if all(a is b for a, b in zip(ys, [fsym(s) for s in insyms])): res.ob(True, 'UF', f'{label}: p == q returns x itself (same terms)')
        else: cex(f'{label}: p == q does not return x', key='resample:identity')
        return
    rows = plin_matrix(res, m, ys, insyms, label)
    if rows is None: return
    # alignment: energy centroid of the response to an impulse at input j (columns whose response is not truncated by the edges) within one output sample of j*p/q
    worst = Fraction(0); wj = None
    for j in range(nx // 3, max(nx // 3 + 1, 2 * nx // 3)):
        col = [rows[i].get(insyms[j], 0) for i in range(ny)]; e = sum(c * c for c in col)
        if e == 0: worst = Fraction(10 ** 6); wj = j; break
        c = sum(i * v * v for i, v in enumerate(col)) / e; d = abs(c - Fraction(j * p1, q1))
        if d > worst: worst = d; wj = j
    if ground_le(res, worst, Fraction(1), 'align'): res.ob(True, 'LRA-ground', f'{label}: impulse responses are centred within one output sample of i*q/p (worst offset {float(worst):.2f})')
    else:
        xv = [0.0] * nx; xv[wj] = 1.0
        cex(f'{label}: impulse at input {wj} is centred {float(worst):.2f} output samples away from {wj}*p/q', xv, wj, key=f'resample:align:{"rateconv" if p1 > 1 and q1 > 1 else "int" if q1 == 1 else "dec"}')

def job_resample_len(res, p, q, lens):
    """resample(x, p, q) for every input length in lens (all residues modulo q'): returns p'*ceil(len/q') samples and does not throw; control flow must not depend on the data (inputs symbolic)"""
    mod, so = load(HARNESS); g = math.gcd(p, q); p1, q1 = p // g, q // g
    for nx in lens:
        ny = p1 * (-(-nx // q1)); label = f'resample(x[{nx}], {p}, {q})'
        spec = [('pf64', [fsym(f'x{i}') for i in range(nx)]), ('i32', nx), ('i32', p), ('i32', q), ('pf64', [0.0] * (ny + 8))]
        m = Machine(mod, max_steps=400_000_000)
        try: r, outs, _ = sym_call(m, 'h_resample', spec, 'i32'); st = 'ret'
        except Throw: st = 'throw'; r = None
        except UB as e: st = 'ub ' + str(e)[:200]; r = None
        res.absorb(m)
        ok = st == 'ret' and r == ny and not m.taken and not m.ub_found
        sol = z3.Solver(); sol.add(z3.Not(z3.BoolVal(bool(ok))))
        if timed_check(sol, res) == z3.unsat: res.ob(True, 'PATH', f"{label}: one path, returns p'*ceil(len/q') = {ny} samples")
        else: confirm(res, PID, HARNESS, 'h_resample', [('pf64', [math.sin(0.4 * i) + 0.1 for i in range(nx)])] + spec[1:-1] + [('pf64', [0.0] * (ny + 8))], 'i32', 'resample', ORACLES, f'resample:length:{p1}/{q1}', f'{label}: {st}' + (f', returned {r}' if r is not None else ''), extra={'impulse': None}, timeout=60)

JOBFNS = {'resample_len': job_resample_len, 'conv': job_conv, 'resample': job_resample}

def selftest(st):
    calls = []; rnd = random.Random(3)
    for kind, ip, nh, n1, n2 in [(4, [2], 5, 6, 4), (5, [3], 7, 3, 2), (6, [2, 3], 8, 6, 3), (7, [3, 2], 6, 4, 2), (4, [3], 0, 6, 0), (6, [3, 2], 0, 4, 2)]:
        h = [rnd.uniform(0, 1) for _ in range(nh)]; x = [rnd.uniform(-1, 1) for _ in range(n1 + n2)]; L, M = eff_LM(kind, ip)
        calls.append(('h_conv', [('i32', kind), ('pi32', ip + [0]), ('pf64', h), ('i32', nh), ('pf64', x), ('i32', n1), ('i32', n2), ('pf64', [0.0] * ((n1 + n2) * L))], 'i32'))
    calls.append(('h_resample', [('pf64', [math.sin(i) for i in range(12)]), ('i32', 12), ('i32', 3), ('i32', 1), ('pf64', [0.0] * 60)], 'i32'))
    calls.append(('h_resample', [('pf64', [math.sin(i) for i in range(12)]), ('i32', 12), ('i32', 2), ('i32', 3), ('pf64', [0.0] * 60)], 'i32'))
    selftest_calls(st, HARNESS, calls, max_steps=400_000_000)

def main(tier, seed):
    q = tier == 'quick'; jobs = []; rnd = random.Random(77 + seed)
    def symh(n): a = [round(rnd.uniform(0.1, 1), 6) for _ in range((n + 1) // 2)]; return a + a[:n // 2][::-1]
    LM = range(1, 5) if q else range(1, 9)
    for L in LM:
        for M in LM:
            if math.gcd(L, M) != 1 or (L == 1 and M == 1): continue
            kind = 4 if L == 1 else 5 if M == 1 else 6
            ip = [M] if kind == 4 else [L] if kind == 5 else [L, M]
            for hl in ((2 * max(L, M) + 1, 3 * max(L, M)) if q else (2, 2 * max(L, M) + 1, 3 * max(L, M), 4 * max(L, M) + 2)):
                h = symh(hl); fr = [(3 * M, 0), (M, 3 * M), (2 * M, M, M)]
                jobs.append((f'{KN[kind]} {L}/{M} h{hl}', 'conv', dict(kind=kind, ip=ip, h=h, frames=fr, seed=seed), 1500))
                if hl == 3 * max(L, M): jobs.append((f'FIRResampler {L}/{M} h{hl}', 'conv', dict(kind=7, ip=[2 * L, 2 * M], h=h, frames=fr, seed=seed), 1500))
    # larger coprime ratios (the per-phase branch / offset tables differ in kind from the small ones: more phases than taps per phase, offsets that step by 2 or more), short taps, two framings
    for (L, M) in ([(5, 7), (7, 6), (9, 4), (11, 2), (11, 3), (5, 12), (13, 9), (7, 5)] if q else [(a, b) for a in range(2, 17) for b in range(2, 17) if math.gcd(a, b) == 1 and max(a, b) > 8]):
        jobs.append((f'FIRRateConverter {L}/{M} short h', 'conv', dict(kind=6, ip=[L, M], h=symh(2 * max(L, M) + 1), frames=[(2 * M, 0), (M, M)], seed=seed), 1500))
    # taps whose sum is negative (polarity-inverted low-pass): h normalised to DC gain L means the sign of the sum is kept
    for (kind, ip) in ((4, [3]), (5, [2]), (6, [2, 3]), (7, [4, 6])):
        jobs.append((f'{KN[kind]} negative-sum taps', 'conv', dict(kind=kind, ip=ip, h=[-v for v in symh(9)], frames=[(6, 0), (3, 3)], seed=seed), 1500))
    for (L, M) in ([(1, 2), (2, 1), (3, 2)] if q else [(1, 2), (2, 1), (3, 2), (2, 3), (1, 3), (3, 1), (4, 3)]):
        kind = 4 if L == 1 else 5 if M == 1 else 6; ip = [M] if kind == 4 else [L] if kind == 5 else [L, M]
        jobs.append((f'{KN[kind]} {L}/{M} default', 'conv', dict(kind=kind, ip=ip, h=[], frames=[(2 * M, 0), (M, M)], seed=seed), 3000))
    if not q:
        for (L, M) in [(160, 441), (147, 160), (160, 147)]:
            jobs.append((f'rate converter {L}/{M} short h', 'conv', dict(kind=6, ip=[L, M], h=symh(2 * max(L, M) + 3), frames=[(M, 0)], seed=seed), 6000))
    for (p, q_, nx) in ([(1, 1, 5), (3, 3, 4), (2, 1, 12), (1, 2, 25), (3, 2, 24), (2, 3, 30), (5, 2, 20), (1, 2, 7)] if q else
                        [(1, 1, 5), (3, 3, 4), (2, 1, 12), (3, 1, 10), (1, 2, 25), (1, 3, 40), (3, 2, 24), (2, 3, 30), (5, 2, 20), (4, 3, 30), (3, 4, 40), (1, 2, 7), (2, 3, 31), (6, 4, 24)]):
        jobs.append((f'resample {p}/{q_} nx={nx}', 'resample', dict(p=p, q=q_, nx=nx), 3000))
    for (p, q_) in ([(3, 2), (2, 3), (3, 4), (4, 3), (5, 2), (5, 3), (2, 5)] if q else [(3, 2), (2, 3), (3, 4), (4, 3), (5, 2), (5, 3), (2, 5), (5, 4), (4, 5), (7, 3), (3, 7), (6, 4), (8, 6), (160, 147)]):
        jobs.append((f'resample {p}/{q_} every length', 'resample_len', dict(p=p, q=q_, lens=list(range(1, (2 * q_ + 2) if q_ < 100 else 12)) + [3 * q_ + 1 if q_ < 100 else 150]), 3000))
    jobs.append(('resample 2/1 custom h', 'resample', dict(p=2, q=1, nx=10, h=symh(13)), 1500))
    jobs.sort(key=lambda j: -(len(j[2].get('h') or [0] * 60) + j[2].get('nx', 0)))
    return run_property(PID, tier, HARNESS, jobs, JOBFNS,
        level_text='Each converter is executed with all input samples symbolic (taps concrete: random symmetric, and the default design computed by the real design function); z3 (QF_LRA) '
                   'certifies the code as a fixed matrix, which must equal, at ONE phase shared by all framings, the exact matrix of: insert L-1 zeros, filter with h*L/sum(h), keep every M-th; '
                   'output count len*L/M; frames not a multiple of M end in a throw. resample(): output length, identity for p = q (same terms), impulse-response centroid within one output sample of i*q/p.',
        assumptions=['REAL arithmetic for the data path', 'phase searched over [-|h|-LM, |h|+LM]', 'alignment judged by the energy centroid of impulse responses away from the edges'],
        bounds={'ratios': f'all reduced L/M with L,M <= {LM[-1]} + ' + ('8 larger coprime ratios up to 13' if q else 'every coprime ratio up to 16') + ('' if q else ' + 160/441, 147/160, 160/147 (short h)'), 'taps': '2..4*max(L,M)+2 random symmetric; default design for small ratios', 'frames': 'one call and two calls'},
        outside=['pass-band accuracy of the default design', 'long inputs', 'rounding'], seed=seed, selftest=selftest)

def replay(path): return replay_main(path, ORACLES)
