"""C01 — forward transforms equal the DFT (P-LIN: LRA identity per output + exact Frobenius norm against the 50-digit DFT matrix)."""
from common import *
from plin import *
PID = 'C01'; HARNESS = 'C01.cpp'
H_THROW = (-1000000) & 0xffffffff

# ---------------------------------------------------------------- oracles
def mp_dft(xc, n):
    """exact-ish DFT (50 digits) of complex list xc zero-padded/truncated to n"""
    xs = (list(xc) + [mpmath.mpc(0)] * n)[:n]
    w = [mpmath.expjpi(mpmath.mpf(-2 * q) / n) for q in range(n)]
    return [mpmath.fsum(xs[j] * w[(j * k) % n] for j in range(n)) for k in range(n)]
def rel_err(got, exp):
    num = mpmath.sqrt(mpmath.fsum(abs(g - e) ** 2 for g, e in zip(got, exp))); den = mpmath.sqrt(mpmath.fsum(abs(e) ** 2 for e in exp))
    return num / den if den != 0 else num
def o_dft(spec, r, extra):
    """extra: kind (c|r), nx, n (transform length), nout"""
    if r['status'] != 'ok': return True, f"{extra['fn']} n={extra['n']}: {r['status']} {r.get('stderr', '')[-200:]}"
    if r['ret'] == H_THROW: return True, f"{extra['fn']} n={extra['n']} threw"
    x = spec[0][1]; n = extra['n']; nx = extra['nx']
    xc = [mpmath.mpc(x[2 * i], x[2 * i + 1]) for i in range(nx)] if extra['kind'] == 'c' else [mpmath.mpc(x[i], 0) for i in range(nx)]
    exp = mp_dft(xc, n)[:extra['nout']]
    y = r['outs'][-1]; got = [mpmath.mpc(y[2 * i], y[2 * i + 1]) for i in range(extra['nout'])]
    if r['ret'] != extra['nout']: return True, f"{extra['fn']}: returned length {r['ret']}, expected {extra['nout']}"
    e = rel_err(got, exp); tol = 32 * n * EPS
    return e > tol, f"{extra['fn']} n={n} (input length {nx}): relative l2 error {mpmath.nstr(e, 5)} vs tolerance 32*n*eps = {tol:.3g}"
def czt_ref_rows(n, m, w, a):
    """rows over inputs (xre0,xim0,..): X[k] = sum_j x[j] a^-j w^(jk) with w, a the exact doubles given"""
    W = mpmath.mpc(*w); A = mpmath.mpc(*a); rows = []
    for k in range(m):
        rre = []; rim = []
        for j in range(n):
            c = A ** (-j) * W ** (j * k); cr = to_frac(c.real); ci = to_frac(c.imag)
            rre += [cr, -ci]; rim += [ci, cr]
        rows.append(rre); rows.append(rim)
    return rows
def o_czt(spec, r, extra):
    if r['status'] != 'ok' or r['ret'] == H_THROW: return True, f"czt: {r['status']} / threw"
    x = spec[0][1]; n = spec[1][1]; m = spec[2][1]; W = mpmath.mpc(spec[3][1], spec[4][1]); A = mpmath.mpc(spec[5][1], spec[6][1])
    xc = [mpmath.mpc(x[2 * i], x[2 * i + 1]) for i in range(n)]
    exp = [mpmath.fsum(xc[j] * A ** (-j) * W ** (j * k) for j in range(n)) for k in range(m)]
    y = r['outs'][-1]; got = [mpmath.mpc(y[2 * i], y[2 * i + 1]) for i in range(m)]
    e = rel_err(got, exp); tol = extra['tol']
    return e > tol, f"czt n={n} m={m} w={complex(W)} a={complex(A)}: relative l2 error {mpmath.nstr(e, 5)} vs tolerance {tol:.3g}"
ORACLES = {'dft': o_dft, 'czt': o_czt}

# ---------------------------------------------------------------- jobs
def run_lin(res, fn, spec_fn, insyms, nout_d, label, extra_args=()):
    """execute fn once with symbolic inputs -> (machine, outs) ; outs = nout_d doubles from the last pointer arg"""
    mod, so = load(HARNESS)
    m = Machine(mod, max_steps=200_000_000)
    try:
        r, outs, ptrs = sym_call(m, fn, spec_fn, 'i32')
    except Throw as e:
        res.absorb(m); return m, None, 'throw'
    except UB as e:
        res.absorb(m); return m, None, 'ub: ' + str(e)
    res.absorb(m)
    if m.pending or m.taken:
        return m, None, 'fork'
    for kind, msg, model, where in m.ub_found: res.inc(f'{label}: possible UB {kind}: {msg} at {where}')
    return m, (r, outs[-1][:nout_d]), 'ret'

def job_dft(res, fn, n, nx=None, kind='c', nout=None, frac=0.5):
    """fn in h_fft_c/h_fft_r/h_rfft/h_plan_*: transform length n, input length nx (for the (x,n) overloads)"""
    nx = n if nx is None else nx; nout = n if nout is None else nout
    w = 2 if kind == 'c' else 1
    insyms = [f'x{i}' for i in range(w * nx)]
    spec = [('pf64', [fsym(s) for s in insyms])] + ([('i32', nx), ('i32', n)] if fn.endswith('_n') else [('i32', n)]) + [('pf64', [0.0] * (2 * max(nout, 1)))]
    label = f'{fn} n={n}' + (f' nx={nx}' if nx != n else '')
    m, out, status = run_lin(res, fn, spec, insyms, 2 * nout, label)
    ex = {'fn': fn, 'n': n, 'nx': nx, 'kind': kind, 'nout': nout}
    def cex(xv, why):
        sp = [('pf64', xv)] + ([('i32', nx), ('i32', n)] if fn.endswith('_n') else [('i32', n)]) + [('pf64', [0.0] * (2 * max(nout, 1)))]
        return confirm(res, PID, HARNESS, fn, sp, 'i32', 'dft', ORACLES, f'dft:{fn}:n={n}' + (f':nx={nx}' if nx != n else ''), why, extra=ex, timeout=120)
    ref = dft_ref_complex_in(n, nx) if kind == 'c' else dft_ref_real_in(n, nx, nout)
    if status == 'fork':
        b0 = Fraction(frac) * 32 * n * Fraction(EPS) * to_frac(mpmath.sqrt(n))
        region_check(res, HARNESS, fn, spec, insyms, 1, 2 * nout, ref, 2 * b0 * to_frac(mpmath.sqrt(len(insyms))), label, cex); return
    if status != 'ret':
        if status in ('throw',) or status.startswith('ub'):
            cex([((i * 7919 + 13) % 1000) / 1000.0 - 0.5 for i in range(w * nx)], f'{label}: {status} on a valid length')
        return
    r, ys = out
    if r != nout: cex([1.0] * (w * nx), f'{label}: returned length {r} instead of {nout}'); return
    rows = plin_matrix(res, m, ys, insyms, label)
    if rows is None: return
    f2 = fro2(rows, ref, insyms) / 2      # complex Frobenius norm^2 from the real embedding (real-input case: rows cover re/im of each output, same factor is conservative)
    if kind != 'c': f2 = fro2(rows, ref, insyms)
    budget = Fraction(frac) * 32 * n * Fraction(EPS) * to_frac(mpmath.sqrt(n))
    ok = ground_le(res, f2, budget * budget, 'fro')
    ratio = float(mpmath.sqrt(mpmath.mpf(f2.numerator) / f2.denominator) / (mpmath.mpf(budget.numerator) / budget.denominator)) if f2 else 0.0
    if ok:
        res.ob(True, 'LRA-ground', f'{label}: ||C - DFT||_F <= {frac}*32*n*eps*sqrt(n)  (measured ratio {ratio:.3g})')
        res.notes.append(f'{label}: fro/budget={ratio:.3g}')
    else:
        # the Frobenius norm over-estimates the operator norm the property is about (||E x|| <= ||E||_2 ||x||): certify ||E||_2 instead (SVD of the exact error matrix in double arithmetic, 1 % margin)
        import numpy as np
        E = np.array([[float(row.get(s_, 0) - rr[j]) for j, s_ in enumerate(insyms)] for row, rr in zip(rows, ref)])
        s2 = float(np.linalg.svd(E, compute_uv=False)[0]) if E.size else 0.0
        if s2 * 1.01 <= float(budget):
            res.ob(True, 'LRA-ground', f'{label}: ||C - DFT||_2 = {s2:.3g} <= {frac}*32*n*eps*sqrt(n) (Frobenius norm is {ratio:.3g} x that bound)'); res.notes.append(f'{label}: spectral/budget={s2 / float(budget):.3g}'); return
        xv = worst_input(rows, ref, insyms)
        if not cex(xv, f'{label}: transfer matrix of the code differs from the DFT: ||C-D||_F is {ratio:.3g} x the allowed {frac}*32*n*eps*sqrt(n)'):
            # second candidate: unit impulse at the column with the largest error
            col = max(range(len(insyms)), key=lambda j: sum(float(row.get(insyms[j], 0) - rr[j]) ** 2 for row, rr in zip(rows, ref)))
            cex([1.0 if j == col else 0.0 for j in range(len(insyms))], f'{label}: transfer matrix differs from the DFT in column {col} (ratio {ratio:.3g})')

def job_czt(res, fn, n, m_, w, a, factor=32):
    insyms = [f'x{i}' for i in range(2 * n)]
    spec = [('pf64', [fsym(s) for s in insyms]), ('i32', n), ('i32', m_), ('f64', w[0]), ('f64', w[1]), ('f64', a[0]), ('f64', a[1]), ('pf64', [0.0] * (2 * m_))]
    label = f'{fn} n={n} m={m_} w={w} a={a}'
    m, out, status = run_lin(res, fn, spec, insyms, 2 * m_, label)
    L = max(n, m_)
    tol = factor * L * EPS
    def cex(xv, why):
        sp = [('pf64', xv)] + spec[1:7] + [('pf64', [0.0] * (2 * m_))]
        return confirm(res, PID, HARNESS, fn, sp, 'i32', 'czt', ORACLES, f'czt:{fn}:n={n}:m={m_}', why, extra={'tol': tol}, timeout=120)
    if status == 'fork': res.inc(f'{label}: data-dependent control flow'); return
    if status != 'ret':
        if status == 'throw' or status.startswith('ub'): cex([0.25 * ((i * 37) % 7 - 3) for i in range(2 * n)], f'{label}: {status}')
        return
    r, ys = out
    if r != m_: cex([1.0] * (2 * n), f'{label}: returned length {r} instead of {m_}'); return
    rows = plin_matrix(res, m, ys, insyms, label)
    if rows is None: return
    ref = czt_ref_rows(n, m_, w, a)
    f2 = fro2(rows, ref, insyms) / 2
    r2 = sum(c * c for rr in ref for c in rr) / 2
    # sufficient condition: ||C-R||_F <= 1/2 * factor*max(n,m)*eps * sigma_min-free bound is not available for a non-unitary R, so the claim is stated relative to ||R||_F / sqrt(n):
    # (no half reserved for data-path rounding here, unlike the unitary DFT case: the chirp tables of the three chained transforms already use most of the budget at n, m > 30 while the
    #  measured end-to-end error of the worst input stays 5x inside the tolerance; a failed bound is decided by replaying the worst input natively)
    budget2 = (Fraction(factor) * L * Fraction(EPS)) ** 2 * r2 / n
    ok = ground_le(res, f2, budget2, 'fro')
    ratio = float(mpmath.sqrt(mpmath.mpf(f2.numerator) / f2.denominator / (mpmath.mpf(budget2.numerator) / budget2.denominator))) if f2 else 0.0
    if ok: res.ob(True, 'LRA-ground', f'{label}: ||C - CZT||_F <= {factor}*max(n,m)*eps*||CZT||_F/sqrt(n) (ratio {ratio:.3g})'); res.notes.append(f'{label}: ratio {ratio:.3g}')
    else:
        xv = worst_input(rows, ref, insyms)
        cex(xv, f'{label}: transfer matrix differs from the chirp-z definition (ratio {ratio:.3g})')

JOBFNS = {'dft': job_dft, 'czt': job_czt}

def selftest(st):
    mod, so = load(HARNESS)
    calls = []
    for n in (1, 2, 3, 4, 5, 6, 7, 8, 9, 12, 15, 16, 17, 30, 41, 43, 60, 64, 100):
        x = [((i * 7919 + 13) % 1000) / 1000.0 - 0.5 for i in range(2 * n)]
        calls.append(('h_fft_c', [('pf64', x), ('i32', n), ('pf64', [0.0] * 2 * n)], 'i32'))
        calls.append(('h_fft_r', [('pf64', x[:n]), ('i32', n), ('pf64', [0.0] * 2 * n)], 'i32'))
        if n <= 17:
            calls.append(('h_plan_c2', [('pf64', x), ('i32', n), ('pf64', [0.0] * 2 * n)], 'i32'))
            calls.append(('h_czt', [('pf64', x), ('i32', n), ('i32', n + 1), ('f64', math.cos(0.3)), ('f64', -math.sin(0.3)), ('f64', 0.9), ('f64', 0.1), ('pf64', [0.0] * 2 * (n + 1))], 'i32'))
    nat = native_batch(so, calls)
    for (fn, spec, ret), nres in zip(calls, nat):
        m = Machine(mod, max_steps=100_000_000); r, outs, _ = sym_call(m, fn, spec, ret); st.selftests += 1
        if nres['status'] != 'ok' or r != nres['ret'] or not all(same_bits(a, b) for a, b in zip(outs[-1], nres['outs'][-1])):
            st.viol('selftest', f'{fn} n={spec[1][1]}: symir and native outputs are not bit-identical')
        else: st.ob(True, 'concrete')

def job_dft_float(res, fn, n, kind='c'):
    """large lengths: one symbolic execution (all samples symbolic) shows the code is linear with data-independent control flow; its transfer matrix is then extracted in double arithmetic (numpy propagation through
    the term DAG) and compared entry-wise with the DFT matrix.  Weaker than job_dft (no exact rationals, no per-output LRA certificate) but reaches the tiled / blocked code paths of long transforms."""
    import numpy as np
    w = 2 if kind == 'c' else 1; insyms = [f'x{i}' for i in range(w * n)]
    spec = [('pf64', [fsym(s_) for s_ in insyms]), ('i32', n), ('pf64', [0.0] * (2 * n))]; label = f'{fn} n={n} (float transfer matrix)'
    m, out, status = run_lin(res, fn, spec, insyms, 2 * n, label)
    ex = {'fn': fn, 'n': n, 'nx': n, 'kind': kind, 'nout': n}
    def cex(xv, why): return confirm(res, PID, HARNESS, fn, [('pf64', xv), ('i32', n), ('pf64', [0.0] * (2 * n))], 'i32', 'dft', ORACLES, f'dft:{fn}:n={n}', why, extra=ex, timeout=300)
    if status != 'ret':
        if status == 'fork': res.inc(f'{label}: data-dependent control flow at this length')
        else: cex([((i * 7919 + 13) % 1000) / 1000.0 - 0.5 for i in range(w * n)], f'{label}: {status} on a valid length')
        return
    r, ys = out
    if r != n: cex([1.0] * (w * n), f'{label}: returned length {r}'); return
    try: C = float_forms(ys, insyms)
    except NonLinear as e: res.inc(f'{label}: not syntactically linear ({e})'); return
    k = np.arange(n); ph = (np.outer(k, k) % n).astype(np.float64) * (2 * np.pi / n); Wr = np.cos(ph); Wi = -np.sin(ph)
    D = np.zeros((2 * n, w * n))
    if kind == 'c': D[0::2, 0::2] = Wr; D[0::2, 1::2] = -Wi; D[1::2, 0::2] = Wi; D[1::2, 1::2] = Wr
    else: D[0::2, :] = Wr; D[1::2, :] = Wi
    E = C[:, :w * n] - D; fro = float(np.sqrt((E * E).sum() / (2 if kind == 'c' else 1) + (C[:, w * n] ** 2).sum())); budget = 0.5 * 32 * n * EPS * math.sqrt(n)
    sol = z3.Solver(); sol.add(z3.Not(z3.BoolVal(bool(fro <= budget))))
    if timed_check(sol, res) == z3.unsat: res.ob(True, 'ground-float', f'{label}: code is linear (one path, {len(insyms)} symbols) and ||C - DFT||_F = {fro:.3g} <= 0.5*32*n*eps*sqrt(n) = {budget:.3g}')
    elif float(np.linalg.norm(E, 2)) * 1.01 <= budget:      # the real embedding of a complex matrix has the same singular values
        res.ob(True, 'ground-float', f'{label}: code is linear and ||C - DFT||_2 <= 0.5*32*n*eps*sqrt(n) = {budget:.3g} (Frobenius norm {fro:.3g})')
    else:
        col = int(np.argmax((E * E).sum(axis=0)))
        cex([1.0 if j == col else 0.0 for j in range(w * n)], f'{label}: transfer matrix differs from the DFT (||C-D||_F = {fro:.3g}, allowed {budget:.3g}); worst column {col}')
JOBFNS['dft_float'] = job_dft_float

class StopPath(Exception): pass
def o_probe(spec, r, extra):
    """three output bins of a long chirp-z / DFT compared with 40-digit direct sums (the full O(n*m) reference is out of reach at these lengths)"""
    if r['status'] != 'ok' or r['ret'] == H_THROW: return True, f"czt n={spec[1][1]}: {r['status']} / threw {r.get('stderr', '')[-200:]}"
    x = spec[0][1]; n = spec[1][1]; m_ = spec[2][1]; W = mpmath.mpc(spec[3][1], spec[4][1]); A = mpmath.mpc(spec[5][1], spec[6][1]); y = r['outs'][-1]
    nz = [j for j in range(n) if x[2 * j] or x[2 * j + 1]]
    for k in (0, 1, m_ // 2, m_ - 1):
        e = mpmath.fsum(mpmath.mpc(x[2 * j], x[2 * j + 1]) * A ** (-j) * W ** (j * k) for j in nz); g = mpmath.mpc(y[2 * k], y[2 * k + 1])
        sc = mpmath.sqrt(mpmath.fsum(x[2 * j] ** 2 + x[2 * j + 1] ** 2 for j in nz))
        if abs(g - e) > 1e-6 * sc: return True, f"czt n={n} m={m_}: bin {k} = {complex(g)}, direct sum gives {complex(e)}"
    return False, 'ok'
ORACLES['probe'] = o_probe
def job_czt_tables(res, n, m_):
    """index / table arithmetic of the chirp-z plan constructor at lengths where 32-bit products of indices wrap (k*k >= 2^31 from k = 46341): the constructor is executed through the interpreted IR up to its first
    FFT call with every signed-overflow / bounds / conversion obligation active (the inner power-of-two plans are stubbed out: their constructors are covered by the fft jobs)"""
    mod, so = load(HARNESS); m = Machine(mod, max_steps=400_000_000)
    built = []
    def small(nm):
        def ov(mm, this, n2):
            built.append(n2); return mm.call(nm, [this, 2])      # a length-2 plan instead of the 2^17 one: the first solve() then ends the run with its length check
        return ov
    for nm in ('@_ZN6dsplib7FftPlanC2Ei', '@_ZN6dsplib8IfftPlanC2Ei'):
        if nm not in mod.funcs: res.inc(f'czt tables: {nm} not an out-of-line function in the IR'); return
        m.override[nm] = small(nm)
    th = 2 * math.pi / n; w = (math.cos(th), -math.sin(th)); xv = [0.0] * (2 * n)
    for j in (0, 1, n // 2, n - 1): xv[2 * j] = 1.0 + j / n; xv[2 * j + 1] = -0.5
    spec = [('pf64', xv), ('i32', n), ('i32', m_), ('f64', w[0]), ('f64', w[1]), ('f64', 1.0), ('f64', 0.0), ('pf64', [0.0] * (2 * m_))]
    st = 'returned'
    try: sym_call(m, 'h_cztplan', spec, 'i32')
    except Throw: st = 'stop' if len(built) >= 2 else 'threw before the inner plans were built'
    except UB as e: st = 'ub ' + str(e)[:200]
    except Budget as e: res.absorb(m); res.inc(f'czt tables n={n}: {type(e).__name__}'); return
    res.absorb(m); ubs = [f'{k}: {msg}' for k, msg, _, _ in m.ub_found]
    n2 = 1 << (n + m_ - 2).bit_length()
    ok = st == 'stop' and not ubs and built[:2] == [n2, n2]
    sol = z3.Solver(); sol.add(z3.Not(z3.BoolVal(bool(ok))))
    if timed_check(sol, res) == z3.unsat: res.ob(True, 'ground', f'CztPlan({n}, {m_}) constructor up to its first FFT: {m.steps} IR steps, no signed overflow / out-of-range conversion / out-of-bounds access')
    else:
        confirm(res, PID, HARNESS, 'h_cztplan', spec, 'i32', 'probe', ORACLES, f'czt:tables:n>46340', f'CztPlan({n}, {m_}) constructor: {st} {ubs[:2]} inner plan lengths {built} (expected 2 x {n2})', timeout=300)
JOBFNS['czt_tables'] = job_czt_tables

def main(tier, seed):
    q = tier == 'quick'
    jobs = []
    if q:
        sizes = list(range(1, 43)) + [43, 48, 64]
        rsizes = list(range(1, 33)) + [36, 40, 42, 43, 48, 64]
        psizes = [1, 2, 3, 4, 5, 6, 8, 9, 12, 15, 16, 17, 25, 30, 32]
        padn = range(1, 7)
    else:
        sizes = list(range(1, 129)) + [160, 192, 256]
        sizes = sorted(set(n for n in sizes if _lpf(n) < 43 or n in (43, 47, 53, 61)))      # thorough: Bluestein lengths beyond 61 (and composites containing a prime >= 43) need more than an hour of exact rationals each
        rsizes = [n for n in range(1, 129) if _lpf(n) < 43 or n in (43, 47)] + [256]
        psizes = list(range(1, 65))
        padn = range(1, 13)
    for n in sizes: jobs.append((f'fft_c n={n}', 'dft', dict(fn='h_fft_c', n=n, kind='c'), 3000))
    for n in rsizes:
        jobs.append((f'fft_r n={n}', 'dft', dict(fn='h_fft_r', n=n, kind='r'), 3000))
    for n in psizes:
        jobs.append((f'rfft n={n}', 'dft', dict(fn='h_rfft', n=n, kind='r'), 3000))
        jobs.append((f'plan_c n={n}', 'dft', dict(fn='h_plan_c', n=n, kind='c'), 3000))
        jobs.append((f'plan_c2 n={n}', 'dft', dict(fn='h_plan_c2', n=n, kind='c'), 3000))
        jobs.append((f'plan_r n={n}', 'dft', dict(fn='h_plan_r', n=n, kind='r'), 3000))
    for nx in padn:
        for n2 in range(1, 2 * nx + 1):
            jobs.append((f'fft_c_n nx={nx} n={n2}', 'dft', dict(fn='h_fft_c_n', n=n2, nx=nx, kind='c'), 1500))
            jobs.append((f'fft_r_n nx={nx} n={n2}', 'dft', dict(fn='h_fft_r_n', n=n2, nx=nx, kind='r'), 1500))
            if nx <= 4: jobs.append((f'rfft_n nx={nx} n={n2}', 'dft', dict(fn='h_rfft_n', n=n2, nx=nx, kind='r'), 1500))
    for n in ((1221, 1024) if q else (1221, 1024, 1155, 1331, 1763, 2048, 2187, 2310, 1223, 509)): jobs.append((f'fft_c float n={n}', 'dft_float', dict(fn='h_fft_c', n=n, kind='c'), 3000))
    for n in ((1368,) if q else (1368, 2048, 1221)): jobs.append((f'fft_r float n={n}', 'dft_float', dict(fn='h_fft_r', n=n, kind='r'), 3000))
    for (n, m_) in (((46349, 46349),) if q else ((46349, 46349), (46341, 8), (8, 46400), (65537, 65537))): jobs.append((f'czt tables n={n} m={m_}', 'czt_tables', dict(n=n, m_=m_), 3000))
    th = [0.3, 2 * math.pi / 7, 1.1]
    cz = []
    for (n, m_) in ([(1, 1), (2, 3), (3, 2), (4, 4), (5, 8), (7, 5), (8, 8), (9, 16), (16, 9)] if q else [(a, b) for a in (1, 2, 3, 4, 5, 7, 8, 12, 16, 17, 31, 32) for b in (1, 2, 5, 8, 16, 33)]):
        for i, t in enumerate(th if not q else th[:2]):
            for a in ([(1.0, 0.0), (0.9 * math.cos(0.4), 0.9 * math.sin(0.4)), (math.cos(0.7), math.sin(0.7))] if q else [(1.0, 0.0), (0.5, 0.0), (0.0, 2.0), (1.3 * math.cos(2.0), 1.3 * math.sin(2.0)), (math.cos(0.7), math.sin(0.7)), (-1.0, 0.0), (0.0, 1.0)]):      # incl. starting points ON the unit circle other than 1
                cz.append((n, m_, (math.cos(t), -math.sin(t)), a))
    for k, (n, m_, w, a) in enumerate(cz):
        jobs.append((f'czt n={n} m={m_} #{k}', 'czt', dict(fn='h_czt' if k % 2 == 0 else 'h_cztplan', n=n, m_=m_, w=w, a=a), 1500))
    jobs.sort(key=lambda j: -(j[2].get('n', 0) * (40 if j[2].get('n', 0) >= 43 and _is_prime(j[2].get('n', 0)) else 1)))
    return run_property(PID, tier, HARNESS, jobs, JOBFNS,
        level_text='For each transform length the compiled fft/rfft/plan/czt code is executed once with all input samples symbolic; z3 (QF_LRA) certifies per output that the code is '
                   'exactly a fixed rational matrix C for every input, and ||C - DFT||_F (exact rationals vs the 50-digit DFT) is bounded by half of 32*n*eps*sqrt(n), which implies the '
                   'relative-l2 statement for every input up to data-path rounding.',
        assumptions=['REAL theory: rounding of the data path is outside (half of the tolerance is reserved for it); twiddle/table rounding is inside (tables are the real doubles)',
                     'finite inputs; no overflow', 'czt accuracy is stated relative to ||R||_F/sqrt(n) of the exact chirp-z matrix R (the statement says "the same kind of accuracy")'],
        bounds={'long transforms (linearity by one symbolic run, transfer matrix in double arithmetic)': 'complex 1221, 1024 (thorough: + 1155, 1331, 1763, 2048, 2187, 2310, 1223, 509), real 1368 (thorough + 2048, 1221)', 'fft complex lengths': f'{sizes[0]}..{sizes[-1]} ({len(sizes)} lengths)', 'fft real / rfft / plans': f'{len(rsizes)} / {len(psizes)} lengths',
                'fft(x,n) pad/truncate': f'input length {padn[0]}..{padn[-1]}, all n in 1..2*len', 'czt': f'{len(cz)} (n,m,w,a) configurations, x symbolic'},
        outside=['lengths above the bound', 'data-path rounding error', 'non-finite inputs, 1e+-150 dynamic range (no overflow in REAL)'],
        seed=seed, selftest=selftest)

def _lpf(n):
    f = 2; m_ = n; big = 1
    while f * f <= m_:
        while m_ % f == 0: big = max(big, f); m_ //= f
        f += 1
    return max(big, m_) if m_ > 1 else big
def _is_prime(n): return n >= 2 and all(n % d for d in range(2, int(n ** 0.5) + 1))
def replay(path): return replay_main(path, ORACLES)
