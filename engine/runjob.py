"""debug helper: run one job function in-process: runjob.py <prop> <jobfn> key=val ..."""
import sys, os, time, importlib
sys.path.insert(0, os.path.dirname(os.path.abspath(__file__)))
sys.path.insert(0, os.path.join(os.path.dirname(os.path.dirname(os.path.abspath(__file__))), 'props'))
sys.setrecursionlimit(100000)
from common import *
mod = importlib.import_module(sys.argv[1])
kw = {}
for a in sys.argv[3:]:
    k, v = a.split('=', 1)
    try: v = eval(v)
    except Exception: pass
    kw[k] = v
res = Res('dbg'); t0 = time.time()
mod.JOBFNS[sys.argv[2]](res, **kw)
print(f'obligations {res.obligations} discharged {res.discharged} paths {res.paths} steps {res.steps} queries {res.queries} solver {res.solver_s:.1f}s wall {time.time()-t0:.1f}s')
for x in res.inconclusive[:10]: print('INCONCLUSIVE', x[:1500])
for v in res.violations[:10]: print('VIOL', v['key'], v['what'][:600], v['replay'])
for n in res.notes[:10]: print('NOTE', n[:400])
