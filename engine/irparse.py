"""Prototype LLVM-14 textual IR parser (typed pointers). Throwaway feasibility probe."""
import re, struct
from fractions import Fraction

# ---------------------------------------------------------------- types
class Ty:
    pass
class IntTy(Ty):
    def __init__(s, w): s.w = w
    def __repr__(s): return f"i{s.w}"
class FloatTy(Ty):
    def __init__(s, k): s.k = k  # 'float','double','x86_fp80'
    def __repr__(s): return s.k
class PtrTy(Ty):
    def __init__(s, to): s.to = to
    def __repr__(s): return f"{s.to}*"
class ArrTy(Ty):
    def __init__(s, n, el): s.n = n; s.el = el
    def __repr__(s): return f"[{s.n} x {s.el}]"
class StructTy(Ty):
    def __init__(s, els, packed=False, name=None): s.els = els; s.packed = packed; s.name = name; s._lay = None
    def __repr__(s): return s.name or ("{" + ",".join(map(repr, s.els or [])) + "}")
class FnTy(Ty):
    def __init__(s, ret, args, va): s.ret = ret; s.args = args; s.va = va
    def __repr__(s): return f"{s.ret}(...)"
class VoidTy(Ty):
    def __repr__(s): return "void"
class OtherTy(Ty):
    def __init__(s, k): s.k = k
    def __repr__(s): return s.k
VOID = VoidTy()
_int_cache = {}
def IT(w):
    if w not in _int_cache: _int_cache[w] = IntTy(w)
    return _int_cache[w]
DOUBLE = FloatTy('double'); FLOAT = FloatTy('float'); FP80 = FloatTy('x86_fp80')

def sizeof(t):
    if isinstance(t, IntTy): return max(1, (t.w + 7) // 8) if t.w not in (1,) else 1
    if isinstance(t, FloatTy): return {'float': 4, 'double': 8, 'x86_fp80': 16}[t.k]
    if isinstance(t, PtrTy): return 8
    if isinstance(t, ArrTy): return t.n * sizeof(t.el)
    if isinstance(t, StructTy): return layout(t)[1]
    raise ValueError(f"sizeof {t}")
def alignof(t):
    if isinstance(t, IntTy):
        s = sizeof(t);
        a = 1
        while a < s: a *= 2
        return min(a, 8) if t.w <= 64 else 16
    if isinstance(t, FloatTy): return {'float': 4, 'double': 8, 'x86_fp80': 16}[t.k]
    if isinstance(t, PtrTy): return 8
    if isinstance(t, ArrTy): return alignof(t.el)
    if isinstance(t, StructTy):
        if t.packed: return 1
        return max([alignof(e) for e in t.els] + [1])
    raise ValueError(f"alignof {t}")
def layout(t):
    if t._lay is None:
        offs = []; o = 0
        for e in t.els:
            if not t.packed:
                a = alignof(e); o = (o + a - 1) // a * a
            offs.append(o); o += sizeof(e)
        if not t.packed:
            a = alignof(t); o = (o + a - 1) // a * a
        t._lay = (offs, o)
    return t._lay

# ---------------------------------------------------------------- tokenizer
TOK = re.compile(r'''\s*(?:
  (?P<str>c?"(?:[^"\\]|\\.)*") |
  (?P<local>%(?:"(?:[^"\\]|\\.)*"|[-a-zA-Z$._0-9]+)) |
  (?P<glob>@(?:"(?:[^"\\]|\\.)*"|[-a-zA-Z$._0-9]+)) |
  (?P<meta>!(?:[-a-zA-Z$._0-9]*|\{[^}]*\})) |
  (?P<attr>\#\d+) |
  (?P<hex>0x[KMLHR]?[0-9A-Fa-f]+) |
  (?P<num>-?\d+\.\d*(?:[eE][-+]?\d+)?|-?\d+) |
  (?P<dots>\.\.\.) |
  (?P<word>[a-zA-Z_][a-zA-Z_0-9.]*) |
  (?P<p>[()\[\]{}<>,=*:])
)''', re.X)

def tokenize(s):
    out = []; i = 0; n = len(s)
    while i < n:
        m = TOK.match(s, i)
        if not m:
            if s[i:].strip() == '' : break
            if s[i:].lstrip().startswith(';'): break
            raise SyntaxError(f"tok at {s[i:i+40]!r} in {s!r}")
        i = m.end()
        k = m.lastgroup; out.append((k, m.group(k)))
    return out

class Module:
    def __init__(s):
        s.types = {}; s.globals = {}; s.funcs = {}; s.decls = {}; s.aliases = {}; s.ctors = []

class P:
    """token cursor with type/value parsing"""
    def __init__(s, mod, toks): s.m = mod; s.t = toks; s.i = 0
    def peek(s, k=0): return s.t[s.i + k] if s.i + k < len(s.t) else (None, None)
    def next(s): x = s.t[s.i]; s.i += 1; return x
    def accept(s, v):
        if s.i < len(s.t) and s.t[s.i][1] == v: s.i += 1; return True
        return False
    def expect(s, v):
        x = s.next()
        if x[1] != v: raise SyntaxError(f"expected {v} got {x} in {s.t}")
    def eof(s): return s.i >= len(s.t)

    def ty(s):
        k, v = s.next()
        if k == 'word':
            if v == 'void': t = VOID
            elif v[0] == 'i' and v[1:].isdigit(): t = IT(int(v[1:]))
            elif v == 'double': t = DOUBLE
            elif v == 'float': t = FLOAT
            elif v == 'x86_fp80': t = FP80
            elif v in ('label', 'metadata', 'token', 'opaque', 'half', 'fp128'): t = OtherTy(v)
            else: raise SyntaxError(f"type word {v}")
        elif k == 'local':
            t = s.m.types.setdefault(v, StructTy(None, False, v))
        elif v == '[':
            n = int(s.next()[1]); s.expect('x'); el = s.ty(); s.expect(']'); t = ArrTy(n, el)
        elif v == '{':
            els = []
            if not s.accept('}'):
                while True:
                    els.append(s.ty())
                    if s.accept('}'): break
                    s.expect(',')
            t = StructTy(els)
        elif v == '<':
            if s.accept('{'):
                els = []
                if not s.accept('}'):
                    while True:
                        els.append(s.ty())
                        if s.accept('}'): break
                        s.expect(',')
                s.expect('>'); t = StructTy(els, True)
            else:
                raise SyntaxError("vector type unsupported")
        else:
            raise SyntaxError(f"type tok {k} {v}")
        while True:
            if s.accept('*'): t = PtrTy(t)
            elif s.peek()[1] == '(' and not isinstance(t, OtherTy):
                # function type
                s.next(); args = []; va = False
                if not s.accept(')'):
                    while True:
                        if s.accept('...'): va = True
                        else: args.append(s.ty())
                        if s.accept(')'): break
                        s.expect(',')
                t = FnTy(t, args, va)
            elif s.peek()[1] == 'addrspace': raise SyntaxError('addrspace')
            else: break
        return t

    PARAM_ATTRS = {'noundef','nonnull','noalias','nocapture','readonly','readnone','writeonly','signext','zeroext','returned',
                   'inreg','nest','immarg','nofree','swiftself','noescape'}
    def skip_param_attrs(s):
        while True:
            k, v = s.peek()
            if k == 'word' and v in P.PARAM_ATTRS: s.next()
            elif k == 'word' and v in ('align', 'dereferenceable', 'dereferenceable_or_null'):
                s.next()
                if s.accept('('): s.next(); s.expect(')')
                else: s.next()
            elif k == 'word' and v in ('sret', 'byval', 'byref', 'inalloca', 'preallocated', 'elementtype'):
                s.next(); s.expect('('); s.ty(); s.expect(')')
            else: break

    def val(s, t):
        """parse a value of (already parsed) type t -> operand tuple"""
        k, v = s.next()
        if k == 'local': return ('l', v)
        if k == 'glob': return ('g', v)
        if k == 'meta': return ('meta',)
        if k == 'num':
            if isinstance(t, FloatTy): return ('c', float(v))
            return ('c', int(v) & ((1 << t.w) - 1)) if isinstance(t, IntTy) else ('c', int(v))
        if k == 'hex':
            if v.startswith('0xK'):
                return ('c', ('fp80', int(v[3:], 16)))
            bits = int(v, 16)
            d = struct.unpack('<d', struct.pack('<Q', bits))[0]
            if isinstance(t, FloatTy) and t.k == 'float': return ('c', d)
            return ('c', d)
        if k == 'word':
            if v == 'true': return ('c', 1)
            if v == 'false': return ('c', 0)
            if v == 'null': return ('null',)
            if v in ('undef', 'poison'): return ('undef', t)
            if v == 'zeroinitializer': return ('zero', t)
            if v in ('getelementptr',):
                inb = s.accept('inbounds'); s.expect('(')
                bt = s.ty(); s.expect(','); pt = s.ty(); base = s.val(pt); idx = []
                while s.accept(','):
                    s.accept('inrange'); it = s.ty(); idx.append((it, s.val(it)))
                s.expect(')')
                return ('cgep', bt, base, idx)
            if v in ('bitcast', 'ptrtoint', 'inttoptr', 'trunc', 'zext', 'sext', 'addrspacecast'):
                s.expect('('); ft = s.ty(); x = s.val(ft); s.expect('to'); tt = s.ty(); s.expect(')')
                return ('ccast', v, ft, x, tt)
            if v in ('add', 'sub', 'mul', 'and', 'or', 'xor', 'shl', 'lshr', 'ashr'):
                while s.peek()[1] in ('nsw', 'nuw', 'exact'): s.next()
                s.expect('('); t1 = s.ty(); a = s.val(t1); s.expect(','); t2 = s.ty(); b = s.val(t2); s.expect(')')
                return ('cbin', v, t1, a, b)
            if v == 'icmp':
                pred = s.next()[1]; s.expect('('); t1 = s.ty(); a = s.val(t1); s.expect(','); t2 = s.ty(); b = s.val(t2); s.expect(')')
                return ('cicmp', pred, t1, a, b)
            raise SyntaxError(f"value word {v}")
        if k == 'str':
            body = v[2:-1]; out = bytearray(); i = 0
            while i < len(body):
                if body[i] == '\\':
                    if body[i+1] == '\\': out.append(92); i += 2
                    else: out.append(int(body[i+1:i+3], 16)); i += 3
                else: out.append(ord(body[i])); i += 1
            return ('bytes', bytes(out))
        if v == '{' or v == '[' or v == '<':
            close = {'{': '}', '[': ']', '<': '>'}[v]
            packed = False
            if v == '<' and s.accept('{'): close = '}'; packed = True
            els = []
            if not s.accept(close):
                while True:
                    et = s.ty(); els.append((et, s.val(et)))
                    if s.accept(close): break
                    s.expect(',')
            if packed: s.expect('>')
            return ('agg', els)
        raise SyntaxError(f"value tok {k} {v}")

    def tyval(s):
        t = s.ty(); s.skip_param_attrs(); return t, s.val(t)

# ---------------------------------------------------------------- module parsing
LINKAGE = {'private','internal','available_externally','linkonce','weak','common','appending','extern_weak','linkonce_odr','weak_odr','external',
           'dso_local','dso_preemptable','default','hidden','protected','unnamed_addr','local_unnamed_addr','externally_initialized'}

class Func:
    def __init__(s, name, ret, params, va): s.name = name; s.ret = ret; s.params = params; s.va = va; s.blocks = {}; s.order = []; s.entry = None
class Instr:
    __slots__ = ('op', 'dst', 'a', 'line')
    def __init__(s, op, dst, a, line): s.op = op; s.dst = dst; s.a = a; s.line = line

def parse_header(mod, line, is_def):
    toks = tokenize(line); p = P(mod, toks); p.next()  # define/declare
    while p.peek()[0] == 'word' and (p.peek()[1] in LINKAGE or p.peek()[1] in ('fastcc', 'ccc', 'coldcc', 'noundef', 'nonnull', 'noalias', 'signext', 'zeroext')):
        p.next()
    p.skip_param_attrs()
    # return type: parse carefully, fn-type suffix must not swallow the parameter list -> parse type then detect
    ret = parse_ret_type(p)
    name = p.next()[1]
    p.expect('('); params = []; va = False
    if not p.accept(')'):
        while True:
            if p.accept('...'): va = True
            else:
                t = p.ty(); p.skip_param_attrs()
                nm = None
                if p.peek()[0] == 'local': nm = p.next()[1]
                params.append((t, nm))
            if p.accept(')'): break
            p.expect(',')
    return Func(name, ret, params, va)

def parse_ret_type(p):
    # type without trailing function-type application
    save = p.t; i0 = p.i
    # find the '@name' token position: return type ends right before it
    j = p.i
    while p.t[j][0] != 'glob': j += 1
    sub = P(p.m, p.t[p.i:j]); t = sub.ty()
    assert sub.eof(), (p.t[p.i:j])
    p.i = j
    return t

def parse_module(text):
    mod = Module()
    lines = text.split('\n')
    # pass 1: named types
    for ln in lines:
        if ln.startswith('%') and ' = type ' in ln:
            name, rhs = ln.split(' = type ', 1)
            name = name.strip()
            st = mod.types.setdefault(name, StructTy(None, False, name))
            if rhs.strip() == 'opaque': continue
            p = P(mod, tokenize(rhs)); t = p.ty()
            st.els = t.els; st.packed = t.packed
    i = 0; n = len(lines)
    while i < n:
        ln = lines[i]
        if ln.startswith('@'):
            parse_global(mod, ln)
        elif ln.startswith('declare'):
            f = parse_header(mod, ln, False); mod.decls[f.name] = f
        elif ln.startswith('define'):
            f = parse_header(mod, ln.rsplit('{', 1)[0], True)
            i += 1; cur = None; first = True; nparams = len(f.params)
            # unnamed params get %0.. numbering
            k = 0; ps = []
            for (t, nm) in f.params:
                if nm is None: nm = f'%{k}'; k += 1
                elif nm[1:].isdigit(): k = int(nm[1:]) + 1
                ps.append((t, nm))
            f.params = ps
            entry_label = f'%{k}'
            while lines[i] != '}':
                l = lines[i]; i += 1
                if not l.strip(): continue
                if l[0] not in ' \t':
                    lab = l.split(':', 1)[0].strip()
                    cur = '%' + lab; f.blocks[cur] = []; f.order.append(cur)
                    if f.entry is None: f.entry = cur
                    continue
                if cur is None:
                    cur = entry_label; f.blocks[cur] = []; f.order.append(cur); f.entry = cur
                # continuation lines for invoke / switch
                s = l.strip()
                if s.startswith(';'): continue
                while i < n and (lines[i].startswith('          ') or (s.endswith('[') or (s.count('[') > s.count(']') and 'switch' in s))):
                    if lines[i].strip() == '': break
                    s += ' ' + lines[i].strip(); i += 1
                    if s.endswith(']') and 'switch' in s: break
                f.blocks[cur].append(parse_instr(mod, s))
            mod.funcs[f.name] = f
        i += 1
    return mod

def parse_global(mod, ln):
    toks = tokenize(ln); p = P(mod, toks)
    name = p.next()[1]; p.expect('=')
    tl = False
    while True:
        k, v = p.peek()
        if k == 'word' and v in LINKAGE: p.next()
        elif k == 'word' and v == 'thread_local':
            p.next(); tl = True
            if p.accept('('): p.next(); p.expect(')')
        else: break
    k, v = p.next()
    if v == 'alias':
        t = p.ty(); p.expect(','); t2 = p.ty(); tgt = p.val(t2)
        mod.aliases[name] = tgt; return
    if v == 'ifunc': return
    assert v in ('global', 'constant'), ln
    t = p.ty()
    init = None
    if not p.eof() and p.peek()[1] != ',':
        init = p.val(t)
    mod.globals[name] = (t, init, v == 'constant', tl)

FAST = {'fast','nnan','ninf','nsz','arcp','contract','afn','reassoc'}
def parse_instr(mod, s):
    toks = tokenize(s)
    # strip trailing metadata: ", !tbaa !12" etc.
    for j, (k, v) in enumerate(toks):
        if k == 'meta' and j > 0 and toks[j-1][1] == ',':
            toks = toks[:j-1]; break
    p = P(mod, toks); dst = None
    if p.peek()[0] == 'local' and p.peek(1)[1] == '=':
        dst = p.next()[1]; p.next()
    op = p.next()[1]
    if op in ('tail', 'musttail', 'notail'): op = p.next()[1]
    a = None
    if op in ('add','sub','mul','udiv','sdiv','urem','srem','shl','lshr','ashr','and','or','xor'):
        flags = set()
        while p.peek()[1] in ('nsw', 'nuw', 'exact'): flags.add(p.next()[1])
        t = p.ty(); x = p.val(t); p.expect(','); y = p.val(t); a = (t, x, y, flags)
    elif op in ('fadd','fsub','fmul','fdiv','frem'):
        while p.peek()[1] in FAST: p.next()
        t = p.ty(); x = p.val(t); p.expect(','); y = p.val(t); a = (t, x, y)
    elif op == 'fneg':
        while p.peek()[1] in FAST: p.next()
        t = p.ty(); a = (t, p.val(t))
    elif op == 'icmp':
        pred = p.next()[1]; t = p.ty(); x = p.val(t); p.expect(','); y = p.val(t); a = (pred, t, x, y)
    elif op == 'fcmp':
        while p.peek()[1] in FAST: p.next()
        pred = p.next()[1]; t = p.ty(); x = p.val(t); p.expect(','); y = p.val(t); a = (pred, t, x, y)
    elif op in ('trunc','zext','sext','fptrunc','fpext','fptoui','fptosi','uitofp','sitofp','ptrtoint','inttoptr','bitcast','addrspacecast'):
        ft = p.ty(); x = p.val(ft); p.expect('to'); tt = p.ty(); a = (ft, x, tt)
    elif op == 'alloca':
        p.accept('inalloca'); t = p.ty(); cnt = None
        if p.accept(','):
            if p.peek()[1] == 'align': pass
            else:
                ct = p.ty(); cnt = (ct, p.val(ct))
        a = (t, cnt)
    elif op == 'load':
        p.accept('atomic'); p.accept('volatile'); t = p.ty(); p.expect(','); pt = p.ty(); a = (t, p.val(pt))
    elif op == 'store':
        p.accept('atomic'); p.accept('volatile'); t = p.ty(); x = p.val(t); p.expect(','); pt = p.ty(); a = (t, x, p.val(pt))
    elif op == 'getelementptr':
        p.accept('inbounds'); bt = p.ty(); p.expect(','); pt = p.ty(); base = p.val(pt); idx = []
        while p.accept(','):
            it = p.ty(); idx.append((it, p.val(it)))
        a = (bt, base, idx)
    elif op == 'br':
        if p.peek()[1] == 'label':
            p.next(); a = (None, p.next()[1], None)
        else:
            t = p.ty(); c = p.val(t); p.expect(','); p.expect('label'); l1 = p.next()[1]; p.expect(','); p.expect('label'); l2 = p.next()[1]
            a = (c, l1, l2)
    elif op == 'ret':
        t = p.ty()
        a = (t, None) if isinstance(t, VoidTy) else (t, p.val(t))
    elif op == 'phi':
        while p.peek()[1] in FAST: p.next()
        t = p.ty(); inc = []
        while True:
            p.expect('['); v = p.val(t); p.expect(','); l = p.next()[1]; p.expect(']'); inc.append((v, l))
            if not p.accept(','): break
        a = (t, inc)
    elif op == 'select':
        while p.peek()[1] in FAST: p.next()
        ct = p.ty(); c = p.val(ct); p.expect(','); t = p.ty(); x = p.val(t); p.expect(','); t2 = p.ty(); y = p.val(t2); a = (c, t, x, y)
    elif op in ('call', 'invoke'):
        while p.peek()[0] == 'word' and (p.peek()[1] in FAST or p.peek()[1] in ('fastcc', 'ccc', 'coldcc')): p.next()
        p.skip_param_attrs()
        # return type (may be followed by fn type in parens for varargs)
        j = p.i
        depth = 0
        # callee is first glob/local token at depth 0 followed by '('
        while True:
            k, v = p.t[j]
            if v in '([{<' and k == 'p': depth += 1
            elif v in ')]}>' and k == 'p': depth -= 1
            elif depth == 0 and k in ('glob', 'local') and p.t[j+1][1] == '(' and not (j > p.i and False):
                # make sure it's the callee: a local type name like %"class.x" is never followed by '(' unless fn type
                if k == 'glob' or not (v.startswith('%"') or v.startswith('%struct') or v.startswith('%class') or v.startswith('%union')): break
            elif depth == 0 and k == 'word' and v in ('bitcast', 'inttoptr') : break
            j += 1
        sub = P(mod, p.t[p.i:j]); rt = sub.ty()
        if isinstance(rt, (FnTy,)): rt = rt.ret
        elif isinstance(rt, PtrTy) and isinstance(rt.to, FnTy) and sub.eof() and False: pass
        p.i = j
        callee = p.val(PtrTy(IT(8)))
        p.expect('('); args = []
        if not p.accept(')'):
            while True:
                t = p.ty(); p.skip_param_attrs(); args.append((t, p.val(t)))
                if p.accept(')'): break
                p.expect(',')
        normal = unwind = None
        if op == 'invoke':
            while p.peek()[1] != 'to': p.next()
            p.next(); p.expect('label'); normal = p.next()[1]; p.expect('unwind'); p.expect('label'); unwind = p.next()[1]
        a = (rt, callee, args, normal, unwind)
    elif op == 'switch':
        t = p.ty(); v = p.val(t); p.expect(','); p.expect('label'); d = p.next()[1]; p.expect('['); cases = []
        while not p.accept(']'):
            ct = p.ty(); cv = p.val(ct); p.expect(','); p.expect('label'); cases.append((cv, p.next()[1]))
        a = (t, v, d, cases)
    elif op == 'unreachable': a = ()
    elif op == 'resume': a = ()
    elif op == 'landingpad': a = ()
    elif op == 'extractvalue':
        t = p.ty(); v = p.val(t); idx = []
        while p.accept(','): idx.append(int(p.next()[1]))
        a = (t, v, idx)
    elif op == 'insertvalue':
        t = p.ty(); v = p.val(t); p.expect(','); et = p.ty(); ev = p.val(et); idx = []
        while p.accept(','): idx.append(int(p.next()[1]))
        a = (t, v, et, ev, idx)
    elif op == 'atomicrmw':
        p.accept('volatile'); bop = p.next()[1]; pt = p.ty(); ptr = p.val(pt); p.expect(','); t = p.ty(); v = p.val(t); a = (bop, ptr, t, v)
    elif op == 'cmpxchg':
        p.accept('weak'); p.accept('volatile'); pt = p.ty(); ptr = p.val(pt); p.expect(','); t = p.ty(); cmpv = p.val(t); p.expect(','); t2 = p.ty(); newv = p.val(t2); a = (ptr, t, cmpv, newv)
    elif op == 'fence':
        a = ('fence', s)
    elif op == 'freeze':
        t = p.ty(); a = (t, p.val(t))
    else:
        raise SyntaxError(f"instr {op}: {s}")
    return Instr(op, dst, a, s)

if __name__ == '__main__':
    import sys, time
    t0 = time.time()
    m = parse_module(open(sys.argv[1]).read())
    print('parsed', len(m.funcs), 'funcs', len(m.globals), 'globals', len(m.types), 'types in', round(time.time() - t0, 2), 's')
