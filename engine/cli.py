import sys, os, importlib, json, time
sys.path.insert(0, os.path.dirname(os.path.abspath(__file__)))
sys.path.insert(0, os.path.join(os.path.dirname(os.path.dirname(os.path.abspath(__file__))), 'props'))
sys.setrecursionlimit(100000)
def main():
    a = sys.argv[1:]
    if not a: print('usage: check <Cxx> [--tier quick|thorough] [--replay path]'); return 2
    pid = a[0]; tier = os.environ.get('VERIF_TIER', 'quick'); replay = None
    i = 1
    while i < len(a):
        if a[i] == '--tier': tier = a[i + 1]; i += 2
        elif a[i] == '--replay': replay = a[i + 1]; i += 2
        else: print('bad arg', a[i]); return 2
    seed = int(os.environ.get('VERIF_SEED', '0') or 0)
    mod = importlib.import_module(pid.lower())
    if replay: return mod.replay(replay)
    return mod.main(tier, seed)
sys.exit(main())
