"""Shared runner: build -> parse -> differential self-test -> jobs on 16 cores -> replay -> known findings -> evidence."""
import os, sys, json, time, hashlib, subprocess, signal, traceback, struct, resource, multiprocessing as mp
sys.path.insert(0, os.path.dirname(os.path.abspath(__file__)))
import build
from irparse import parse_module
import symir
from symir import *

VERIF = build.VERIF
PY = sys.executable

# ---------------------------------------------------------------- spec helpers (shared by symir runs, native runs and replay files)
# arg spec: ('i32', v) ('i64', v) ('f64', v) ('pf64', [..]) ('pi32', [..]) ('pi8', [..])

def fhex(v):
    return float(v).hex()

def spec_to_json(spec):
    out = []
    for k, v in spec:
        if k == 'f64': out.append([k, fhex(v)])
        elif k == 'pf64': out.append([k, [fhex(x) for x in v]])
        else: out.append([k, v])
    return out

def spec_from_json(js):
    out = []
    for k, v in js:
        if k == 'f64': out.append((k, float.fromhex(v)))
        elif k == 'pf64': out.append((k, [float.fromhex(x) for x in v]))
        else: out.append((k, v))
    return out

def sym_call(m, fn, spec, ret='i32'):
    """run harness fn in machine m with the arg spec (values may be symbolic). Returns (ret, outs) with outs = list per pointer arg."""
    args = []; ptrs = []
    for k, v in spec:
        if k in ('i32', 'i64', 'f64'): args.append(v)
        elif k == 'pf64': p = m.alloc_doubles(v, 'arg'); args.append(p); ptrs.append((k, p, len(v)))
        elif k == 'pi32': p = m.alloc_ints(v, 32, 'arg'); args.append(p); ptrs.append((k, p, len(v)))
        elif k == 'pi8': p = m.alloc_ints(v, 8, 'arg'); args.append(p); ptrs.append((k, p, len(v)))
        else: raise ValueError(k)
    r = m.call('@' + fn, args)
    return r, read_outs(m, ptrs), ptrs

def read_outs(m, ptrs):
    outs = []
    for k, p, n in ptrs:
        if k == 'pf64': outs.append(m.read_doubles(p, n))
        elif k == 'pi32': outs.append(m.read_ints(p, n, 32))
        else: outs.append(m.read_ints(p, n, 8))
    return outs

def native_call(so, fn, spec, ret='i32', timeout=20, san=False):
    """run fn from the native .so in a subprocess (crash / hang / sanitizer isolation). -> dict(status, ret, outs, stderr)"""
    js = json.dumps({'so': so, 'fn': fn, 'ret': ret, 'args': spec_to_json(spec)})
    env = dict(os.environ)
    if san:
        rt = subprocess.run(['clang++-14', '-print-file-name=libclang_rt.asan-x86_64.so'], capture_output=True, text=True).stdout.strip()
        env['LD_PRELOAD'] = rt
        env['ASAN_OPTIONS'] = 'detect_leaks=0:abort_on_error=0:exitcode=77:symbolize=0:fast_unwind_on_fatal=1'
        env['UBSAN_OPTIONS'] = 'halt_on_error=1:exitcode=78:print_stacktrace=0:symbolize=0'
    try:
        r = subprocess.run([PY, os.path.join(VERIF, 'engine', 'nativecall.py')], input=js, capture_output=True, text=True, timeout=timeout, env=env)
    except subprocess.TimeoutExpired:
        return {'status': 'timeout', 'stderr': f'no return within {timeout}s'}
    if r.returncode != 0:
        key = [l for l in r.stderr.split('\n') if 'runtime error' in l or 'ERROR: AddressSanitizer' in l or l.startswith('SUMMARY')]
        return {'status': 'crash', 'code': r.returncode, 'stderr': '\n'.join(key[:6]) + '\n' + r.stderr[-1500:]}
    d = json.loads(r.stdout.strip().split('\n')[-1])
    d['status'] = 'ok'
    d['outs'] = [[float.fromhex(x) for x in o] if k == 'pf64' else o for (k, _), o in zip([a for a in spec if a[0][0] == 'p'], d['outs'])]
    if ret == 'f64': d['ret'] = float.fromhex(d['ret'])
    d['stderr'] = r.stderr[-2000:]
    return d

def native_batch(so, calls, timeout=120):
    """calls: list of (fn, spec, ret).  One subprocess for all; a crashing call is reported as crash and the rest continue in a new subprocess."""
    out = [None] * len(calls); start = 0
    while start < len(calls):
        js = json.dumps({'so': so, 'batch': [{'fn': fn, 'ret': ret, 'args': spec_to_json(spec)} for fn, spec, ret in calls[start:]]})
        try:
            r = subprocess.run([PY, os.path.join(VERIF, 'engine', 'nativecall.py')], input=js, capture_output=True, text=True, timeout=timeout)
            lines = [l for l in r.stdout.split('\n') if l.startswith('{')]; err = r.stderr[-500:]; rc = r.returncode
        except subprocess.TimeoutExpired as e:
            lines = [l for l in (e.stdout or b'').decode().split('\n') if l.startswith('{')]; err = 'timeout'; rc = -1
        for k, l in enumerate(lines):
            fn, spec, ret = calls[start + k]; d = json.loads(l); d['status'] = 'ok'
            d['outs'] = [[float.fromhex(x) for x in o] if kk == 'pf64' else o for (kk, _), o in zip([a for a in spec if a[0][0] == 'p'], d['outs'])]
            if ret == 'f64': d['ret'] = float.fromhex(d['ret'])
            out[start + k] = d
        start += len(lines)
        if start < len(calls) and (rc != 0 or not lines):
            out[start] = {'status': 'crash' if err != 'timeout' else 'timeout', 'stderr': err}; start += 1
    return out

_native_libs = {}
def native_inproc(so, fn, spec, ret='i32'):
    """fast in-process native call (only for inputs known not to crash: the differential self-test)"""
    import ctypes
    lib = _native_libs.get(so)
    if lib is None: lib = _native_libs[so] = ctypes.CDLL(so)
    return _ctypes_call(lib, fn, spec, ret)

def _ctypes_call(lib, fn, spec, ret):
    import ctypes
    f = getattr(lib, fn); cargs = []; types = []; bufs = []
    for k, v in spec:
        if k == 'i32': cargs.append(ctypes.c_int32(sgn(v & 0xffffffff, 32))); types.append(ctypes.c_int32)
        elif k == 'i64': cargs.append(ctypes.c_int64(sgn(v & M64, 64))); types.append(ctypes.c_int64)
        elif k == 'f64': cargs.append(ctypes.c_double(v)); types.append(ctypes.c_double)
        elif k == 'pf64':
            b = (ctypes.c_double * max(len(v), 1))(*v); bufs.append((k, b, len(v))); cargs.append(b); types.append(ctypes.POINTER(ctypes.c_double))
        elif k == 'pi32':
            b = (ctypes.c_int32 * max(len(v), 1))(*[sgn(x & 0xffffffff, 32) for x in v]); bufs.append((k, b, len(v))); cargs.append(b); types.append(ctypes.POINTER(ctypes.c_int32))
        elif k == 'pi8':
            b = (ctypes.c_uint8 * max(len(v), 1))(*v); bufs.append((k, b, len(v))); cargs.append(b); types.append(ctypes.POINTER(ctypes.c_uint8))
    f.argtypes = types
    f.restype = {'i32': ctypes.c_int32, 'i64': ctypes.c_int64, 'f64': ctypes.c_double, 'void': None}[ret]
    r = f(*cargs)
    outs = []
    for k, b, n in bufs:
        if k == 'pi32': outs.append([x & 0xffffffff for x in b[:n]])
        else: outs.append(list(b[:n]))
    if ret in ('i32',) and r is not None: r &= 0xffffffff
    if ret in ('i64',) and r is not None: r &= M64
    return r, outs

def same_bits(a, b):
    if isinstance(a, float) or isinstance(b, float):
        return struct.pack('<d', float(a)) == struct.pack('<d', float(b)) or (a != a and b != b)
    return a == b

# ---------------------------------------------------------------- module cache (per process)
_mods = {}
def load(harness, **kw):
    """-> (module, native_so) for harness file name under /verif/harness; rebuilt from /repo's current tree"""
    key = (harness, tuple(sorted(kw.items())))
    if key not in _mods:
        ll, so = build.build_harness(os.path.join(VERIF, 'harness', harness), **kw)
        t0 = time.time()
        mod = parse_module(open(ll).read())
        _mods[key] = (mod, so, time.time() - t0)
    return _mods[key][0], _mods[key][1]

# ---------------------------------------------------------------- job results
class Res:
    """result of one job (picklable)"""
    def __init__(s, name):
        s.name = name; s.obligations = 0; s.discharged = 0; s.inconclusive = []; s.violations = []; s.paths = 0; s.steps = 0
        s.queries = 0; s.solver_s = 0.0; s.theories = set(); s.samples = []; s.funcs = {}; s.wall = 0.0; s.notes = []; s.selftests = 0; s.replays = 0
    def ob(s, ok, theory=None, sample=None):
        s.obligations += 1
        if ok: s.discharged += 1
        if theory: s.theories.add(theory)
        if sample is not None and len(s.samples) < 3: s.samples.append(sample)
    def inc(s, what):
        s.obligations += 1; s.inconclusive.append(what)
    def viol(s, key, what, replay=None, confirmed=True, extra=None):
        s.obligations += 1
        s.violations.append({'key': key, 'what': what, 'replay': replay, 'confirmed': confirmed, 'extra': extra})
    def absorb(s, m):
        s.paths += 1; s.steps += m.steps; s.queries += m.nqueries; s.solver_s += m.tsolve
        for k, v in m.calls.items(): s.funcs[k] = s.funcs.get(k, 0) + v

def timed_check(sol, res, timeout_ms=240000):
    sol.set('timeout', timeout_ms)
    t0 = time.time(); r = sol.check(); res.queries += 1; res.solver_s += time.time() - t0
    return r

def model_dict(sol):
    mdl = sol.model(); d = {}
    for x in mdl.decls():
        if x.arity() == 0: d[x.name()] = mdl[x]
    return d

def z3_to_float(v):
    """z3 numeral (rational / algebraic / fp / int) -> python float"""
    if v is None: return 0.0
    if z3.is_fp(v):
        bits = z3.simplify(z3.fpToIEEEBV(v)).as_long()
        return struct.unpack('<d', struct.pack('<Q', bits))[0]
    if z3.is_rational_value(v): return float(Fraction(v.numerator_as_long(), v.denominator_as_long()))
    if z3.is_algebraic_value(v): return float(v.approx(20).as_fraction())
    if z3.is_int_value(v): return float(v.as_long())
    raise ValueError(f'cannot convert {v}')

def model_float(model, name, default=0.0):
    v = model.get(name)
    return z3_to_float(v) if v is not None else default
def model_int(model, name, w=32, default=0):
    v = model.get(name)
    return v.as_long() if v is not None else default

# ---------------------------------------------------------------- replay files
def write_replay(pid, rec):
    d = os.path.join(VERIF, 'replays', pid); os.makedirs(d, exist_ok=True)
    js = json.dumps(rec, sort_keys=True, indent=1)
    p = os.path.join(d, hashlib.sha256(js.encode()).hexdigest()[:16] + '.json')
    open(p, 'w').write(js)
    return p

# ---------------------------------------------------------------- known findings
def known_findings():
    p = os.path.join(VERIF, 'known_findings.jsonl'); out = []
    if os.path.exists(p):
        for l in open(p):
            l = l.strip()
            if l and not l.startswith('#'): out.append(json.loads(l))
    return out

# ---------------------------------------------------------------- worker plumbing
_JOBFN = {}
_DEADLINE = [None]      # wall-clock limit of the whole tier: jobs that have not started by then are inconclusive (never success), running ones get the remaining time
def _worker(job):
    name, fn, kw, budget = job
    res = Res(name); t0 = time.time()
    if _DEADLINE[0] is not None:
        left = int(_DEADLINE[0] - t0)
        if left <= 1:
            res.inc(f'{name}: tier deadline reached before this job started'); return res
        budget = min(budget, left)
    def onalarm(sig, frm): raise TimeoutError(f'job watchdog {budget}s')
    signal.signal(signal.SIGALRM, onalarm); signal.alarm(budget)
    try:
        F.reset()
        _JOBFN[fn](res, **kw)
    except TimeoutError as e:
        res.inc(f'{name}: {e}')
    except (Unsupported, Budget) as e:
        res.inc(f'{name}: engine: {str(e)[:500]}')
    except Exception as e:
        res.inc(f'{name}: driver exception {type(e).__name__}: {str(e)[:300]} :: {traceback.format_exc()[-800:]}')
    finally:
        signal.alarm(0)
    res.wall = time.time() - t0
    res.theories = sorted(res.theories)
    return res

def run_property(pid, tier, harness, jobs, jobfns, level_text, assumptions, bounds, outside, seed=0, nproc=16, selftest=None, prebuilt=None):
    """jobs: list of (name, fn_name, kwargs, watchdog_s).  Prints VIOLATION / KNOWN-FINDING lines, writes evidence, returns exit code."""
    t0 = time.time()
    _JOBFN.update(jobfns)
    if prebuilt is None:
        mod, so = load(harness)
    tbuild = time.time() - t0
    st = Res('selftest')
    if selftest is not None:
        try:
            selftest(st)
        except Exception as e:
            st.inc(f'differential self-test failed to run: {type(e).__name__}: {str(e)[:400]}')
        if st.violations or st.inconclusive:
            print(f'BROKEN-ENGINE property={pid}: differential self-test (symir concrete vs native) failed: {(st.violations or st.inconclusive)[:2]}')
            write_evidence(pid, tier, seed, [st], time.time() - t0, level_text, assumptions, bounds, outside, [], [], broken=True)
            return 3
    results = [st]
    _DEADLINE[0] = t0 + float(os.environ.get('VERIF_DEADLINE_S') or (3600 if tier == 'quick' else 8 * 3600))
    if jobs:
        ctx = mp.get_context('fork')
        with ctx.Pool(min(nproc, len(jobs))) as pool:
            for r in pool.imap_unordered(_worker, jobs, chunksize=1):
                results.append(r)
    kf = [k for k in known_findings() if k.get('property') == pid]
    open_keys = {k['key']: k for k in kf if k.get('status', 'open') == 'open'}
    new_v = []; known_v = []
    seen = set()
    for r in results:
        for v in r.violations:
            if v['key'] in seen: continue     # one report per failing site / input class
            seen.add(v['key'])
            if v['key'] in open_keys: known_v.append(v)
            else: new_v.append(v)
    inconcl = [x for r in results for x in r.inconclusive]
    for k in sorted({v['key'] for v in known_v}):
        print(f"KNOWN-FINDING: property={pid} {open_keys[k]['what']} [key={k}]")
    for v in new_v:
        print(f"VIOLATION property={pid} replay={v['replay']}")
        print(f"  what: {v['what']} [key={v['key']}]")
    for x in inconcl[:20]:
        print(f"INCONCLUSIVE property={pid}: {x[:600]}")
    wall = time.time() - t0
    write_evidence(pid, tier, seed, results, wall, level_text, assumptions, bounds, outside, new_v, known_v, tbuild=tbuild)
    ob = sum(r.obligations for r in results); di = sum(r.discharged for r in results)
    print(f"property={pid} tier={tier} obligations={ob} discharged={di} inconclusive={len(inconcl)} violations={len(new_v)} known={len(known_v)} "
          f"paths={sum(r.paths for r in results)} queries={sum(r.queries for r in results)} solver_s={sum(r.solver_s for r in results):.1f} wall_s={wall:.1f}")
    if new_v: return 1
    if inconcl: return 3
    return 0

def write_evidence(pid, tier, seed, results, wall, level_text, assumptions, bounds, outside, new_v, known_v, tbuild=0.0, broken=False):
    ob = sum(r.obligations for r in results); di = sum(r.discharged for r in results)
    funcs = {}
    for r in results:
        for k, v in r.funcs.items(): funcs[k] = funcs.get(k, 0) + v
    samples = []
    for r in results:
        for smp in r.samples[:2]:
            if len(samples) < 12: samples.append({'job': r.name, 'obligation': smp})
    if not samples: samples = [{'job': r.name} for r in results[:3]]
    jobs = [{'job': r.name, 'obligations': r.obligations, 'discharged': r.discharged, 'paths': r.paths, 'ir_steps': r.steps, 'queries': r.queries,
             'solver_s': round(r.solver_s, 3), 'wall_s': round(r.wall, 2), 'theories': list(r.theories), 'inconclusive': r.inconclusive[:5],
             'violations': [v['key'] for v in r.violations], 'notes': r.notes[:6]} for r in results]
    paths = sum(r.paths for r in results); steps = sum(r.steps for r in results)
    ev = {
        'property_id': pid, 'tier': tier, 'seed': int(seed), 'level': 'model_checking',
        'coverage': {
            'states': max(paths, 1), 'transitions': max(steps, 1),
            'traces_validated_against_impl': sum(r.selftests + r.replays for r in results),
            'samples': samples,
            'obligations': ob, 'discharged': di,
            'evaluations': max(ob, 1), 'distinct_nontrivial': max(len([j for j in jobs if j['obligations'] > 0]), 0),
            'rule': 'one evaluation = one solver-decided obligation (unsat of the negated property over all symbolic inputs on one symbolic path / size); '
                    'distinct_nontrivial = number of distinct jobs (function x size x configuration) with at least one obligation',
            'exhaustive': False,
            'checker_cmd': f'./check {pid} --tier {tier}',
            'trusted_base': ['clang-14 -O1 IR of /repo sources == behaviour of the g++ -O2 build (checked per run by bit-identical differential self-test, not proved)',
                             'symir interpreter + libm/allocator/libstdc++-list stubs (engine/symir.py)', 'z3 4.x (python3-vt)', 'spec formulas in props/*.py'],
            'explanation': level_text,
            'bounds': bounds, 'outside_claim': outside,
            'functions_encoded': dict(sorted(funcs.items(), key=lambda kv: -kv[1])[:60]), 'functions_encoded_count': len(funcs),
            'symbolic_paths': paths, 'ir_instructions_executed': steps,
            'solver_queries': sum(r.queries for r in results), 'solver_time_s': round(sum(r.solver_s for r in results), 2),
            'theories': sorted({t for r in results for t in r.theories}),
            'inconclusive': [x[:300] for r in results for x in r.inconclusive][:30],
            'known_findings_hit': sorted({v['key'] for v in known_v}),
            'new_violations': [{'key': v['key'], 'what': v['what'], 'replay': v['replay']} for v in new_v][:20],
            'jobs': jobs[:400], 'build_s': round(tbuild, 1), 'max_rss_mb': resource.getrusage(resource.RUSAGE_CHILDREN).ru_maxrss // 1024,
            'engine_broken': broken,
        },
        'assumptions': assumptions,
        'wall_s': round(wall, 2), 'violations': len(new_v),
    }
    evdir = os.environ.get('VERIF_EVIDENCE_DIR') or os.path.join(VERIF, 'evidence')      # seeded-change runs (tools/seed_matrix.py) write elsewhere
    os.makedirs(evdir, exist_ok=True)
    open(os.path.join(evdir, pid + '.json'), 'w').write(json.dumps(ev, indent=1, default=str))

# ---------------------------------------------------------------- confirm-by-replay
def confirm(res, pid, harness, fn, spec, ret, oracle, oracles, key, what, timeout=20, san=False, suspect_is_inconclusive=True, extra=None):
    """replay a candidate counterexample natively; only a reproduced failure becomes a violation."""
    mod, so = load(harness)
    rec = {'property': pid, 'harness': harness, 'fn': fn, 'ret': ret, 'args': spec_to_json(spec), 'oracle': oracle, 'key': key, 'what': what,
           'timeout': timeout, 'san': san, 'extra': extra}
    ok, detail = run_replay(rec, oracles, so)
    res.replays += 1
    if ok:
        rec['observed'] = detail
        path = write_replay(pid, rec)
        res.viol(key, what + ' :: ' + detail[:300], path)
        return True
    res.notes.append(f'ENCODING-SUSPECT: candidate for {key} did not reproduce natively: {detail[:200]}')
    try:
        rec['observed'] = 'NOT REPRODUCED: ' + detail; os.makedirs(os.path.join(VERIF, 'replays', pid), exist_ok=True)
        json.dump(rec, open(os.path.join(VERIF, 'replays', pid, 'suspect-' + hashlib.sha1(json.dumps(rec['args'], default=str).encode()).hexdigest()[:12] + '.json'), 'w'), default=str)
    except Exception: pass
    if suspect_is_inconclusive: res.inc(f'candidate counterexample for {key} did not reproduce natively ({detail[:200]})')
    return False

def run_replay(rec, oracles, so=None):
    if so is None: _, so = load(rec['harness'])
    spec = spec_from_json(rec['args'])
    if rec.get('san') == 'assert':
        so = build.build_dbg_so(os.path.join(VERIF, 'harness', rec['harness']))
    elif rec.get('san'):
        so = build.build_san_so(os.path.join(VERIF, 'harness', rec['harness']))
    r = native_call(so, rec['fn'], spec, rec['ret'], timeout=rec.get('timeout', 20), san=bool(rec.get('san')) and rec.get('san') != 'assert')
    return oracles[rec['oracle']](spec, r, rec.get('extra'))

def replay_main(path, oracles):
    rec = json.load(open(path))
    ok, detail = run_replay(rec, oracles)
    if ok:
        print(f"VIOLATION property={rec['property']} replay={path}"); print('  reproduced:', detail); return 1
    print('not reproduced on the current tree:', detail); return 0

# ---------------------------------------------------------------- differential self-test helper
def selftest_calls(st, harness, calls, max_steps=100_000_000, throw_code=(-1000000) & 0xffffffff):
    """calls: list of (fn, spec, ret).  symir (concrete) vs native must be bit-identical.  A mismatch inside the shared native batch process is re-run in a fresh
    process: if that agrees with symir the library's result depends on earlier calls in the process (reported as a note; the jobs decide), not an engine problem."""
    mod, so = load(harness)
    nat = native_batch(so, calls)
    for (fn, spec, ret), nres in zip(calls, nat):
        m = Machine(mod, max_steps=max_steps)
        try: r, outs, _ = sym_call(m, fn, spec, ret)
        except Throw: r, outs = throw_code, None
        st.selftests += 1
        def agree(nr):
            return nr['status'] == 'ok' and same_bits(r, nr['ret']) and (outs is None or all(same_bits(a, b) for o1, o2 in zip(outs, nr['outs']) for a, b in zip(o1, o2)))
        if agree(nres): st.ob(True, 'concrete'); continue
        fresh = native_call(so, fn, spec, ret, timeout=60)
        if agree(fresh):
            st.notes.append(f'{fn}: native result in a shared process differs from a fresh process (history-dependent library state); symir agrees with the fresh process')
            st.ob(True, 'concrete')
        elif nres['status'] != 'ok' and r == throw_code: st.ob(True, 'concrete')
        else: st.viol('selftest', f'{fn} {str(spec[:3])[:120]}: symir and native differ ({r} vs {nres.get("ret")})')

def pinned_int(m, r, w=32):
    """value of a symbolic int that the path condition determines uniquely (e.g. a length after the allocation concretised it); None if not unique"""
    if isinstance(r, int): return r
    s = z3.Solver(); s.set('timeout', 30000); s.add(*m.pc)
    if s.check() != z3.sat: return None
    v = s.model().eval(bve(r, w), model_completion=True).as_long()
    s.add(bve(r, w) != v)
    return v if s.check() == z3.unsat else None
