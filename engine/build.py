"""Build step: /repo working tree + harness TU  ->  linked LLVM IR (for symir) and native shared object (for replay).

Everything is regenerated from /repo's *current* sources; the cache under /verif/.cache is keyed by a hash of every
source byte and every flag, so an edited tree is always recompiled and an unchanged one is not compiled 20 times."""
import os, sys, hashlib, subprocess, re, glob, shutil, time, json
from concurrent.futures import ThreadPoolExecutor

REPO = os.environ.get('VERIF_REPO', '/repo')
VERIF = os.path.dirname(os.path.dirname(os.path.abspath(__file__)))
CACHE = os.path.join(VERIF, '.cache')
GUARD = 'DSPLIB_VERIF'

CLANG_FLAGS = ['-std=c++17', '-O1', '-fno-vectorize', '-fno-slp-vectorize', '-fno-unroll-loops', '-DNDEBUG', '-D' + GUARD,
               '-fno-discard-value-names', '-S', '-emit-llvm', '-Wno-everything']
GXX_FLAGS = ['-std=c++17', '-O2', '-DNDEBUG', '-D' + GUARD, '-fPIC', '-w', '-pthread']


def cache_size_define():
    txt = open(os.path.join(REPO, 'CMakeLists.txt')).read()
    m = re.search(r'set\(DSPLIB_FFT_CACHE_SIZE\s+"(\d+)"', txt)
    return int(m.group(1)) if m else 4


def lib_sources():
    out = sorted(glob.glob(os.path.join(REPO, 'lib', '**', '*.cpp'), recursive=True))
    return out


def all_inputs():
    fs = lib_sources()
    fs += sorted(glob.glob(os.path.join(REPO, 'lib', '**', '*.h'), recursive=True))
    fs += sorted(glob.glob(os.path.join(REPO, 'include', '**', '*.h'), recursive=True))
    fs += [os.path.join(REPO, 'CMakeLists.txt'), os.path.join(REPO, 'cmake', 'defs.h.in')]
    return fs


def tree_hash(extra=()):
    h = hashlib.sha256()
    for f in all_inputs():
        h.update(f.encode()); h.update(open(f, 'rb').read())
    for e in extra:
        h.update(str(e).encode())
    return h.hexdigest()[:20]


def gen_defs(dst):
    os.makedirs(os.path.join(dst, 'dsplib'), exist_ok=True)
    txt = open(os.path.join(REPO, 'cmake', 'defs.h.in')).read()
    cm = open(os.path.join(REPO, 'CMakeLists.txt')).read()
    ver = re.search(r'VERSION\s+(\d+)\.(\d+)\.(\d+)', cm)
    maj, mnr, pat = ver.groups() if ver else ('0', '0', '0')
    txt = re.sub(r'#cmakedefine (\w+)', r'/* #undef \1 */', txt)
    txt = txt.replace('@CMAKE_PROJECT_VERSION@', f'{maj}.{mnr}.{pat}').replace('@CMAKE_PROJECT_VERSION_MAJOR@', maj)
    txt = txt.replace('@CMAKE_PROJECT_VERSION_MINOR@', mnr).replace('@CMAKE_PROJECT_VERSION_PATCH@', pat)
    open(os.path.join(dst, 'dsplib', 'defs.h'), 'w').write(txt)


def _run(cmd):
    r = subprocess.run(cmd, capture_output=True, text=True)
    if r.returncode != 0:
        raise RuntimeError('build failed: ' + ' '.join(cmd) + '\n' + r.stderr[-4000:])
    return r


def includes(gen):
    return ['-I', os.path.join(REPO, 'include'), '-I', os.path.join(REPO, 'lib'), '-I', gen, '-I', os.path.join(VERIF, 'harness')]


def build_lib(cache_size=None, extra_defs=()):
    """-> cache dir holding lib.ll (linked lib IR) and native *.o for the current tree"""
    import fcntl
    os.makedirs(CACHE, exist_ok=True)
    with open(os.path.join(CACHE, 'build.lock'), 'w') as lk:
        fcntl.flock(lk, fcntl.LOCK_EX)
        return _build_lib(cache_size, extra_defs)


def _build_lib(cache_size=None, extra_defs=()):
    cs = cache_size if cache_size is not None else cache_size_define()
    key = tree_hash(('lib', cs, CLANG_FLAGS, GXX_FLAGS, extra_defs))
    d = os.path.join(CACHE, 'lib-' + key)
    done = os.path.join(d, 'DONE')
    if os.path.exists(done):
        return d
    tmp = d + '.tmp%d' % os.getpid()
    shutil.rmtree(tmp, ignore_errors=True); os.makedirs(tmp)
    gen_defs(tmp)
    defs = [f'-DDSPLIB_FFT_CACHE_SIZE={cs}'] + list(extra_defs)
    srcs = lib_sources()
    def one(src):
        base = os.path.relpath(src, os.path.join(REPO, 'lib')).replace('/', '_')[:-4]
        _run(['clang++-14'] + CLANG_FLAGS + defs + includes(tmp) + [src, '-o', os.path.join(tmp, base + '.ll')])
        _run(['g++'] + GXX_FLAGS + defs + includes(tmp) + ['-c', src, '-o', os.path.join(tmp, base + '.o')])
        return base
    with ThreadPoolExecutor(16) as ex:
        bases = list(ex.map(one, srcs))
    _run(['llvm-link-14', '-S'] + [os.path.join(tmp, b + '.ll') for b in bases] + ['-o', os.path.join(tmp, 'lib.ll')])
    for b in bases:
        os.remove(os.path.join(tmp, b + '.ll'))
    open(os.path.join(tmp, 'DONE'), 'w').write(json.dumps({'sources': [os.path.relpath(s, REPO) for s in srcs], 'cache_size': cs}))
    if os.path.exists(d):
        shutil.rmtree(tmp)
    else:
        os.rename(tmp, d)
    _gc()
    return d


def build_harness(harness_cpp, cache_size=None, extra_defs=(), sanitize=False):
    """-> (path to linked+lowered IR, path to native .so) for harness + current /repo tree"""
    libd = build_lib(cache_size, extra_defs)
    hsrc = open(harness_cpp, 'rb').read()
    hh = sorted(glob.glob(os.path.join(VERIF, 'harness', '*.h')))
    key = hashlib.sha256(hsrc + b''.join(open(f, 'rb').read() for f in hh) + os.path.basename(libd).encode() + str(extra_defs).encode()).hexdigest()[:20]
    name = os.path.basename(harness_cpp)[:-4]
    d = os.path.join(CACHE, f'h-{name}-{key}')
    if not os.path.exists(os.path.join(d, 'DONE')):
        tmp = d + '.tmp%d' % os.getpid()
        shutil.rmtree(tmp, ignore_errors=True); os.makedirs(tmp)
        cs = cache_size if cache_size is not None else cache_size_define()
        defs = [f'-DDSPLIB_FFT_CACHE_SIZE={cs}'] + list(extra_defs)
        _run(['clang++-14'] + CLANG_FLAGS + defs + includes(libd) + [harness_cpp, '-o', os.path.join(tmp, 'h.ll')])
        _run(['llvm-link-14', '-S', os.path.join(tmp, 'h.ll'), os.path.join(libd, 'lib.ll'), '-o', os.path.join(tmp, 'all0.ll')])
        _run(['opt-14', '-S', '-lowerswitch', '-lowerinvoke', '-simplifycfg', os.path.join(tmp, 'all0.ll'), '-o', os.path.join(tmp, 'all.ll')])
        os.remove(os.path.join(tmp, 'all0.ll')); os.remove(os.path.join(tmp, 'h.ll'))
        objs = sorted(glob.glob(os.path.join(libd, '*.o')))
        _run(['g++'] + GXX_FLAGS + defs + includes(libd) + ['-shared', harness_cpp] + objs + ['-o', os.path.join(tmp, 'native.so')])
        open(os.path.join(tmp, 'DONE'), 'w').write('ok')
        if os.path.exists(d):
            shutil.rmtree(tmp)
        else:
            os.rename(tmp, d)
    return os.path.join(d, 'all.ll'), os.path.join(d, 'native.so')


def build_san_so(harness_cpp):
    """ASan+UBSan native build of harness + lib as a shared object (loaded into python with LD_PRELOAD of the asan runtime)."""
    libd = build_lib()
    key = tree_hash(('san', open(harness_cpp, 'rb').read()))
    name = os.path.basename(harness_cpp)[:-4]
    d = os.path.join(CACHE, f'san-{name}-{key}')
    out = os.path.join(d, 'native_san.so')
    if os.path.exists(out):
        return out
    tmp = d + '.tmp%d' % os.getpid()
    shutil.rmtree(tmp, ignore_errors=True); os.makedirs(tmp)
    cs = cache_size_define()
    srcs = lib_sources()
    flags = ['-std=c++17', '-O1', '-g', '-DNDEBUG', '-D' + GUARD, f'-DDSPLIB_FFT_CACHE_SIZE={cs}', '-fsanitize=address,undefined',
             '-fno-sanitize-recover=undefined', '-fno-omit-frame-pointer', '-fPIC', '-shared-libasan', '-w']
    def one(src):
        base = os.path.relpath(src, os.path.join(REPO, 'lib')).replace('/', '_')[:-4]
        _run(['clang++-14'] + flags + includes(libd) + ['-c', src, '-o', os.path.join(tmp, base + '.o')])
        return os.path.join(tmp, base + '.o')
    with ThreadPoolExecutor(16) as ex:
        objs = list(ex.map(one, srcs))
    _run(['clang++-14'] + flags + includes(libd) + ['-shared', harness_cpp] + objs + ['-o', os.path.join(tmp, 'native_san.so')])
    for o in objs:
        os.remove(o)
    if os.path.exists(d):
        shutil.rmtree(tmp)
    else:
        os.rename(tmp, d)
    return out


def build_dbg_so(harness_cpp):
    """native build WITHOUT -DNDEBUG: DSPLIB_ASSUME(c) then also asserts c, which turns a violated compiler assumption into an abort with a message (replay of 'assume' findings)"""
    libd = build_lib()
    key = tree_hash(('dbg', open(harness_cpp, 'rb').read()))
    name = os.path.basename(harness_cpp)[:-4]
    d = os.path.join(CACHE, f'san-dbg-{name}-{key}')
    out = os.path.join(d, 'native_dbg.so')
    if os.path.exists(out):
        return out
    tmp = d + '.tmp%d' % os.getpid()
    shutil.rmtree(tmp, ignore_errors=True); os.makedirs(tmp)
    cs = cache_size_define()
    flags = ['-std=c++17', '-O1', '-g', '-D' + GUARD, f'-DDSPLIB_FFT_CACHE_SIZE={cs}', '-fPIC', '-w', '-pthread']
    def one(src):
        base = os.path.relpath(src, os.path.join(REPO, 'lib')).replace('/', '_')[:-4]
        _run(['g++'] + flags + includes(libd) + ['-c', src, '-o', os.path.join(tmp, base + '.o')])
        return os.path.join(tmp, base + '.o')
    with ThreadPoolExecutor(16) as ex:
        objs = list(ex.map(one, lib_sources()))
    _run(['g++'] + flags + includes(libd) + ['-shared', harness_cpp] + objs + ['-o', os.path.join(tmp, 'native_dbg.so')])
    for o in objs:
        os.remove(o)
    if os.path.exists(d):
        shutil.rmtree(tmp)
    else:
        os.rename(tmp, d)
    return out


def _gc(keep=6):
    """bound the cache: keep the most recent few lib/h dirs"""
    try:
        ds = [os.path.join(CACHE, x) for x in os.listdir(CACHE) if not x.endswith('.lock')]
        for pref in ('lib-', 'h-', 'san-'):
            grp = sorted([x for x in ds if os.path.basename(x).startswith(pref) and '.tmp' not in x], key=os.path.getmtime, reverse=True)
            lim = keep if pref == 'lib-' else 60
            for x in grp[lim:]:
                shutil.rmtree(x, ignore_errors=True)
    except FileNotFoundError:
        pass


if __name__ == '__main__':
    t0 = time.time()
    d = build_lib()
    print('lib', d, round(time.time() - t0, 1), 's')
    for h in sys.argv[1:]:
        print(build_harness(h), round(time.time() - t0, 1), 's')
