"""subprocess side of native replay: stdin JSON {so, fn, ret, args} -> stdout JSON {ret, outs}"""
import sys, json, os
sys.path.insert(0, os.path.dirname(os.path.abspath(__file__)))
import ctypes, struct
M64 = (1 << 64) - 1
def sgn(v, w): return v - (1 << w) if v >> (w - 1) else v
def main():
    d = json.loads(sys.stdin.read())
    lib = ctypes.CDLL(d['so'])
    if 'batch' in d:
        for c in d['batch']:
            one(lib, c); sys.stdout.flush()
        return
    one(lib, d)
def one(lib, d):
    f = getattr(lib, d['fn']); cargs = []; types = []; bufs = []
    for k, v in d['args']:
        if k == 'i32': cargs.append(ctypes.c_int32(sgn(v & 0xffffffff, 32))); types.append(ctypes.c_int32)
        elif k == 'i64': cargs.append(ctypes.c_int64(sgn(v & M64, 64))); types.append(ctypes.c_int64)
        elif k == 'f64': cargs.append(ctypes.c_double(float.fromhex(v))); types.append(ctypes.c_double)
        elif k == 'pf64':
            b = (ctypes.c_double * max(len(v), 1))(*[float.fromhex(x) for x in v]); bufs.append((k, b, len(v))); cargs.append(b); types.append(ctypes.POINTER(ctypes.c_double))
        elif k == 'pi32':
            b = (ctypes.c_int32 * max(len(v), 1))(*[sgn(x & 0xffffffff, 32) for x in v]); bufs.append((k, b, len(v))); cargs.append(b); types.append(ctypes.POINTER(ctypes.c_int32))
        elif k == 'pi8':
            b = (ctypes.c_uint8 * max(len(v), 1))(*v); bufs.append((k, b, len(v))); cargs.append(b); types.append(ctypes.POINTER(ctypes.c_uint8))
    f.argtypes = types
    ret = d['ret']
    f.restype = {'i32': ctypes.c_int32, 'i64': ctypes.c_int64, 'f64': ctypes.c_double, 'void': None}[ret]
    r = f(*cargs)
    outs = []
    for k, b, n in bufs:
        if k == 'pf64': outs.append([float(x).hex() for x in b[:n]])
        elif k == 'pi32': outs.append([x & 0xffffffff for x in b[:n]])
        else: outs.append(list(b[:n]))
    if ret == 'f64': r = float(r).hex()
    elif ret == 'i32': r &= 0xffffffff
    elif ret == 'i64': r &= M64
    print(json.dumps({'ret': r, 'outs': outs}))
main()
