"""P-LIN: certify that a code path is a fixed linear map of its symbolic inputs (QF_LRA identity per output) and compare that matrix with an exact reference."""
from common import *
import mpmath
mpmath.mp.dps = 50
EPS = 2.0 ** -52

def to_frac(x):
    """mpmath real -> Fraction (50 digits)"""
    return Fraction(mpmath.nstr(x, 45, strip_zeros=False)) if not isinstance(x, (int, Fraction)) else Fraction(x)

def plin_matrix(res, m, outs, insyms, label, timeout_ms=600000):
    """outs: list of DAG nodes/floats; insyms: list of symbol names.  Returns matrix rows (list of dict sym->Fraction, key 1 = constant term) after the
    solver has certified  forall x. out_k(x) == row_k . x   for every k; None (and a violation/inconclusive recorded) otherwise."""
    try:
        rows = linear_forms(outs)
    except NonLinear as e:
        res.inc(f'{label}: output is not syntactically linear in the inputs ({e})'); return None
    X = {s: z3.Real(s) for s in insyms}
    low = m.low
    sol = z3.SolverFor('QF_LRA'); sol.set('timeout', timeout_ms)
    t0 = time.time(); bad = 0
    for k, (o, row) in enumerate(zip(outs, rows)):
        lin = z3.Sum([z3.RealVal(c) * (X[s] if s != 1 else z3.RealVal(1)) for s, c in row.items()]) if row else z3.RealVal(0)
        lo = low(o) if isF(o) else z3.RealVal(Fraction(o))
        sol.push(); sol.add(lo != lin); r = sol.check(); sol.pop(); res.queries += 1
        if r == z3.unsat: res.ob(True, 'LRA', f'{label}: forall x. out[{k}](x) == sum_j C[{k}][j]*x_j  ({len(row)} non-zero coefficients)')
        else:
            bad += 1; res.inc(f'{label}: linear identity for output {k} not certified ({r})')
    res.solver_s += time.time() - t0
    return rows if not bad else None

def fro2(rows, ref, insyms):
    """squared Frobenius norm of (C - R) over the rationals; ref[k][j] Fractions aligned with insyms; constant terms count too"""
    tot = Fraction(0)
    for row, rr in zip(rows, ref):
        for j, s in enumerate(insyms):
            d = row.get(s, 0) - rr[j]
            tot += d * d
        c = row.get(1, 0)
        tot += c * c
    return tot

def ground_le(res, lhs, rhs, desc):
    """ground obligation lhs <= rhs over rationals, discharged by z3 (trivial, but keeps every verdict a solver verdict)"""
    s = z3.Solver(); s.add(z3.Not(z3.RealVal(lhs) <= z3.RealVal(rhs))); r = s.check(); res.queries += 1
    return r == z3.unsat

_dft_cache = {}
def dft_cs(n):
    """(cos, sin) of -2*pi*q/n as Fractions for q in 0..n-1"""
    if n not in _dft_cache:
        tab = []
        for q in range(n):
            a = -2 * mpmath.pi * q / n
            tab.append((to_frac(mpmath.cos(a)), to_frac(mpmath.sin(a))))
        _dft_cache[n] = tab
    return _dft_cache[n]

def dft_ref_complex_in(n, nx=None, sign=-1, scale=Fraction(1)):
    """reference rows for outputs (re0, im0, re1, ...) over inputs (xre0, xim0, ...) of length nx (zero padded / truncated to n)"""
    nx = n if nx is None else nx
    cs = dft_cs(n); rows = []
    for k in range(n):
        rre = []; rim = []
        for j in range(nx):
            if j >= n: rre += [Fraction(0), Fraction(0)]; rim += [Fraction(0), Fraction(0)]; continue
            c, s_ = cs[(j * k) % n]; s_ = s_ if sign == -1 else -s_
            # (c + i s)(xr + i xi) = (c xr - s xi) + i (s xr + c xi)
            rre += [c * scale, -s_ * scale]; rim += [s_ * scale, c * scale]
        rows.append(rre); rows.append(rim)
    return rows

def dft_ref_real_in(n, nx=None, nout=None):
    nx = n if nx is None else nx; nout = n if nout is None else nout
    cs = dft_cs(n); rows = []
    for k in range(nout):
        rre = []; rim = []
        for j in range(nx):
            if j >= n: rre.append(Fraction(0)); rim.append(Fraction(0)); continue
            c, s_ = cs[(j * k) % n]
            rre.append(c); rim.append(s_)
        rows.append(rre); rows.append(rim)
    return rows

def worst_input(rows, ref, insyms, iters=60):
    """power iteration on E^T E (floats) -> input vector approximately maximising |(C-R)x| / |x| : used only to build a replay vector"""
    n = len(insyms)
    E = [[float(row.get(s, 0) - rr[j]) for j, s in enumerate(insyms)] for row, rr in zip(rows, ref)]
    x = [1.0 / (j + 1) for j in range(n)]
    for _ in range(iters):
        y = [sum(e[j] * x[j] for j in range(n)) for e in E]
        x2 = [sum(E[k][j] * y[k] for k in range(len(E))) for j in range(n)]
        nrm = math.sqrt(sum(v * v for v in x2)) or 1.0
        x = [v / nrm for v in x2]
    return x

def region_check(res, harness, fn, spec, insyms, out_index, nout, ref, tolabs, label, cex, max_paths=96, max_steps=200_000_000):
    """For code whose control flow depends on the data (shortcuts for special inputs): enumerate every feasible path; on each path the outputs are linear forms and z3 (QF_LRA)
    searches the path's input region (intersected with the box |x_j| <= 1) for a point where an output deviates from ref . x by more than tolabs.  Returns True if all paths held."""
    mod, so = load(harness)
    Z = [z3.Real(s_) for s_ in insyms]
    def setup(m):
        args = []; ptrs = []
        for k, v in spec:
            if k in ('i32', 'i64', 'f64'): args.append(v)
            elif k == 'pf64': p = m.alloc_doubles(v, 'arg'); args.append(p); ptrs.append((k, p, len(v)))
            else: p = m.alloc_ints(v, 32, 'arg'); args.append(p); ptrs.append((k, p, len(v)))
        return args, ptrs
    for p in explore(mod, '@' + fn, setup, max_paths=max_paths, max_steps=max_steps):
        if p.out == 'pathbudget': res.inc(f'{label}: more than {max_paths} data-dependent paths'); return False
        if p.out in ('throw', 'ub'):
            res.absorb(p.m); rr, mdl = p.m.check_model(z3.BoolVal(True))
            cex([model_float(mdl, s_, 0.25) for s_ in insyms], f'{label}: a data-dependent path ends in {p.out} {str(p.err)[:160]}'); return False
        if p.out != 'ret': res.inc(f'{label}: path {p.out}: {p.err}'); continue
        res.absorb(p.m)
        ys = read_outs(p.m, p.ctx)[out_index][:nout]
        if p.ret != (nout if not callable(getattr(cex, 'retmap', None)) else p.ret) and False: pass
        try: rows = linear_forms(ys)
        except NonLinear as e: res.inc(f'{label}: a path is not linear in the inputs: {e}'); continue
        sol = z3.SolverFor('QF_LRA'); sol.set('timeout', 60000); sol.add(*p.m.pc)
        for z in Z: sol.add(z >= -1, z <= 1)
        found = None
        for k, row in enumerate(rows):
            coef = [(row.get(s_, 0) - ref[k][j]) for j, s_ in enumerate(insyms)]
            if all(c == 0 for c in coef) and row.get(1, 0) == 0: continue
            if sum(abs(c) for c in coef) + abs(row.get(1, 0)) <= tolabs: continue      # cannot exceed the tolerance anywhere in the box
            diff = z3.Sum([z3.RealVal(c) * Z[j] for j, c in enumerate(coef) if c != 0] + [z3.RealVal(row.get(1, 0))])
            sol.push(); sol.add(z3.Or(diff > z3.RealVal(tolabs), -diff > z3.RealVal(tolabs))); c = sol.check(); res.queries += 1
            if c == z3.sat:
                mdl = model_dict(sol); found = [model_float(mdl, s_, 0.0) for s_ in insyms]; sol.pop(); break
            sol.pop()
            if c != z3.unsat: res.inc(f'{label}: region query unknown'); found = False; break
        if found is None: res.ob(True, 'LRA', f'{label}: path with {len(p.m.taken)} data-dependent decisions: all {nout} outputs within tolerance on the whole path region')
        elif found:
            cex(found, f'{label}: on a data-dependent path (|pc|={len(p.m.pc)}) output {k} leaves the tolerance band'); return False
    return True

# ---------------------------------------------------------------- exact polynomial propagation (degree-bounded) through the DAG
class PolyTooBig(Exception): pass
def p_add(a, b, sg=1):
    r = dict(a)
    for k, c in b.items():
        n = r.get(k, 0) + sg * c
        if n == 0: r.pop(k, None)
        else: r[k] = n
    return r
def p_mul(a, b, maxdeg):
    r = {}
    for k1, c1 in a.items():
        for k2, c2 in b.items():
            k = tuple(sorted(k1 + k2))
            if len(k) > maxdeg: raise PolyTooBig(f'degree > {maxdeg}')
            n = r.get(k, 0) + c1 * c2
            if n == 0: r.pop(k, None)
            else: r[k] = n
    return r
def poly_forms(outs, maxdeg=2):
    """-> list of polynomials {monomial tuple of symbol names: Fraction}; division only by constants.  Raises NonLinear / PolyTooBig otherwise."""
    val = {}
    def g(a): return val[a.id] if isF(a) else ({(): Fraction(a)} if a != 0 else {})
    for f in topo(outs):
        op = f.op
        if op == 'sym': v = {(f.args[0],): Fraction(1)}
        elif op == 'fneg': v = {k: -c for k, c in g(f.args[0]).items()}
        elif op == 'fadd': v = p_add(g(f.args[0]), g(f.args[1]))
        elif op == 'fsub': v = p_add(g(f.args[0]), g(f.args[1]), -1)
        elif op == 'fmul': v = p_mul(g(f.args[0]), g(f.args[1]), maxdeg)
        elif op == 'fdiv':
            b = g(f.args[1])
            if set(b) - {()} or not b: raise NonLinear(f'division by a non-constant at {f}')
            v = {k: c / b[()] for k, c in g(f.args[0]).items()}
        else: raise NonLinear(f'op {op} at {f}')
        val[f.id] = v
    return [g(o) for o in outs]
def poly_l1_diff(p, q):
    ks = set(p) | set(q); return sum(abs(p.get(k, 0) - q.get(k, 0)) for k in ks)
def poly_eval(p, env):
    tot = Fraction(0)
    for k, c in p.items():
        t = c
        for s in k: t *= env[s]
        tot += t
    return tot

def float_forms(outs, insyms):
    """coefficient matrix of syntactically linear outputs, propagated in double arithmetic (numpy) - for lengths where exact rational forms are out of reach.
    Returns (len(outs) x (len(insyms)+1)) array, last column = constant term.  The coefficients are exactly what the code computes for the basis vectors, up to
    the (few-ulp) rounding of this propagation; raises NonLinear when an output is not linear in the symbols."""
    import numpy as np
    K = len(insyms); idx = {s: i for i, s in enumerate(insyms)}
    order = topo(outs); uses = {}
    for f in order:
        for a in f.args:
            if isF(a): uses[a.id] = uses.get(a.id, 0) + 1
    for o in outs:
        if isF(o): uses[o.id] = uses.get(o.id, 0) + 1
    val = {}
    def g(a): return val[a.id] if isF(a) else float(a)
    def rel(a):
        if isF(a):
            uses[a.id] -= 1
            if uses[a.id] == 0: del val[a.id]
    res = {}
    outids = {o.id for o in outs if isF(o)}
    for f in order:
        op = f.op
        if op == 'sym':
            if f.args[0] not in idx: raise NonLinear(f'foreign symbol {f.args[0]}')
            v = np.zeros(K + 1); v[idx[f.args[0]]] = 1.0
        elif op == 'fneg':
            a = g(f.args[0]); v = -a
        elif op in ('fadd', 'fsub'):
            a = g(f.args[0]); b = g(f.args[1]); sg = 1.0 if op == 'fadd' else -1.0
            if isinstance(a, float) and isinstance(b, float): v = a + sg * b
            elif isinstance(a, float): v = sg * b; v = v.copy() if sg == 1.0 else v; v[K] += a
            elif isinstance(b, float): v = a.copy(); v[K] += sg * b
            else: v = a + sg * b
        elif op == 'fmul':
            a = g(f.args[0]); b = g(f.args[1])
            if isinstance(a, float) or isinstance(b, float): v = a * b
            else: raise NonLinear('product of two input-dependent terms')
        elif op == 'fdiv':
            a = g(f.args[0]); b = g(f.args[1])
            if not isinstance(b, float): raise NonLinear('division by an input-dependent term')
            v = a / b
        else: raise NonLinear(f'op {op}')
        val[f.id] = v
        if f.id in outids: res[f.id] = v
        for a in f.args: rel(a)
    rows = np.zeros((len(outs), K + 1))
    for k, o in enumerate(outs):
        if isF(o):
            v = res[o.id]
            if isinstance(v, float): rows[k, K] = v
            else: rows[k] = v
        else: rows[k, K] = float(o)
    return rows

def path_consistency(res, harness, fn, spec, insyms, out_index, tolabs, label, cex, max_paths=48, max_steps=200_000_000):
    """A map that must be ONE linear map for every input but whose control flow depends on the data: enumerate feasible paths (up to max_paths); the path taken by a generic
    point is the reference; on every other path z3 (QF_LRA) searches the path's region (within |x_j| <= 1) for an input where some output differs from the reference path's
    linear form by more than tolabs.  Returns (ok, reference path record or None); a found input is handed to cex(xv, why)."""
    mod, so = load(harness); Z = {s_: z3.Real(s_) for s_ in insyms}
    gen = {s_: Fraction(3, 10) + Fraction(int(1000 * math.sin(1.3 + 0.7 * i)), 10007) for i, s_ in enumerate(insyms)}
    def setup(m):
        args = []; ptrs = []
        for k, v in spec:
            if k in ('i32', 'i64', 'f64'): args.append(v)
            elif k == 'pf64': p = m.alloc_doubles(v, 'arg'); args.append(p); ptrs.append((k, p, len(v)))
            else: p = m.alloc_ints(v, 32, 'arg'); args.append(p); ptrs.append((k, p, len(v)))
        return args, ptrs
    recs = []; budget = False
    sub = [(Z[s_], z3.RealVal(gen[s_])) for s_ in insyms]
    for p in explore(mod, '@' + fn, setup, max_paths=max_paths, max_steps=max_steps, guide=sub):
        if p.out == 'pathbudget': budget = True; break
        res.absorb(p.m)
        if p.out in ('throw', 'ub'):
            rr, mdl = p.m.check_model(z3.BoolVal(True)); cex([model_float(mdl, s_, 0.25) for s_ in insyms], f'{label}: a data-dependent path ends in {p.out} {str(p.err)[:160]}'); return False, None
        if p.out != 'ret': res.inc(f'{label}: path {p.out}: {p.err}'); continue
        ys = read_outs(p.m, p.ctx)[out_index]
        n = p.ret if isinstance(p.ret, int) else len(ys)
        try: rows = linear_forms(ys[:max(n, 0)])
        except NonLinear as e: res.inc(f'{label}: a path is not linear in the inputs: {e}'); continue
        recs.append((list(p.m.pc), rows, n, p.m))
    ref = None
    for rec in recs:
        if all(z3.is_true(z3.simplify(z3.substitute(c, *sub))) for c in rec[0]): ref = rec; break
    if ref is None:
        res.inc(f'{label}: data-dependent control flow and the path of a generic input was not among the first {max_paths} paths'); return False, None
    for (pc, rows, n, m_) in recs:
        if rows is ref[1]: continue
        sol = z3.SolverFor('QF_LRA'); sol.set('timeout', 60000); sol.add(*pc)
        for z in Z.values(): sol.add(z >= -1, z <= 1)
        if n != ref[2]:
            if sol.check() == z3.sat:
                mdl = model_dict(sol); cex([model_float(mdl, s_, 0.0) for s_ in insyms], f'{label}: a data-dependent path returns {n} values instead of {ref[2]}'); return False, ref
            continue
        for k, (row, rr) in enumerate(zip(rows, ref[1])):
            keys = set(row) | set(rr); coef = {s_: row.get(s_, 0) - rr.get(s_, 0) for s_ in keys}
            if sum(abs(c) for c in coef.values()) <= tolabs: continue
            diff = z3.Sum([z3.RealVal(c) * (Z[s_] if s_ != 1 else z3.RealVal(1)) for s_, c in coef.items() if c != 0])
            sol.push(); sol.add(z3.Or(diff > z3.RealVal(tolabs), -diff > z3.RealVal(tolabs))); c = sol.check(); res.queries += 1
            if c == z3.sat:
                mdl = model_dict(sol); sol.pop()
                cex([model_float(mdl, s_, 0.0) for s_ in insyms], f'{label}: the result depends on the data beyond linearity: on a path with {len(pc)} conditions output {k} differs from what the generic path computes'); return False, ref
            sol.pop()
            if c != z3.unsat: res.inc(f'{label}: path-consistency query unknown'); return False, ref
        res.ob(True, 'LRA', f'{label}: a data-dependent path ({len(pc)} conditions) computes the same linear map as the generic path on its whole region')
    if budget: res.inc(f'{label}: more than {max_paths} data-dependent paths (those explored agree with the generic path)'); return False, ref
    return True, ref
