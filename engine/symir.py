"""symir: symbolic interpreter over clang-14 LLVM IR (typed pointers), z3 as the solver.

Value domains
  iN      : python int (mod 2^N)  | BV (z3 BitVec)  | SB (z3 Bool, for i1)
  double  : python float (IEEE binary64, RNE; libm via ctypes to the same libm.so.6) | F  (theory-neutral hash-consed DAG node)
  pointer : Ptr(block, offset) with offset int | BV(64)
Paths: data dependent branches fork by re-execution with a decision prefix (see explore()).
UB obligations (nsw/nuw, shifts, div, bounds, llvm.assume, unreachable) are checked on every path; a *possible* UB on symbolic
values is recorded with a model and the path continues under its negation."""
import struct, math, ctypes, sys, time
import numpy as np
LD = np.longdouble      # x86_fp80 values (concrete only): numpy's long double is the x87 80-bit format on x86-64
from fractions import Fraction
import z3
from irparse import *

libm = ctypes.CDLL('libm.so.6')
for _n in ('cos', 'sin', 'exp', 'log', 'log2', 'log10', 'sqrt', 'atan', 'tanh', 'floor', 'ceil', 'round', 'fabs', 'tan', 'acos', 'asin',
           'sinh', 'cosh', 'exp2', 'trunc', 'rint', 'nearbyint', 'cbrt', 'expm1', 'log1p'):
    getattr(libm, _n).restype = ctypes.c_double; getattr(libm, _n).argtypes = [ctypes.c_double]
for _n in ('pow', 'fmod', 'atan2', 'hypot', 'remainder', 'fmin', 'fmax', 'copysign'):
    getattr(libm, _n).restype = ctypes.c_double; getattr(libm, _n).argtypes = [ctypes.c_double, ctypes.c_double]

M64 = (1 << 64) - 1
def sgn(v, w): return v - (1 << w) if v >> (w - 1) else v

# ---------------------------------------------------------------- symbolic doubles (theory-neutral DAG)
class F:
    __slots__ = ('op', 'args', 'id')
    _tab = {}; _n = 0
    def __new__(cls, op, *args):
        key = (op,) + tuple(a.id if isinstance(a, F) else ('c', a) if not isinstance(a, float) else ('f', struct.pack('<d', a)) for a in args)
        o = F._tab.get(key)
        if o is None:
            o = object.__new__(cls); o.op = op; o.args = args; F._n += 1; o.id = F._n; F._tab[key] = o
        return o
    def __repr__(s): return f"F{s.id}:{s.op}"
    @staticmethod
    def reset():
        F._tab = {}; F._n = 0
        _cond_tab.clear()
def fsym(name): return F('sym', name)
def isF(x): return isinstance(x, F)
def _fkey(a): return (1, a.id) if isF(a) else (0, struct.pack('<d', a))
def ld_from_bits(v):
    return np.frombuffer(v.to_bytes(10, 'little') + bytes(6), dtype=LD)[0]
def fbin(op, a, b):
    if isinstance(a, LD) or isinstance(b, LD):
        if isF(a) or isF(b): raise Unsupported('x86_fp80 arithmetic on a symbolic value')
        a = LD(a); b = LD(b)
        with np.errstate(all='ignore'):
            return a + b if op == 'fadd' else a - b if op == 'fsub' else a * b if op == 'fmul' else a / b
    if not isF(a) and not isF(b):
        if op == 'fadd': return a + b
        if op == 'fsub': return a - b
        if op == 'fmul': return a * b
        if op == 'fdiv':
            try: return a / b
            except ZeroDivisionError:
                if a != a or a == 0: return float('nan')
                return math.copysign(float('inf'), a) * math.copysign(1.0, b)
    if op in ('fadd', 'fmul') and _fkey(b) < _fkey(a): a, b = b, a   # IEEE add/mul are commutative: canonical operand order
    return F(op, a, b)

_cond_tab = {}   # key -> z3 Bool / BitVec referenced from 'ite' / 'sitofp' nodes
def cond_key(e):
    k = e.get_id(); _cond_tab[k] = e; return k

def topo(outs):
    seen = set(); order = []
    st = [(o, 0) for o in outs if isF(o)]
    while st:
        f, i = st.pop()
        if f.id in seen: continue
        if i == 0:
            st.append((f, 1))
            for a in f.args:
                if isF(a) and a.id not in seen: st.append((a, 0))
        else:
            seen.add(f.id); order.append(f)
    return order

class Lower:
    """lower DAG nodes into a z3 theory.  mode: 'REAL' (exact reals, libm = uninterpreted functions),
    'UF' (every FP op an uninterpreted function over an uninterpreted sort-like Real carrier), 'FP' (Float64 RNE)."""
    def __init__(s, mode='REAL', abstract_int=False):
        s.mode = mode; s.memo = {}; s.fn = {}; s.side = []   # side constraints (sqrt/fabs axioms)
        s.abstract_int = abstract_int    # int->double conversions become free real constants itofp_<id> (sound for identities that hold over the reals)
        s.R = z3.RealSort(); s.FP = z3.Float64(); s.rm = z3.RNE()
        s.usort = z3.DeclareSort('D') if mode == 'UF' else None
    def sort(s): return {'REAL': s.R, 'UF': s.usort, 'FP': s.FP}[s.mode]
    def func(s, name, ar):
        k = (name, ar)
        if k not in s.fn: s.fn[k] = z3.Function(name + '_' + s.mode, *([s.sort()] * ar + [s.sort()]))
        return s.fn[k]
    def const(s, v):
        if s.mode == 'REAL':
            if v != v or v in (float('inf'), float('-inf')): raise Unsupported('non-finite constant in REAL lowering')
            return z3.RealVal(Fraction(v))
        if s.mode == 'FP': return z3.FPVal(v, s.FP)
        k = ('const', struct.pack('<d', v))
        if k not in s.fn: s.fn[k] = z3.Const('c_' + struct.pack('>d', v).hex(), s.usort)
        return s.fn[k]
    def __call__(s, f):
        if not isF(f): return s.const(f)
        r = s.memo.get(f.id)
        if r is not None: return r
        for g in topo([f]):
            if g.id not in s.memo: s.memo[g.id] = s._one(g)
        return s.memo[f.id]
    def _a(s, a): return s.memo[a.id] if isF(a) else s.const(a)
    def _one(s, f):
        op = f.op; m = s.mode
        if op == 'sym':
            return z3.Const(f.args[0], s.sort())
        if op == 'ite':
            return z3.If(_cond_tab[f.args[0]], s._a(f.args[1]), s._a(f.args[2]))
        if op == 'frombits':
            k = ('frombits', f.args[0])
            if k not in s.fn: s.fn[k] = z3.Const(f'frombits_{f.args[0]}', s.sort())
            return s.fn[k]
        if op in ('sitofp', 'uitofp'):
            bv = _cond_tab[f.args[0]]
            if m == 'REAL' and s.abstract_int: return z3.Real(f'itofp_{f.args[0]}')
            if m == 'REAL': return z3.ToReal(z3.BV2Int(bv, op == 'sitofp'))
            if m == 'FP': return z3.fpSignedToFP(s.rm, bv, s.FP) if op == 'sitofp' else z3.fpUnsignedToFP(s.rm, bv, s.FP)
            k = ('itofp', f.args[0])
            if k not in s.fn: s.fn[k] = z3.Const(f'itofp_{f.args[0]}', s.usort)
            return s.fn[k]
        if op == 'call':
            name = f.args[0]; xs = [s._a(a) for a in f.args[1:]]
            if m == 'REAL':
                fl = lambda e: z3.ToReal(z3.ToInt(e))
                if name == 'floor': return fl(xs[0])
                if name == 'ceil': return -fl(-xs[0])
                if name == 'trunc': return z3.If(xs[0] >= 0, fl(xs[0]), -fl(-xs[0]))
                if name == 'round': return z3.If(xs[0] >= 0, fl(xs[0] + z3.RealVal('1/2')), -fl(-xs[0] + z3.RealVal('1/2')))      # C round(): halves away from zero
                if name == 'fabs': return z3.If(xs[0] >= 0, xs[0], -xs[0])
                if name == 'sqrt':
                    v = z3.FreshConst(s.R, 'sqrt'); s.side.append(z3.And(v >= 0, v * v == xs[0])); return v
                if name == 'hypot':
                    v = z3.FreshConst(s.R, 'hypot'); s.side.append(z3.And(v >= 0, v * v == xs[0] * xs[0] + xs[1] * xs[1])); return v
            if m == 'FP':
                if name == 'fabs': return z3.fpAbs(xs[0])
                if name == 'sqrt': return z3.fpSqrt(s.rm, xs[0])
            return s.func(name, len(xs))(*xs)
        if op == 'fneg':
            a = s._a(f.args[0])
            if m == 'REAL': return -a
            if m == 'FP': return z3.fpNeg(a)
            return s.func('fneg', 1)(a)
        a = s._a(f.args[0]); b = s._a(f.args[1])
        if m == 'REAL':
            if op == 'fadd': return a + b
            if op == 'fsub': return a - b
            if op == 'fmul': return a * b
            if op == 'fdiv': return a / b
        elif m == 'FP':
            return {'fadd': z3.fpAdd, 'fsub': z3.fpSub, 'fmul': z3.fpMul, 'fdiv': z3.fpDiv}[op](s.rm, a, b)
        else:
            return s.func(op, 2)(a, b)
        raise Unsupported('lower ' + op)

def linear_forms(outs):
    """propagate sparse linear forms {sym: Fraction, 1: const} through the DAG.  Returns list of dicts or raises NonLinear."""
    val = {}
    def g(a): return val[a.id] if isF(a) else {1: Fraction(a)} if a != 0 else {}
    for f in topo(outs):
        op = f.op
        if op == 'sym': v = {f.args[0]: Fraction(1)}
        elif op == 'fneg': v = {k: -c for k, c in g(f.args[0]).items()}
        elif op in ('fadd', 'fsub'):
            a = g(f.args[0]); b = g(f.args[1]); v = dict(a); sg = 1 if op == 'fadd' else -1
            for k, c in b.items():
                n = v.get(k, 0) + sg * c
                if n == 0: v.pop(k, None)
                else: v[k] = n
        elif op == 'fmul':
            a = g(f.args[0]); b = g(f.args[1])
            if all(k == 1 for k in a): c = a.get(1, Fraction(0)); v = {k: c * x for k, x in b.items()} if c != 0 else {}
            elif all(k == 1 for k in b): c = b.get(1, Fraction(0)); v = {k: c * x for k, x in a.items()} if c != 0 else {}
            else: raise NonLinear(f'product of two non-constant terms at {f}')
        elif op == 'fdiv':
            a = g(f.args[0]); b = g(f.args[1])
            if not all(k == 1 for k in b) or not b: raise NonLinear(f'division by non-constant at {f}')
            c = b[1]; v = {k: x / c for k, x in a.items()}
        else: raise NonLinear(f'op {op} at {f}')
        val[f.id] = v
    return [g(o) for o in outs]

class NonLinear(Exception): pass

# symbolic integers: z3 BitVec wrapped with width
class BV:
    __slots__ = ('e', 'w')
    def __init__(s, e, w): s.e = e; s.w = w
    def __repr__(s): return f"BV{s.w}({s.e})"
def isBV(x): return isinstance(x, BV)
class SB:  # symbolic bool (i1)
    __slots__ = ('e',)
    def __init__(s, e): s.e = e
def bve(x, w):
    if isBV(x):
        assert x.w == w, (x.w, w)
        return x.e
    if isinstance(x, SB): return z3.If(x.e, z3.BitVecVal(1, w), z3.BitVecVal(0, w))
    if not isinstance(x, int): raise Unsupported(f'bve of {type(x).__name__} {x!r}')
    return z3.BitVecVal(x, w)
def bvsym(name, w): return BV(z3.BitVec(name, w), w)
SIMPLIFY = True       # drivers that push one symbolic value through very long arithmetic chains (e.g. mt19937 seeding) switch the per-operation simplification off
def mkbv(e, w):
    if SIMPLIFY: e = z3.simplify(e)
    if z3.is_bv_value(e): return e.as_long()
    return BV(e, w)
def mksb(e):
    e = z3.simplify(e)
    if z3.is_true(e): return 1
    if z3.is_false(e): return 0
    return SB(e)

class Ptr:
    __slots__ = ('b', 'o')
    def __init__(s, b, o): s.b = b; s.o = o
    def __repr__(s): return f"P({s.b},{s.o})"
    def __eq__(s, t): return isinstance(t, Ptr) and s.b == t.b and (s.o is t.o or (not isBV(s.o) and not isBV(t.o) and s.o == t.o))
    def __hash__(s): return hash((s.b, s.o if not isBV(s.o) else s.o.e.get_id()))
NULL = Ptr(0, 0)
class PInt:
    """integer that is a linear combination of block base addresses plus a constant (LLVM loop idioms compute e.g. -16 - p + q on ptrtoint values);
    collapses to a plain int / pointer as soon as the base coefficients allow.  The constant part may be a symbolic 64-bit expression (pointers at symbolic offsets)."""
    __slots__ = ('t', 'o')
    def __init__(s, t, o): s.t = t; s.o = o
    @staticmethod
    def of(x):
        if isinstance(x, PInt): return x
        if isinstance(x, Ptr):
            o = x.o.e if isBV(x.o) else x.o
            return PInt({x.b: 1}, o) if x.b != 0 else PInt({}, o)
        if isinstance(x, int): return PInt({}, x)
        if isBV(x) and x.w == 64: return PInt({}, x.e)
        raise Unsupported(f'pointer arithmetic with {type(x).__name__}')
    def norm(s, w=64):
        t = {b: c for b, c in s.t.items() if c != 0}
        o = s.o if isinstance(s.o, int) else mkbv(s.o, 64)
        if not t: return (o & ((1 << w) - 1)) if isinstance(o, int) else o
        if len(t) == 1 and list(t.values()) == [1]: return Ptr(list(t)[0], o)
        return PInt(t, s.o)
def _po(v): return v if not isinstance(v, int) else z3.BitVecVal(v & ((1 << 64) - 1), 64)
def pint_op(op, x, y, w):
    a = PInt.of(x if not isinstance(x, int) else sgn(x, w)); b = PInt.of(y if not isinstance(y, int) else sgn(y, w))
    sg = 1 if op == 'add' else -1
    t = dict(a.t)
    for k, c in b.t.items(): t[k] = t.get(k, 0) + sg * c
    if isinstance(a.o, int) and isinstance(b.o, int): o = a.o + sg * b.o
    else: o = (_po(a.o) + _po(b.o)) if sg == 1 else (_po(a.o) - _po(b.o))
    return PInt(t, o).norm(w)
class Bits:  # integer view of a symbolic double (type punning through i64 loads)
    __slots__ = ('f',)
    def __init__(s, f): s.f = f

class Block:
    __slots__ = ('size', 'data', 'cells', 'kind', 'alive', 'tag', 'born')
    def __init__(s, size, kind, tag=None, born=0):
        s.size = size; s.data = bytearray(size); s.cells = {}; s.kind = kind; s.alive = True; s.tag = tag; s.born = born

class Throw(Exception):
    def __init__(s, what): s.what = what
class UB(Exception):
    pass
class Unsupported(Exception):
    pass
class Budget(Exception):
    pass
class Infeasible(Exception):
    pass

class Frame:
    __slots__ = ('f', 'regs', 'blk', 'idx', 'prev', 'allocas', 'dst')
    def __init__(s, f): s.f = f; s.regs = {}; s.blk = f.entry; s.idx = 0; s.prev = None; s.allocas = []; s.dst = None

class Machine:
    def __init__(s, mod, preset=(), ubcheck=True, max_steps=20_000_000):
        s.m = mod; s.blocks = {}; s.nb = 1; s.gaddr = {}; s.faddr = {}; s.fbyblk = {}
        s.steps = 0; s.max_steps = max_steps
        s.pc = []; s.sol = z3.Solver(); s.low = Lower('REAL'); s.nside = 0
        s.preset = list(preset); s.taken = []; s.pending = []
        s.ubcheck = ubcheck; s.ub_found = []          # (kind, message, model-dict, where)
        s.stores = []; s.trace_stores = False; s.loads = []; s.trace_loads = False
        s.calls = {}; s.call_log = None; s.log_names = ()
        s.ext = dict(EXT); s.override = {}
        s.locks_held = 0; s.epoch = 0
        s.nqueries = 0; s.tsolve = 0.0
        s.cur = None
        for name in list(mod.funcs) + list(mod.decls):
            b = s.new_block(1, 'func', name); s.faddr[name] = b; s.fbyblk[b] = name
        for name, (t, init, const, tl) in mod.globals.items():
            s.gaddr[name] = s.new_block(sizeof(t), 'tls' if tl else ('const' if const else 'global'), name)
        for name, (t, init, const, tl) in mod.globals.items():
            if init is not None: s.init_const(Ptr(s.gaddr[name], 0), t, init)

    def new_block(s, size, kind, tag=None):
        b = s.nb; s.nb += 1; s.blocks[b] = Block(size, kind, tag, s.epoch); return b

    # ------------------------------------------------------------ helpers for drivers
    def alloc_doubles(s, vals, tag='in'):
        b = s.new_block(8 * max(len(vals), 1), 'heap', tag)
        for i, v in enumerate(vals): s.store(DOUBLE, v, Ptr(b, 8 * i))
        return Ptr(b, 0)
    def alloc_ints(s, vals, w=32, tag='in'):
        n = w // 8; b = s.new_block(n * max(len(vals), 1), 'heap', tag)
        for i, v in enumerate(vals): s.store(IT(w), v, Ptr(b, n * i))
        return Ptr(b, 0)
    def read_doubles(s, p, n): return [s.load(DOUBLE, Ptr(p.b, p.o + 8 * i)) for i in range(n)]
    def read_ints(s, p, n, w=32): return [s.load(IT(w), Ptr(p.b, p.o + (w // 8) * i)) for i in range(n)]
    def assume(s, e):
        s.pc.append(e); s.sol.add(e)
    def reachable_from_globals(s):
        """ids of blocks reachable through stored pointers from mutable non-thread_local globals (i.e. memory other threads can reach)"""
        seen = set(); work = [b for b, blk in s.blocks.items() if blk.kind == 'global']
        while work:
            b = work.pop()
            if b in seen: continue
            seen.add(b)
            for (n, v) in s.blocks[b].cells.values():
                if isinstance(v, Ptr) and v.b not in seen and v.b in s.blocks and s.blocks[v.b].kind not in ('func',): work.append(v.b)
        return seen

    # ------------------------------------------------------------ constants
    def const(s, t, v, regs=None):
        k = v[0]
        if k == 'l': return regs[v[1]]
        if k == 'c':
            c = v[1]
            if type(c) is tuple and c[0] == 'fp80': return ld_from_bits(c[1])
            return c
        if k == 'g':
            n = v[1]
            if n in s.gaddr: return Ptr(s.gaddr[n], 0)
            if n in s.faddr: return Ptr(s.faddr[n], 0)
            if n in s.m.aliases: return s.const(None, s.m.aliases[n])
            raise Unsupported(f"global {n}")
        if k == 'null': return NULL
        if k == 'undef' or k == 'zero':
            t = v[1]
            if isinstance(t, IntTy): return 0
            if isinstance(t, FloatTy): return 0.0
            if isinstance(t, PtrTy): return NULL
            if isinstance(t, StructTy): return [s.const(e, ('zero', e)) for e in t.els]
            if isinstance(t, ArrTy): return [s.const(t.el, ('zero', t.el)) for _ in range(t.n)]
        if k == 'cgep':
            base = s.const(None, v[2], regs); return s.gep(v[1], base, [(it, s.const(it, iv, regs)) for it, iv in v[3]])
        if k == 'ccast':
            x = s.const(v[2], v[3], regs); return s.cast(v[1], v[2], x, v[4])
        if k == 'agg': return [s.const(et, ev, regs) for et, ev in v[1]]
        if k == 'meta': return None
        if k == 'cbin':
            return s.ibin(v[1], v[2], s.const(v[2], v[3], regs), s.const(v[2], v[4], regs), ())
        if k == 'cicmp':
            return s.icmp(v[1], v[2], s.const(v[2], v[3], regs), s.const(v[2], v[4], regs))
        raise Unsupported(f"const {v}")

    def init_const(s, p, t, v):
        k = v[0]
        if k == 'zero': return
        if k == 'bytes':
            b = s.blocks[p.b]; b.data[p.o:p.o + len(v[1])] = v[1]; return
        if k == 'agg':
            if isinstance(t, StructTy):
                offs, _ = layout(t)
                for (et, ev), o in zip(v[1], offs): s.init_const(Ptr(p.b, p.o + o), et, ev)
            else:
                es = sizeof(t.el)
                for i, (et, ev) in enumerate(v[1]): s.init_const(Ptr(p.b, p.o + i * es), et, ev)
            return
        if k == 'undef': return
        s.store(t, s.const(t, v), p, init=True)

    # ------------------------------------------------------------ UB bookkeeping
    def where(s):
        fr = s.cur
        return f"{fr.f.name}: {fr.f.blocks[fr.blk][fr.idx - 1].line[:140]}" if fr else ''
    def ub_sym(s, bad, kind, msg):
        """bad: z3 Bool under which UB happens. Record if feasible, continue under its negation."""
        if not s.ubcheck: return
        r, model = s.check_model(bad)
        if r == z3.sat:
            s.ub_found.append((kind, msg, model, s.where()))
            s.assume(z3.Not(bad))
        elif r != z3.unsat:
            s.ub_found.append((kind + '?', msg + ' (solver unknown)', {}, s.where()))
            s.assume(z3.Not(bad))
    def ub_now(s, kind, msg):
        raise UB(f"{kind}: {msg}")

    # ------------------------------------------------------------ memory
    def chk(s, p, n, write=False):
        if not isinstance(p, Ptr): raise Unsupported(f"deref non-pointer {p!r}")
        b = s.blocks.get(p.b)
        if b is None or p.b == 0: s.ub_now('null-deref', f"null/invalid pointer dereference {p}")
        if not b.alive: s.ub_now('use-after-free', f"access to dead block {b.kind} {b.tag}")
        if b.kind == 'func': s.ub_now('bad-deref', 'data access to function')
        if isBV(p.o):
            bad = z3.Or(p.o.e < 0, p.o.e > b.size - n)
            s.ub_sym(bad, 'out-of-bounds', f"{'write' if write else 'read'} of {n}B possible outside block of {b.size}B ({b.kind} {b.tag})")
            return b
        if p.o < 0 or p.o + n > b.size:
            s.ub_now('out-of-bounds', f"{'write' if write else 'read'} of {n}B at offset {p.o} of block {b.size}B ({b.kind} {b.tag})")
        return b

    def store(s, t, v, p, init=False):
        n = sizeof(t); b = s.chk(p, n, True); o = p.o
        if isBV(o):
            if s.trace_stores: s.stores.append((p.b, None, n, s.locks_held))
            for k in range(0, b.size - n + 1, n):
                c = z3.simplify(z3.And(*s.pc_tail(), o.e == k)) if False else z3.simplify(o.e == k)
                if z3.is_false(c): continue
                if not s.feasible(c): continue
                old = s.load(t, Ptr(p.b, k))
                if z3.is_true(c): s._store1(t, v, b, k, n); continue
                s._store1(t, s.ite(t, c, v, old), b, k, n)
            return
        if s.trace_stores and not init: s.stores.append((p.b, o, n, s.locks_held))
        if b.kind == 'const' and not init: s.ub_now('write-to-const', f'store to constant global {b.tag}')
        s._store1(t, v, b, o, n)

    def _store1(s, t, v, b, o, n):
        if b.cells:
            for k in [k for k in b.cells if k < o + n and k + b.cells[k][0] > o]:
                if k != o or b.cells[k][0] != n: s._split_cell(b, k)
                b.cells.pop(k, None)
        if isinstance(t, IntTy) and isinstance(v, int):
            b.data[o:o + n] = (v & ((1 << (8 * n)) - 1)).to_bytes(n, 'little')
        elif isinstance(t, FloatTy) and isinstance(v, float):
            b.data[o:o + n] = struct.pack('<d' if n == 8 else '<f', v)
        elif isinstance(t, (StructTy, ArrTy)):
            # aggregate store: element-wise
            if isinstance(t, StructTy):
                offs, _ = layout(t)
                for et, ev, eo in zip(t.els, v, offs): s._store1(et, ev, b, o + eo, sizeof(et))
            else:
                es = sizeof(t.el)
                for i, ev in enumerate(v): s._store1(t.el, ev, b, o + i * es, es)
        else:
            if isinstance(v, Ptr) and v.b == 0 and v.o == 0:
                b.data[o:o + n] = bytes(n)
            else:
                b.cells[o] = (n, v)

    def _split_cell(s, b, k):
        """a symbolic cell is partially overwritten: only supported for BV ints (split into bytes)"""
        n, v = b.cells[k]
        if isBV(v):
            del b.cells[k]
            for i in range(n): b.cells[k + i] = (1, mkbv(z3.Extract(8 * i + 7, 8 * i, v.e), 8))
            for i in range(n):
                c = b.cells.get(k + i)
                if c and not isBV(c[1]):
                    b.data[k + i] = c[1]; del b.cells[k + i]
            return
        raise Unsupported(f"partial overwrite of symbolic cell ({type(v).__name__})")

    def pc_tail(s): return ()

    def ite(s, t, c, a, b2):
        if a is b2: return a
        if isinstance(t, FloatTy):
            if not isF(a) and not isF(b2) and struct.pack('<d', a) == struct.pack('<d', b2): return a
            return F('ite', cond_key(c), a, b2)
        if isinstance(t, IntTy):
            if isinstance(a, Bits) or isinstance(b2, Bits):
                fa = a.f if isinstance(a, Bits) else struct.unpack('<d', struct.pack('<Q', a))[0]
                fb = b2.f if isinstance(b2, Bits) else struct.unpack('<d', struct.pack('<Q', b2))[0]
                return Bits(s.ite(DOUBLE, c, fa, fb))
            if t.w == 1:
                tb = lambda q: q.e if isinstance(q, SB) else z3.BoolVal(bool(q))
                return mksb(z3.If(c, tb(a), tb(b2)))
            if isinstance(a, Ptr) or isinstance(b2, Ptr): raise Unsupported('ite of pointers')
            return mkbv(z3.If(c, bve(a, t.w), bve(b2, t.w)), t.w)
        raise Unsupported('ite of ' + str(t))

    def load(s, t, p):
        n = sizeof(t); b = s.chk(p, n); o = p.o
        if isBV(o):
            r = None
            for k in range(b.size - n, -1, -n):
                c = z3.simplify(o.e == k)
                if z3.is_false(c): continue
                if not s.feasible(c): continue
                v = s.load(t, Ptr(p.b, k))
                r = v if (r is None or z3.is_true(c)) else s.ite(t, c, v, r)
            if r is None: raise Infeasible('symbolic load with no feasible cell (path condition excludes every cell)')
            return r
        if s.trace_loads: s.loads.append((p.b, o, n, s.locks_held))
        c = b.cells.get(o)
        if c is not None and c[0] == n:
            v = c[1]
            if isinstance(t, IntTy) and isF(v): return Bits(v)
            if isinstance(t, FloatTy) and isinstance(v, Bits): return v.f
            if isinstance(t, FloatTy) and isBV(v): return F('frombits', cond_key(v.e))      # double whose bit pattern is a symbolic integer (opaque to the real theory)
            if isinstance(t, FloatTy) and isinstance(v, int): return struct.unpack('<d', struct.pack('<Q', v))[0]
            return v
        if isinstance(t, (StructTy, ArrTy)):
            if isinstance(t, StructTy):
                offs, _ = layout(t); return [s.load(et, Ptr(p.b, o + eo)) for et, eo in zip(t.els, offs)]
            es = sizeof(t.el); return [s.load(t.el, Ptr(p.b, o + i * es)) for i in range(t.n)]
        if b.cells:
            ov = [k for k in b.cells if k < o + n and k + b.cells[k][0] > o]
            if ov:
                if isinstance(t, IntTy): return s._load_bytes(b, o, n, t)
                raise Unsupported(f"partial access to symbolic cell at {p}")
        raw = bytes(b.data[o:o + n])
        if isinstance(t, IntTy): return int.from_bytes(raw, 'little') & ((1 << t.w) - 1)
        if isinstance(t, FloatTy): return struct.unpack('<d' if n == 8 else '<f', raw)[0]
        if isinstance(t, PtrTy):
            x = int.from_bytes(raw, 'little')
            if x == 0: return NULL
            raise Unsupported(f"load raw pointer {x:#x}")
        raise Unsupported(f"load {t}")

    def _load_bytes(s, b, o, n, t):
        parts = []
        i = 0
        while i < n:
            c = b.cells.get(o + i)
            if c is not None:
                if not (isBV(c[1]) or isinstance(c[1], int)) or o + i + c[0] > o + n: raise Unsupported('partial access to non-int symbolic cell')
                parts.append((c[0], bve(c[1], 8 * c[0]))); i += c[0]
            else:
                for k in b.cells:
                    if k < o + i < k + b.cells[k][0]:
                        cc = b.cells[k]
                        if not isBV(cc[1]): raise Unsupported('partial access to non-int symbolic cell')
                        parts.append((1, z3.Extract(8 * (o + i - k) + 7, 8 * (o + i - k), cc[1].e))); break
                else:
                    parts.append((1, z3.BitVecVal(b.data[o + i], 8)))
                i += 1
        e = parts[0][1]
        for _, x in parts[1:]: e = z3.Concat(x, e)
        if t.w < 8 * n: e = z3.Extract(t.w - 1, 0, e)
        return mkbv(e, t.w)

    def memcpy(s, d, sp, n):
        n = s.concretize(n)
        if n == 0: return
        if isBV(sp.o) or isBV(d.o):
            # symbolic offsets: element-wise through the ITE load/store path (8-byte granules: arrays of double / complex)
            if n % 8: raise Unsupported('memcpy at symbolic offset with length not a multiple of 8')
            vals = [s.load(IT(64), s.padd(sp, i)) for i in range(0, n, 8)]
            for k, v in enumerate(vals): s.store(IT(64), v, s.padd(d, 8 * k))
            return
        sb = s.chk(sp, n); db = s.chk(d, n, True)
        if s.trace_stores: s.stores.append((d.b, d.o, n, s.locks_held))
        if s.trace_loads: s.loads.append((sp.b, sp.o, n, s.locks_held))
        if db.kind == 'const': s.ub_now('write-to-const', f'memcpy to constant global {db.tag}')
        cells = [(k - sp.o, c) for k, c in sb.cells.items() if k >= sp.o and k + c[0] <= sp.o + n]
        for k, c in sb.cells.items():
            if (k < sp.o < k + c[0]) or (k < sp.o + n < k + c[0]): raise Unsupported("memcpy splits symbolic cell")
        raw = bytes(sb.data[sp.o:sp.o + n])
        for k in [k for k in db.cells if k < d.o + n and k + db.cells[k][0] > d.o]:
            if k < d.o or k + db.cells[k][0] > d.o + n: raise Unsupported("memcpy partially overwrites symbolic cell")
            del db.cells[k]
        db.data[d.o:d.o + n] = raw
        for k, c in cells: db.cells[d.o + k] = c

    def padd(s, p, k):
        if isBV(p.o): return Ptr(p.b, mkbv(p.o.e + k, 64))
        return Ptr(p.b, p.o + k)

    def memset(s, d, val, n):
        n = s.concretize(n)
        if isBV(val): raise Unsupported('memset symbolic value')
        if n == 0: return
        b = s.chk(d, n, True)
        if s.trace_stores: s.stores.append((d.b, d.o, n, s.locks_held))
        for k in [k for k in b.cells if k < d.o + n and k + b.cells[k][0] > d.o]: del b.cells[k]
        b.data[d.o:d.o + n] = bytes([val & 255]) * n

    def gep(s, bt, base, idx):
        off = 0; t = bt
        for j, (it, iv) in enumerate(idx):
            if isBV(iv):
                ivs = z3.SignExt(64 - iv.w, iv.e) if iv.w < 64 else iv.e
            elif isinstance(iv, SB): raise Unsupported('gep SB index')
            else:
                ivs = sgn(iv, it.w)
            if j == 0: sz = sizeof(t); off = off + ivs * sz
            elif isinstance(t, StructTy):
                off = off + layout(t)[0][ivs]; t = t.els[ivs]
            elif isinstance(t, ArrTy):
                t = t.el; off = off + ivs * sizeof(t)
            else: raise Unsupported(f"gep into {t}")
        if not isinstance(base, Ptr): raise Unsupported(f"gep base {base!r}")
        bo = base.o.e if isBV(base.o) else base.o
        no = bo + off
        if isinstance(no, z3.ExprRef): no = mkbv(no, 64)
        if isinstance(no, int) and no >= (1 << 63): no = sgn(no & M64, 64)
        return Ptr(base.b, no)

    def cast(s, op, ft, x, tt):
        if op == 'bitcast':
            if isinstance(ft, PtrTy): return x
            if isinstance(ft, FloatTy) and isinstance(tt, IntTy):
                if isF(x): return Bits(x)
                return struct.unpack('<Q', struct.pack('<d', x))[0]
            if isinstance(ft, IntTy) and isinstance(tt, FloatTy):
                if isinstance(x, Bits): return x.f
                if isBV(x): raise Unsupported('bitcast symbolic int to double')
                return struct.unpack('<d', struct.pack('<Q', x))[0]
            return x
        if op == 'ptrtoint': return x
        if op == 'inttoptr':
            if isinstance(x, Ptr): return x
            if x == 0: return NULL
            raise Unsupported(f"inttoptr {x}")
        if op == 'trunc':
            if isBV(x): return mkbv(z3.Extract(tt.w - 1, 0, x.e), tt.w) if tt.w > 1 else mksb(z3.Extract(0, 0, x.e) == 1)
            if isinstance(x, Ptr): raise Unsupported("trunc ptr")
            if isinstance(x, Bits): raise Unsupported("trunc of double bits")
            return x & ((1 << tt.w) - 1)
        if op == 'zext':
            if isBV(x): return mkbv(z3.ZeroExt(tt.w - x.w, x.e), tt.w)
            if isinstance(x, SB): return mkbv(z3.If(x.e, z3.BitVecVal(1, tt.w), z3.BitVecVal(0, tt.w)), tt.w)
            return x
        if op == 'sext':
            if isBV(x): return mkbv(z3.SignExt(tt.w - x.w, x.e), tt.w)
            if isinstance(x, SB): return mkbv(z3.If(x.e, z3.BitVecVal((1 << tt.w) - 1, tt.w), z3.BitVecVal(0, tt.w)), tt.w)
            return sgn(x, ft.w) & ((1 << tt.w) - 1)
        if op in ('sitofp', 'uitofp') and isinstance(tt, FloatTy) and tt.k == 'x86_fp80':
            if not isinstance(x, int): raise Unsupported('int -> x86_fp80 of a symbolic value')
            return LD(sgn(x, ft.w)) if op == 'sitofp' else LD(x)
        if op in ('sitofp', 'uitofp'):
            f32 = isinstance(tt, FloatTy) and tt.k == 'float'
            if isBV(x):
                if f32: raise Unsupported('symbolic int -> float (binary32 rounding is not modelled)')
                return F(op, cond_key(x.e))
            if isinstance(x, SB): return F('ite', cond_key(x.e), (-1.0 if op == 'sitofp' else 1.0), 0.0)
            v = float(sgn(x, ft.w)) if op == 'sitofp' else float(x)
            return struct.unpack('<f', struct.pack('<f', v))[0] if f32 else v       # int -> float rounds to binary32
        if op in ('fptosi', 'fptoui') and isinstance(x, LD):
            return int(x) & ((1 << tt.w) - 1)
        if op in ('fptosi', 'fptoui'):
            if isF(x): return s.fptoi_sym(op, x, tt)
            lim = 2.0 ** (tt.w - (1 if op == 'fptosi' else 0))
            if x != x or x >= lim or (x <= -lim - 1 if op == 'fptosi' else x <= -1.0): s.ub_now('fptoi-range', f"{op} of {x} out of range for i{tt.w}")
            return int(x) & ((1 << tt.w) - 1)
        if op in ('fpext', 'fptrunc'):
            if isF(x): raise Unsupported("fpext/fptrunc of a symbolic value")
            if isinstance(tt, FloatTy) and tt.k == 'x86_fp80': return LD(x)
            if isinstance(x, LD): return float(x) if tt.k == 'double' else struct.unpack('<f', struct.pack('<f', float(x)))[0]
            return x if op == 'fpext' else struct.unpack('<f', struct.pack('<f', x))[0]
        raise Unsupported(f"cast {op}")

    def fptoi_sym(s, op, x, tt):
        """fptosi of a symbolic double in REAL theory: fresh BV r with r <= x < r+1 (x>=0) / r-1 < x <= r (x<0); range is an obligation."""
        xr = s.lower(x); w = tt.w
        lim = 2 ** (w - 1) if op == 'fptosi' else 2 ** w
        lo = -lim - 1 if op == 'fptosi' else -1
        s.ub_sym(z3.Or(xr >= lim, xr <= lo), 'fptoi-range', f'{op} result may not fit i{w}')
        r = z3.FreshConst(z3.BitVecSort(w), 'fptoi')
        ri = z3.ToReal(z3.BV2Int(r, op == 'fptosi'))
        s.assume(z3.If(xr >= 0, z3.And(ri <= xr, xr < ri + 1), z3.And(ri - 1 < xr, xr <= ri)))
        return BV(r, w)

    # ------------------------------------------------------------ solver helpers
    def lower(s, f):
        r = s.low(f)
        while s.nside < len(s.low.side):
            s.assume(s.low.side[s.nside]); s.nside += 1
        return r
    feas_timeout_ms = 30000
    def feasible(s, cond):
        """is pc & cond satisfiable?  'unknown' (timeout) counts as feasible: exploring a possibly-infeasible path is sound for
        verification (its obligations are still decided under the full path condition); it is recorded in s.unknown_feas."""
        t0 = time.time()
        s.sol.set('timeout', s.feas_timeout_ms)
        s.sol.push(); s.sol.add(cond); r = s.sol.check(); s.sol.pop()
        s.nqueries += 1; s.tsolve += time.time() - t0
        if r == z3.unknown: s.unknown_feas += 1; return True
        return r == z3.sat
    unknown_feas = 0
    def check_model(s, cond):
        t0 = time.time()
        s.sol.set('timeout', 30000)
        s.sol.push(); s.sol.add(cond); r = s.sol.check()
        model = {}
        if r == z3.sat:
            mdl = s.sol.model()
            for d in mdl.decls():
                if d.arity() == 0: model[d.name()] = mdl[d]
        s.sol.pop(); s.nqueries += 1; s.tsolve += time.time() - t0
        return r, model

    def concretize(s, x):
        """symbolic int that must be concrete to go on (allocation size, memcpy length): fork over its feasible values; the chosen value is
        stored in the decision prefix so that re-execution is deterministic."""
        if not isBV(x): return x
        while True:
            i = len(s.taken)
            if i < len(s.preset):
                _, v, d = s.preset[i]
            else:
                s.sol.set('timeout', 30000)
                if s.sol.check() != z3.sat: raise Infeasible('concretize: path condition not satisfiable')
                v = s.sol.model().eval(x.e, model_completion=True).as_long(); d = True
                if s.feasible(x.e != v): s.pending.append(s.taken + [('v', v, False)])
            s.taken.append(('v', v, d)); s.assume(x.e == v if d else x.e != v)
            if d: return v

    def choose(s, e):
        i = len(s.taken)
        if i < len(s.preset):
            d = s.preset[i]
        else:
            t_ok = s.feasible(e); f_ok = s.feasible(z3.Not(e))
            if t_ok and f_ok:
                d = True
                if getattr(s, 'guide', None):      # follow the branch a given generic point takes first (the other side stays pending)
                    v = z3.simplify(z3.substitute(e, *s.guide))
                    if z3.is_false(v): d = False
                s.pending.append(s.taken + [not d])
            elif not t_ok and not f_ok: raise Infeasible('path condition became infeasible')
            else: d = t_ok
        s.taken.append(d); s.assume(e if d else z3.Not(e))
        return 1 if d else 0

    # ------------------------------------------------------------ run
    def call(s, fname, args):
        if fname not in s.m.funcs: raise Unsupported(f'no function {fname} in module')
        f = s.m.funcs[fname]
        fr = Frame(f)
        for (t, nm), v in zip(f.params, args): fr.regs[nm] = v
        stack = [fr]; ret = None
        const = s.const
        while stack:
            fr = stack[-1]
            ins = fr.f.blocks[fr.blk][fr.idx]; fr.idx += 1
            s.steps += 1
            if s.steps > s.max_steps: s.cur = fr; raise Budget(f"step budget {s.max_steps} exhausted at {s.where()}")
            op = ins.op; a = ins.a; R = fr.regs
            try:
                if op == 'getelementptr':
                    R[ins.dst] = s.gep(a[0], const(None, a[1], R), [(it, const(it, iv, R)) for it, iv in a[2]])
                elif op == 'load':
                    s.cur = fr; R[ins.dst] = s.load(a[0], const(None, a[1], R))
                elif op == 'store':
                    s.cur = fr; s.store(a[0], const(a[0], a[1], R), const(None, a[2], R))
                elif op == 'br':
                    if a[0] is None: tgt = a[1]
                    else:
                        c = const(None, a[0], R)
                        if isBV(c): c = SB(c.e == 1)
                        if isinstance(c, SB):
                            s.cur = fr; c = s.choose(c.e)
                        tgt = a[1] if c else a[2]
                    fr.prev = fr.blk; fr.blk = tgt; fr.idx = 0
                    blk = fr.f.blocks[tgt]
                    if blk[0].op == 'phi':
                        vals = []
                        for pi in blk:
                            if pi.op != 'phi': break
                            for v, l in pi.a[1]:
                                if l == fr.prev: vals.append((pi.dst, const(pi.a[0], v, R))); break
                            else: raise Unsupported("phi no incoming")
                            fr.idx += 1
                        for d, v in vals: R[d] = v
                elif op in ('bitcast', 'trunc', 'zext', 'sext', 'ptrtoint', 'inttoptr', 'sitofp', 'uitofp', 'fptosi', 'fptoui', 'fpext', 'fptrunc'):
                    s.cur = fr; R[ins.dst] = s.cast(op, a[0], const(a[0], a[1], R), a[2])
                elif op == 'icmp':
                    R[ins.dst] = s.icmp(a[0], a[1], const(a[1], a[2], R), const(a[1], a[3], R))
                elif op in ('add', 'sub', 'mul', 'and', 'or', 'xor', 'shl', 'lshr', 'ashr', 'sdiv', 'udiv', 'srem', 'urem'):
                    s.cur = fr; R[ins.dst] = s.ibin(op, a[0], const(a[0], a[1], R), const(a[0], a[2], R), a[3])
                elif op in ('fadd', 'fsub', 'fmul', 'fdiv'):
                    R[ins.dst] = fbin(op, const(a[0], a[1], R), const(a[0], a[2], R))
                elif op == 'fneg':
                    x = const(a[0], a[1], R); R[ins.dst] = F('fneg', x) if isF(x) else -x
                elif op == 'fcmp':
                    R[ins.dst] = s.fcmp(a[0], const(a[1], a[2], R), const(a[1], a[3], R))
                elif op == 'phi':
                    raise Unsupported("phi mid-block")
                elif op == 'select':
                    c = const(None, a[0], R); x = const(a[1], a[2], R); y = const(a[1], a[3], R)
                    if isBV(c): c = SB(c.e == 1)
                    if isinstance(c, SB):
                        if isinstance(a[1], (IntTy, FloatTy)) and not isinstance(x, Ptr) and not isinstance(y, Ptr):
                            R[ins.dst] = s.ite(a[1], c.e, x, y)
                        else:
                            s.cur = fr; R[ins.dst] = x if s.choose(c.e) else y
                    else: R[ins.dst] = x if c else y
                elif op == 'alloca':
                    n = 1 if a[1] is None else const(a[1][0], a[1][1], R)
                    if isBV(n): s.cur = fr; n = s.concretize(n)
                    b = s.new_block(sizeof(a[0]) * n, 'stack', fr.f.name); fr.allocas.append(b); R[ins.dst] = Ptr(b, 0)
                elif op == 'call':
                    callee = const(None, a[1], R)
                    args2 = [const(t, v, R) for t, v in a[2]]
                    name = s.fbyblk.get(callee.b) if isinstance(callee, Ptr) else None
                    if name is None:
                        s.cur = fr
                        if isinstance(callee, Ptr) and callee.b == 0: s.ub_now('null-call', 'call through null function pointer')
                        raise Unsupported(f"indirect call to {callee}")
                    s.calls[name] = s.calls.get(name, 0) + 1
                    if s.call_log is not None and name in s.log_names: s.call_log.append((name, args2, len(stack)))
                    ov = s.override.get(name)
                    if ov is not None:
                        s.cur = fr; r = ov(s, *args2)
                        if ins.dst: R[ins.dst] = r
                    elif name in s.m.funcs:
                        nf = Frame(s.m.funcs[name]); nf.dst = ins.dst
                        for (t, nm), v in zip(nf.f.params, args2): nf.regs[nm] = v
                        stack.append(nf)
                        if len(stack) > 400: raise Budget('call depth > 400')
                    else:
                        nm = name.lstrip('@')
                        h = s.ext.get(nm)
                        s.cur = fr
                        if h is None:
                            if nm.startswith('llvm.lifetime') or nm.startswith('llvm.experimental.noalias') or nm.startswith('llvm.invariant') or nm.startswith('llvm.dbg'): r = None
                            else: raise Unsupported(f"external {nm}")
                        else: r = h(s, *args2)
                        if ins.dst: R[ins.dst] = r
                elif op == 'ret':
                    v = None if a[1] is None else const(a[0], a[1], R)
                    for b in fr.allocas: s.blocks[b].alive = False
                    stack.pop()
                    if stack:
                        if fr.dst: stack[-1].regs[fr.dst] = v
                    else: ret = v
                elif op == 'extractvalue':
                    v = const(a[0], a[1], R)
                    for i in a[2]: v = v[i]
                    R[ins.dst] = v
                elif op == 'insertvalue':
                    v = list(const(a[0], a[1], R))
                    assert len(a[4]) == 1; v[a[4][0]] = const(a[2], a[3], R); R[ins.dst] = v
                elif op == 'atomicrmw':
                    s.cur = fr
                    p = const(None, a[1], R); old = s.load(a[2], p); v = const(a[2], a[3], R)
                    new = {'add': old + v, 'sub': old - v, 'xchg': v}[a[0]] & ((1 << a[2].w) - 1)
                    ts = s.trace_stores; s.trace_stores = False       # atomic read-modify-write: not a plain (racy) store
                    s.store(a[2], new, p); s.trace_stores = ts; R[ins.dst] = old
                elif op == 'cmpxchg':      # single modelled thread: compare-and-swap always sees the current value (a weak cmpxchg never fails spuriously here)
                    s.cur = fr
                    p = const(None, a[0], R); old = s.load(a[1], p); cv = const(a[1], a[2], R); nv = const(a[1], a[3], R)
                    if isBV(old) or isBV(cv): raise Unsupported('cmpxchg on symbolic values')
                    ok = int(old == cv)
                    if ok:
                        ts = s.trace_stores; s.trace_stores = False; s.store(a[1], nv, p); s.trace_stores = ts
                    R[ins.dst] = [old, ok]
                elif op == 'fence':
                    pass
                elif op == 'unreachable':
                    s.cur = fr; s.ub_now('unreachable', "reached 'unreachable'")
                elif op == 'freeze':
                    R[ins.dst] = const(a[0], a[1], R)
                else:
                    raise Unsupported(f"op {op}")
            except (Unsupported, UB) as e:
                e.args = (str(e.args[0]) + f"\n   at {fr.f.name}: {ins.line[:160]}",) + e.args[1:]
                raise
        return ret

    def icmp(s, pred, t, x, y):
        if isinstance(x, Ptr) or isinstance(y, Ptr):
            if not isinstance(x, Ptr):
                if isBV(x): raise Unsupported('icmp ptr vs symbolic int')
                x = NULL if x == 0 else x
            if not isinstance(y, Ptr):
                if isBV(y): raise Unsupported('icmp ptr vs symbolic int')
                y = NULL if y == 0 else y
            if not isinstance(x, Ptr) or not isinstance(y, Ptr): raise Unsupported('icmp ptr vs int')
            if x.b == y.b:
                xo, yo = x.o, y.o
                if isBV(xo) or isBV(yo):
                    return s.icmp(pred, IT(64), xo, yo)
                return int({'eq': xo == yo, 'ne': xo != yo, 'ult': xo < yo, 'ule': xo <= yo, 'ugt': xo > yo, 'uge': xo >= yo,
                            'slt': xo < yo, 'sle': xo <= yo, 'sgt': xo > yo, 'sge': xo >= yo}[pred])
            if pred == 'eq': return 0
            if pred == 'ne': return 1
            raise Unsupported("relational compare of pointers into different blocks")
        if isinstance(x, Bits) or isinstance(y, Bits): raise Unsupported('icmp on bits of symbolic double')
        if isinstance(x, SB) or isinstance(y, SB):
            a = x.e if isinstance(x, SB) else z3.BoolVal(bool(x)); b = y.e if isinstance(y, SB) else z3.BoolVal(bool(y))
            if pred == 'eq': return mksb(a == b)
            if pred == 'ne': return mksb(a != b)
            raise Unsupported("icmp relational on i1 sym")
        if isBV(x) or isBV(y):
            w = t.w if isinstance(t, IntTy) else 64
            a, b = bve(x, w), bve(y, w)
            e = {'eq': a == b, 'ne': a != b, 'ult': z3.ULT(a, b), 'ule': z3.ULE(a, b), 'ugt': z3.UGT(a, b), 'uge': z3.UGE(a, b),
                 'slt': a < b, 'sle': a <= b, 'sgt': a > b, 'sge': a >= b}[pred]
            return mksb(e)
        w = t.w if isinstance(t, IntTy) else 64
        if pred[0] == 's': x, y = sgn(x, w), sgn(y, w)
        return int({'eq': x == y, 'ne': x != y, 'ult': x < y, 'ule': x <= y, 'ugt': x > y, 'uge': x >= y,
                    'slt': x < y, 'sle': x <= y, 'sgt': x > y, 'sge': x >= y}[pred])

    def ibin(s, op, t, x, y, flags):
        w = t.w; m = (1 << w) - 1
        if isinstance(x, PInt) or isinstance(y, PInt) or ((isinstance(x, Ptr) or isinstance(y, Ptr)) and op in ('add', 'sub') and w == 64
                                                           and not (isBV(x) and x.w != 64) and not (isBV(y) and y.w != 64)):
            if op in ('add', 'sub'): return pint_op(op, x, y, w)
            raise Unsupported(f'int op {op} on pointer-derived integer')
        if isinstance(x, Ptr) or isinstance(y, Ptr):
            if op == 'sub' and isinstance(x, Ptr) and isinstance(y, Ptr) and x.b == y.b:
                xo = x.o.e if isBV(x.o) else x.o; yo = y.o.e if isBV(y.o) else y.o
                d = xo - yo
                return d & m if isinstance(d, int) else mkbv(d, 64)
            if op == 'sub' and isinstance(x, Ptr) and isinstance(y, Ptr):
                raise Unsupported("ptr diff across blocks")
            if op in ('add', 'sub') and isinstance(x, Ptr) and isinstance(y, int):
                return Ptr(x.b, x.o + (sgn(y, w) if op == 'add' else -sgn(y, w)))
            if op == 'add' and isinstance(y, Ptr) and isinstance(x, int): return Ptr(y.b, y.o + sgn(x, w))
            if w == 64 and op in ('add', 'sub') and isinstance(x, Ptr) and (isBV(y) or isinstance(y, int)):     # pointer +- symbolic integer: offset arithmetic in 64-bit bit-vectors
                xo = bve(x.o, 64) if not isinstance(x.o, int) else z3.BitVecVal(x.o & ((1 << 64) - 1), 64); yo = bve(y, 64)
                return Ptr(x.b, mkbv(xo + yo if op == 'add' else xo - yo, 64))
            if w == 64 and op == 'add' and isinstance(y, Ptr) and isBV(x):
                yo = bve(y.o, 64) if not isinstance(y.o, int) else z3.BitVecVal(y.o & ((1 << 64) - 1), 64)
                return Ptr(y.b, mkbv(yo + bve(x, 64), 64))
            raise Unsupported(f"int op {op} on pointer")
        if isinstance(x, Bits) or isinstance(y, Bits): raise Unsupported(f'int op {op} on bits of symbolic double')
        if isinstance(x, SB) or isinstance(y, SB):
            if w == 1:
                a = x.e if isinstance(x, SB) else z3.BoolVal(bool(x)); b = y.e if isinstance(y, SB) else z3.BoolVal(bool(y))
                e = {'and': z3.And(a, b), 'or': z3.Or(a, b), 'xor': z3.Xor(a, b), 'add': z3.Xor(a, b), 'sub': z3.Xor(a, b)}[op]
                return mksb(e)
            raise Unsupported("SB arith")
        if isBV(x) or isBV(y):
            a, b = bve(x, w), bve(y, w)
            if s.ubcheck:
                if 'nsw' in flags and op in ('add', 'sub', 'mul'):
                    bad = {'add': z3.Not(z3.And(z3.BVAddNoOverflow(a, b, True), z3.BVAddNoUnderflow(a, b))),
                           'sub': z3.Not(z3.And(z3.BVSubNoOverflow(a, b), z3.BVSubNoUnderflow(a, b, True))),
                           'mul': z3.Not(z3.And(z3.BVMulNoOverflow(a, b, True), z3.BVMulNoUnderflow(a, b)))}[op]
                    s.ub_sym(bad, 'signed-overflow', f'signed overflow in {op} i{w}')
                if 'nuw' in flags and op in ('add', 'sub', 'mul'):
                    bad = {'add': z3.Not(z3.BVAddNoOverflow(a, b, False)), 'sub': z3.ULT(a, b), 'mul': z3.Not(z3.BVMulNoOverflow(a, b, False))}[op]
                    s.ub_sym(bad, 'unsigned-wrap-nuw', f'nuw overflow in {op} i{w}')
                if op in ('sdiv', 'srem', 'udiv', 'urem'):
                    bad = (b == 0)
                    if op in ('sdiv', 'srem'): bad = z3.Or(bad, z3.And(a == z3.BitVecVal(1 << (w - 1), w), b == z3.BitVecVal(m, w)))
                    s.ub_sym(bad, 'division', f'division by zero / INT_MIN/-1 in {op} i{w}')
                if op in ('shl', 'lshr', 'ashr'):
                    s.ub_sym(z3.UGE(b, w), 'shift', f'shift amount >= {w} in {op}')
            e = {'add': a + b, 'sub': a - b, 'mul': a * b, 'and': a & b, 'or': a | b, 'xor': a ^ b, 'shl': a << b, 'lshr': z3.LShR(a, b), 'ashr': a >> b,
                 'sdiv': a / b, 'udiv': z3.UDiv(a, b), 'srem': z3.SRem(a, b), 'urem': z3.URem(a, b)}[op]
            return mkbv(e, w)
        if op == 'add': r = x + y
        elif op == 'sub': r = x - y
        elif op == 'mul': r = x * y
        elif op == 'and': r = x & y
        elif op == 'or': r = x | y
        elif op == 'xor': r = x ^ y
        elif op == 'shl':
            if y >= w: s.ub_now('shift', "shift too large")
            r = x << y
        elif op == 'lshr':
            if y >= w: s.ub_now('shift', "shift too large")
            r = x >> y
        elif op == 'ashr':
            if y >= w: s.ub_now('shift', "shift too large")
            r = sgn(x, w) >> y
        elif op in ('sdiv', 'srem'):
            a, b = sgn(x, w), sgn(y, w)
            if b == 0: s.ub_now('division', "div by zero")
            if a == -(1 << (w - 1)) and b == -1: s.ub_now('division', 'INT_MIN / -1')
            q = abs(a) // abs(b); q = q if (a < 0) == (b < 0) else -q
            r = q if op == 'sdiv' else a - q * b
        elif op in ('udiv', 'urem'):
            if y == 0: s.ub_now('division', "div by zero")
            r = x // y if op == 'udiv' else x % y
        else: raise Unsupported(op)
        if s.ubcheck and flags and op in ('add', 'sub', 'mul'):
            if 'nsw' in flags:
                a, b = sgn(x, w), sgn(y, w); rr = {'add': a + b, 'sub': a - b, 'mul': a * b}[op]
                if not (-(1 << (w - 1)) <= rr < (1 << (w - 1))): s.ub_now('signed-overflow', f"signed overflow {op} {a} {b} (i{w})")
            if 'nuw' in flags and not (0 <= r <= m): s.ub_now('unsigned-wrap-nuw', f"nuw overflow {op} {x} {y}")
        return r & m

    def fcmp(s, pred, x, y):
        if (isF(x) or isF(y)) and not (isF(x) and isF(y)):
            # symbolic (finite, in the real theory) against a non-finite constant: isinf / isnan style tests
            c = y if isF(x) else x; flip = not isF(x)
            if isinstance(c, float) and (c != c or c in (float('inf'), float('-inf'))):
                if c != c: return int(pred[0] == 'u' or pred == 'true')
                big = c > 0; p = pred[1:] if pred[0] in 'ou' else pred
                if flip: p = {'lt': 'gt', 'gt': 'lt', 'le': 'ge', 'ge': 'le'}.get(p, p)
                # now: sym p (+-inf)
                return int({'eq': False, 'ne': True, 'lt': big, 'le': big, 'gt': not big, 'ge': not big, 'rd': True, 'no': False}.get(p, False))
        if isF(x) or isF(y):
            a = s.lower(x); b = s.lower(y)
            if pred in ('ord',): return 1
            if pred in ('uno',): return 0
            p = pred[1:] if pred[0] in 'ou' else pred   # REAL theory has no NaN: ordered == unordered
            e = {'eq': a == b, 'ne': a != b, 'lt': a < b, 'le': a <= b, 'gt': a > b, 'ge': a >= b}[p]
            return mksb(e)
        if isinstance(x, LD) or isinstance(y, LD): x = LD(x); y = LD(y)
        un = bool((x != x) or (y != y))
        if pred == 'oeq': return int(not un and x == y)
        if pred == 'one': return int(not un and x != y)
        if pred == 'olt': return int(not un and x < y)
        if pred == 'ole': return int(not un and x <= y)
        if pred == 'ogt': return int(not un and x > y)
        if pred == 'oge': return int(not un and x >= y)
        if pred == 'une': return int(un or x != y)
        if pred == 'ueq': return int(un or x == y)
        if pred == 'ult': return int(un or x < y)
        if pred == 'ule': return int(un or x <= y)
        if pred == 'ugt': return int(un or x > y)
        if pred == 'uge': return int(un or x >= y)
        if pred == 'uno': return int(un)
        if pred == 'ord': return int(not un)
        if pred == 'true': return 1
        if pred == 'false': return 0
        raise Unsupported(pred)

# ---------------------------------------------------------------- externals
def _new(m, n, *a):
    n = m.concretize(n)
    if n > (1 << 40): raise Throw('bad_alloc')
    return Ptr(m.new_block(n, 'heap', m.cur.f.name if m.cur else None), 0)
def _del(m, p, *a):
    if p.b == 0: return None
    b = m.blocks[p.b]
    if not b.alive: m.ub_now('double-free', "double free")
    if isBV(p.o):      # offset is an expression (begin pointer recomputed from a symbolic size): it must be 0 on every value of the path
        if b.kind != 'heap': m.ub_now('invalid-free', "invalid free")
        m.ub_sym(p.o.e != 0, 'invalid-free', 'free of a pointer that may not be the start of its block')
    elif b.kind != 'heap' or p.o != 0: m.ub_now('invalid-free', "invalid free")
    b.alive = False
def _memcpy(m, d, s, n, *a): m.memcpy(d, s, n)
def _memmove(m, d, s, n, *a):
    n = m.concretize(n)
    if n == 0: return
    tmp = Ptr(m.new_block(n, 'tmp'), 0)
    ts, tl = m.trace_stores, m.trace_loads; m.trace_stores = False
    m.memcpy(tmp, s, n); m.trace_stores = ts; m.trace_loads = False
    m.memcpy(d, tmp, n); m.trace_loads = tl; m.blocks[tmp.b].alive = False
def _memset(m, d, v, n, *a): m.memset(d, v, n)
def _memcmp(m, a, b, n):
    if n == 0: return 0
    ba = m.chk(a, n); bb = m.chk(b, n)
    if ba.cells or bb.cells: raise Unsupported('memcmp over symbolic cells')
    x = bytes(ba.data[a.o:a.o + n]); y = bytes(bb.data[b.o:b.o + n])
    return 0 if x == y else (1 if x > y else 0xffffffff)
def _strlen(m, p):
    b = m.chk(p, 1); i = p.o
    while b.data[i] != 0: i += 1
    return i - p.o
def _throw(what):
    def h(m, *a): raise Throw(what)
    return h
def _m1(name):
    fn = getattr(libm, name)
    def h(m, x): return F('call', name, x) if isF(x) else fn(x)
    return h
def _m2(name):
    fn = getattr(libm, name)
    def h(m, x, y): return F('call', name, x, y) if (isF(x) or isF(y)) else fn(x, y)
    return h
def _frexp(m, x, pe):
    if isF(x): raise Unsupported('frexp of a symbolic value')
    fr, e = math.frexp(x); m.store(IT(32), e & 0xffffffff, pe); return fr
def _fmuladd(m, a, b, c): return fbin('fadd', fbin('fmul', a, b), c)
def _assume(m, c):
    if isBV(c): c = SB(c.e == 1)
    if isinstance(c, SB):
        m.ub_sym(z3.Not(c.e), 'assume', 'llvm.assume condition can be false (DSPLIB_ASSUME violated)'); return
    if not c: m.ub_now('assume', "llvm.assume(false): DSPLIB_ASSUME violated")
def _guard_acquire(m, p):
    v = m.load(IT(8), p)
    if v: return 0
    m.locks_held += 1; return 1      # initialisation of a function-local static runs under the guard's lock (thread-safe statics): traced like a lock-protected region
def _guard_release(m, p): m.store(IT(8), 1, p); m.locks_held = max(m.locks_held - 1, 0)
def _minmax(w, signed, ismax):
    def h(m, a, b):
        if isBV(a) or isBV(b):
            x, y = bve(a, w), bve(b, w)
            c = (x >= y if signed else z3.UGE(x, y)) if ismax else (x <= y if signed else z3.ULE(x, y))
            return mkbv(z3.If(c, x, y), w)
        ka, kb = (sgn(a, w), sgn(b, w)) if signed else (a, b)
        return a if ((ka >= kb) if ismax else (ka <= kb)) else b
    return h
def _abs(w):
    def h(m, a, poison):
        if isBV(a):
            if poison: m.ub_sym(a.e == z3.BitVecVal(1 << (w - 1), w), 'signed-overflow', f'abs(INT_MIN) i{w}')
            return mkbv(z3.If(a.e < 0, -a.e, a.e), w)
        if poison and a == 1 << (w - 1): m.ub_now('signed-overflow', 'abs(INT_MIN)')
        return abs(sgn(a, w)) & ((1 << w) - 1)
    return h
def _ctlz(w):
    def h(m, a, z):
        if isBV(a):
            e = z3.BitVecVal(w, w)
            for i in range(w): e = z3.If(z3.Extract(i, i, a.e) == 1, z3.BitVecVal(w - 1 - i, w), e)
            return mkbv(e, w)
        return w - a.bit_length()
    return h
def _cttz(w):
    def h(m, a, z):
        if isBV(a):
            e = z3.BitVecVal(w, w)
            for i in range(w - 1, -1, -1): e = z3.If(z3.Extract(i, i, a.e) == 1, z3.BitVecVal(i, w), e)
            return mkbv(e, w)
        return w if a == 0 else (a & -a).bit_length() - 1
    return h
def _ctpop(w):
    def h(m, a):
        if isBV(a):
            return mkbv(z3.Sum([z3.ZeroExt(w - 1, z3.Extract(i, i, a.e)) for i in range(w)]), w)
        return bin(a).count('1')
    return h
def _list_hook(m, this, pos):
    PT = PtrTy(IT(8))
    prev = m.load(PT, Ptr(pos.b, pos.o + 8))
    m.store(PT, pos, this); m.store(PT, prev, Ptr(this.b, this.o + 8)); m.store(PT, this, prev); m.store(PT, this, Ptr(pos.b, pos.o + 8))
def _list_unhook(m, this):
    PT = PtrTy(IT(8))
    nx = m.load(PT, this); pv = m.load(PT, Ptr(this.b, this.o + 8))
    m.store(PT, nx, pv); m.store(PT, pv, Ptr(nx.b, nx.o + 8))
def _list_transfer(m, this, first, last):
    # std::__detail::_List_node_base::_M_transfer(first,last): move [first,last) before this
    PT = PtrTy(IT(8))
    if first == last or this == last: return
    def nxt(p): return m.load(PT, p)
    def prv(p): return m.load(PT, Ptr(p.b, p.o + 8))
    def set_n(p, v): m.store(PT, v, p)
    def set_p(p, v): m.store(PT, v, Ptr(p.b, p.o + 8))
    lp = prv(last); fp = prv(first); tp = prv(this)
    set_n(lp, this); set_n(fp, last); set_n(tp, first)
    set_p(this, lp); set_p(last, fp); set_p(first, tp)
_PRIMES = [2, 3, 5, 7, 11, 13, 17, 19, 23, 29, 31, 37, 41, 43, 47, 53, 59, 61, 67, 71, 73, 79, 83, 89, 97, 103, 109, 113, 127, 137, 139, 149, 157, 167, 179, 193, 199, 211, 227, 241, 257, 277, 293, 313, 337, 359, 383, 409, 439, 467, 503, 541, 577, 619, 661, 709, 761, 823, 887, 953, 1031, 1109]
def _need_rehash(m, this, n_bkt, n_elt, n_ins):
    # libstdc++ policy, max_load_factor 1.0, growth factor 2: sufficient for a faithful bucket count sequence
    if n_elt + n_ins > n_bkt:
        want = max(n_elt + n_ins, n_bkt * 2)
        for p in _PRIMES:
            if p >= want: return [1, p]
    return [0, 0]
def _next_bkt(m, this, n):
    for p in _PRIMES:
        if p >= n: return p
    raise Unsupported('next_bkt')
def _mutex_lock(m, *a): m.locks_held += 1; return 0
def _mutex_unlock(m, *a): m.locks_held -= 1; return 0
def _fminmax(ismax):
    def h(m, x, y):
        if isF(x) or isF(y):
            c = m.lower(x) >= m.lower(y) if ismax else m.lower(x) <= m.lower(y)
            return m.ite(DOUBLE, c, x, y)
        return (libm.fmax if ismax else libm.fmin)(x, y)
    return h
def _fabs(m, x):
    return F('call', 'fabs', x) if isF(x) else abs(x)
def _copysign(m, x, y):
    if isF(x) or isF(y): return F('call', 'copysign', x, y)
    return math.copysign(x, y)

def _ld1(name):
    fn = getattr(libm, name); fn.restype = ctypes.c_longdouble; fn.argtypes = [ctypes.c_longdouble]
    def h(m, x):
        if isF(x): raise Unsupported(name + ' of symbolic long double')
        return LD(fn(ctypes.c_longdouble(float(x))))
    return h
EXT = {
    'logl': _ld1('logl'), 'log2l': _ld1('log2l'), 'floorl': _ld1('floorl'), 'ceill': _ld1('ceill'), 'sqrtl': _ld1('sqrtl'),
    'llvm.floor.f80': _ld1('floorl'), 'llvm.ceil.f80': _ld1('ceill'), 'llvm.fabs.f80': (lambda m, x: abs(x)),
    '_Znwm': _new, '_Znam': _new, '_ZdlPv': _del, '_ZdaPv': _del, '_ZdlPvm': _del, '_ZdaPvm': _del, 'free': _del,
    'malloc': _new,
    'llvm.memcpy.p0i8.p0i8.i64': _memcpy, 'llvm.memmove.p0i8.p0i8.i64': _memmove, 'llvm.memset.p0i8.i64': _memset,
    'memcmp': _memcmp, 'bcmp': _memcmp, 'strlen': _strlen,
    '__cxa_allocate_exception': _throw('c++ exception'), '_ZSt20__throw_length_errorPKc': _throw('length_error'),
    '_ZSt17__throw_bad_allocv': _throw('bad_alloc'), '_ZSt28__throw_bad_array_new_lengthv': _throw('bad_array_new_length'),
    '_ZSt19__throw_logic_errorPKc': _throw('logic_error'), '_ZSt25__throw_bad_function_callv': _throw('bad_function_call'),
    '_ZSt20__throw_out_of_rangePKc': _throw('out_of_range'), '_ZSt24__throw_out_of_range_fmtPKcz': _throw('out_of_range'),
    '_ZSt24__throw_invalid_argumentPKc': _throw('invalid_argument'), '_ZSt21__throw_runtime_errorPKc': _throw('runtime_error'),
    '_ZSt20__throw_system_errori': _throw('system_error'),
    'cos': _m1('cos'), 'sin': _m1('sin'), 'exp': _m1('exp'), 'log': _m1('log'), 'log2': _m1('log2'), 'log10': _m1('log10'), 'sqrt': _m1('sqrt'),
    'atan': _m1('atan'), 'tanh': _m1('tanh'), 'tan': _m1('tan'), 'acos': _m1('acos'), 'asin': _m1('asin'), 'sinh': _m1('sinh'), 'cosh': _m1('cosh'),
    'exp2': _m1('exp2'), 'cbrt': _m1('cbrt'),
    'pow': _m2('pow'), 'fmod': _m2('fmod'), 'atan2': _m2('atan2'), 'hypot': _m2('hypot'), 'remainder': _m2('remainder'),
    'llvm.pow.f64': _m2('pow'), 'llvm.sqrt.f64': _m1('sqrt'), 'llvm.cos.f64': _m1('cos'), 'llvm.sin.f64': _m1('sin'), 'llvm.exp.f64': _m1('exp'),
    'llvm.log.f64': _m1('log'), 'llvm.log2.f64': _m1('log2'), 'llvm.log10.f64': _m1('log10'), 'llvm.exp2.f64': _m1('exp2'),
    'nextafter': (lambda m, x, y: math.nextafter(x, y)),
    'ldexp': (lambda m, x, e: math.ldexp(x, sgn(e, 32))),
    'frexp': _frexp, 'frexpf': _frexp,
    'llvm.floor.f64': _m1('floor'), 'llvm.ceil.f64': _m1('ceil'), 'llvm.round.f64': _m1('round'), 'llvm.trunc.f64': _m1('trunc'),
    'llvm.rint.f64': _m1('rint'), 'llvm.nearbyint.f64': _m1('nearbyint'), 'floor': _m1('floor'), 'ceil': _m1('ceil'), 'round': _m1('round'),
    'llvm.fabs.f64': _fabs, 'fabs': _fabs, 'llvm.copysign.f64': _copysign,
    'llvm.minnum.f64': _fminmax(False), 'llvm.maxnum.f64': _fminmax(True), 'fmin': _fminmax(False), 'fmax': _fminmax(True),
    'llvm.fmuladd.f64': _fmuladd, 'llvm.assume': _assume,
    '__cxa_guard_acquire': _guard_acquire, '__cxa_guard_release': _guard_release, '__cxa_guard_abort': lambda m, p: None,
    '__cxa_thread_atexit': lambda m, *a: 0, '__cxa_atexit': lambda m, *a: 0,
    'llvm.smax.i32': _minmax(32, True, True), 'llvm.smax.i64': _minmax(64, True, True), 'llvm.umax.i64': _minmax(64, False, True), 'llvm.umax.i32': _minmax(32, False, True),
    'llvm.smin.i32': _minmax(32, True, False), 'llvm.smin.i64': _minmax(64, True, False), 'llvm.umin.i64': _minmax(64, False, False), 'llvm.umin.i32': _minmax(32, False, False),
    'llvm.abs.i32': _abs(32), 'llvm.abs.i64': _abs(64),
    'llvm.ctlz.i64': _ctlz(64), 'llvm.ctlz.i32': _ctlz(32), 'llvm.cttz.i32': _cttz(32), 'llvm.cttz.i64': _cttz(64),
    'llvm.ctpop.i32': _ctpop(32), 'llvm.ctpop.i64': _ctpop(64),
    '_ZNSt8__detail15_List_node_base7_M_hookEPS0_': _list_hook, '_ZNSt8__detail15_List_node_base9_M_unhookEv': _list_unhook,
    '_ZNSt8__detail15_List_node_base11_M_transferEPS0_S1_': _list_transfer,
    '_ZNKSt8__detail20_Prime_rehash_policy14_M_need_rehashEmmm': _need_rehash,
    '_ZNKSt8__detail20_Prime_rehash_policy11_M_next_bktEm': _next_bkt,
    'pthread_mutex_lock': _mutex_lock, 'pthread_mutex_unlock': _mutex_unlock,
    '__gthread_active_p': lambda m: 1,
}

# ---------------------------------------------------------------- path exploration
class PathResult:
    __slots__ = ('out', 'ret', 'm', 'err', 'ctx')
    def __init__(s, out, ret, m, err, ctx): s.out = out; s.ret = ret; s.m = m; s.err = err; s.ctx = ctx

def explore(mod, fn, setup, max_paths=100000, ubcheck=True, max_steps=20_000_000, on_path=None, guide=None):
    """DFS over decision prefixes.  setup(m) -> (args, ctx).  Yields PathResult per path (out in ret/throw/ub/unsupported/budget)."""
    work = [[]]; n = 0
    while work:
        preset = work.pop()
        if n >= max_paths:
            yield PathResult('pathbudget', None, None, f'path budget {max_paths} exhausted with {len(work) + 1} prefixes pending', None); return
        m = Machine(mod, preset=preset, ubcheck=ubcheck, max_steps=max_steps); m.guide = guide
        args, ctx = setup(m)
        try:
            r = m.call(fn, args); res = PathResult('ret', r, m, None, ctx)
        except Throw as e: res = PathResult('throw', None, m, e.what, ctx)
        except UB as e: res = PathResult('ub', None, m, str(e), ctx)
        except Budget as e: res = PathResult('budget', None, m, str(e), ctx)
        except Infeasible as e:
            work.extend(m.pending); continue
        except Unsupported as e: res = PathResult('unsupported', None, m, str(e), ctx)
        work.extend(m.pending); n += 1
        yield res
